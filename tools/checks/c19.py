"""C19: ABI / method_identifiers / interface outputs are truthful.
Coq: coq/C19/{AbiOut,AbiOutProofs,PropsAbiOut}.v (type tree -> ABI names / JSON; function -> entries, listed and
served signatures; getters).  Tie: exact differential of the real type/function objects vs the model on generated
declarations; observation: generated contracts driven using only the emitted ABI JSON; interface recompilation."""
import json
import re
import warnings
from pathlib import Path

from vlib import coqrun
from vlib import c19_gen as G
from vlib.configs import core_configs, compile_src

LEVEL = "proof"
META = {
    "category": "proof",
    "text": "Coq theorems over a model of the Vyper-type -> ABI mapping: the two signature printers agree for every type "
            "tree (so listed method ids = served ids), the signature an ABI consumer rebuilds from the JSON type/components "
            "is the name of the ABI type the code generators use, k defaults give k+1 entries whose inputs are the prefixes "
            "and whose signatures are the served ones, and the synthesised getter of any HashMap/array/struct nesting has "
            "the key path as inputs; the event / error part of the ABI lists every locally declared or reachably emitted declaration "
            "as its own entry (identity of the declaration, not its topic0 / selector), nothing else, each once (EventSet.v). The model is tied to /repo on every run by an exact differential against the real type "
            "and function objects; the property itself is observed by driving deployed generated contracts purely from the "
            "emitted ABI JSON and by recompiling the emitted interface outputs with a caller.",
    "level_note": "Trusted: Coq kernel + vm_compute; hand model AbiOut.v (H-tie: exact string equality with the real objects on "
                  "generated declarations, every run); eth_abi and pyrevm as independent ABI codec / EVM. Interface text "
                  "round trip and behaviour under the ABI are correspondence only (bounded by the generated corpus).",
    "technique": "Coq proof over hand model + exact differential correspondence + ABI-only driving of deployed contracts",
}

KEY_INDEXED = "C19:interface-output-drops-indexed"
KEY_IFACE_TYPES = "C19:interface-output-omits-interface-types"
KEY_MI_ZEROS = "C19:method-identifiers-drop-leading-zeros"
ZERO_ID_SRC = "@external\ndef evi(a: uint8) -> uint8:\n    return a\n"   # selector 0x08c6be77
KEY_DUP_NAMES = "C19:interface-output-duplicate-event-error-names"
DUP_LIBS = {"lib1.vy": "event Moved:\n    who: indexed(address)\n\n@internal\ndef note(w: address):\n    log Moved(who=w)\n",
            "lib2.vy": "event Moved:\n    who: address\n\n@internal\ndef note(w: address):\n    log Moved(who=w)\n"}
DUP_MAIN = ("import lib1\nimport lib2\n\n@external\ndef a():\n    lib1.note(msg.sender)\n\n"
            "@external\ndef b():\n    lib2.note(msg.sender)\n")
I0_DEF = "interface I0:\n    def foo() -> uint256: view\n"


def keccak(b):
    from eth_utils import keccak as k
    return k(b)


# ---------------------------------------------------------------- consumer-side reading of the JSON
def jsig(d):
    t = d["type"]
    if t.startswith("tuple"):
        return "(" + ",".join(jsig(c) for c in d["components"]) + ")" + t[5:]
    return t


def fsig(e):
    return e["name"] + "(" + ",".join(jsig(i) for i in e["inputs"]) + ")"


def norm(v):
    if isinstance(v, (list, tuple)):
        return tuple(norm(x) for x in v)
    if isinstance(v, str) and v.startswith("0x") and len(v) == 42:
        return v.lower()
    return v


def show_jarg_real(d):
    extra = set(d) - {"name", "type", "components", "internalType"}
    if extra:
        return "UNEXPECTED-KEYS:" + ",".join(sorted(extra))
    s = d["name"] + ":" + d["type"]
    if "components" in d:
        s += "{" + ",".join(show_jarg_real(c) for c in d["components"]) + "}"
    if "internalType" in d:
        s += "!" + d["internalType"]
    return s


def show_entry_real(e):
    extra = set(e) - {"stateMutability", "type", "name", "inputs", "outputs"}
    if extra:
        return "UNEXPECTED-KEYS:" + ",".join(sorted(extra))
    ins = "[" + ";".join(show_jarg_real(i) for i in e["inputs"]) + "]" if "inputs" in e else "-"
    outs = "[" + ";".join(show_jarg_real(i) for i in e["outputs"]) + "]" if "outputs" in e else "-"
    return f"{e['stateMutability']}~{e['type']}~{e.get('name', '-')}~in={ins}~out={outs}"


# ---------------------------------------------------------------- (i) model vs real objects
_TMP = {"dir": None}


def bundle_for(K, extra=None):
    """input bundle holding the contract's library module (and extra files)"""
    import tempfile
    from vyper.compiler.input_bundle import FilesystemInputBundle
    if _TMP["dir"] is None:
        _TMP["dir"] = Path(tempfile.mkdtemp(prefix="c19_"))
    d = Path(tempfile.mkdtemp(dir=_TMP["dir"]))
    if K.get("lib"):
        (d / "lib0.vy").write_text(K["lib"])
    for n, t in (extra or {}).items():
        (d / n).write_text(t)
    return FilesystemInputBundle([d])


def compiler_data(src, decimals=True, input_bundle=None):
    from vyper.compiler.input_bundle import FileInput
    from vyper.compiler.phases import CompilerData
    from vyper.compiler.settings import Settings
    p = Path("gen.vy")
    return CompilerData(FileInput(source_id=-1, contents=src, path=p, resolved_path=p), input_bundle,
                        settings=Settings(enable_decimals=decimals))


def part_model_differential(ctx, contracts):
    from vyper.codegen_venom.module import _generate_external_entry_points
    exprs, real, what = [], [], []
    distinct_types = set()
    for ci, K in enumerate(contracts):
        try:
            cd = compiler_data(K["src"], input_bundle=bundle_for(K))
            mt = cd.annotated_vyper_module._metadata["type"]
            _ = cd.ir_runtime if ci < 2 else None
        except Exception as ex:  # a generated, valid contract is rejected: the tie cannot be evaluated
            ctx.violation("correspondence-broken", "generated valid contract rejected by the compiler front end",
                          {"src": K["src"], "error": f"{type(ex).__name__}: {str(ex)[:500]}"})
            return 0, 1
        fts = {f.name: f for f in mt.exposed_functions}
        if mt.init_function is not None:
            fts["__init__"] = mt.init_function
        for f in K["funcs"] + ([K["ctor"]] if K["ctor"] else []):
            ft = fts[f["name"]]
            entries = "|".join(show_entry_real(e) for e in ft.to_toplevel_abi_dict())
            if f["kind"] == "ctor":
                exprs.append(f'concat "|" (map show_entry (to_toplevel_abi {G.coq_fn(f)}))')
                real.append(entries)
            else:
                served = list(_generate_external_entry_points(ft).keys())
                served2 = [ft.abi_signature_for_kwargs(ft.keyword_args[:i]) for i in range(len(ft.keyword_args) + 1)]
                if served != served2:
                    ctx.violation("correspondence-broken", "venom entry points differ from abi_signature_for_kwargs prefixes",
                                  {"func": f["name"], "entry_points": served, "prefixes": served2, "src": K["src"]})
                exprs.append(f"show_fn {G.coq_fn(f)}")
                real.append(entries + "#" + "|".join(ft.method_ids.keys()) + "#" + "|".join(served))
            what.append((ci, "fn " + f["name"]))
            args = list(ft.arguments)
            decl = f["pos"] + [(k[0], k[1]) for k in f["kws"]]
            assert [a.name for a in args] == [d[0] for d in decl]
            for a, (n, t) in zip(args, decl):
                key = G.coq_ty(t)
                if key in distinct_types:
                    continue
                distinct_types.add(key)
                exprs.append(f'show_ty {key} "{n}"')
                ja = a.typ.to_abi_arg(name=n)
                real.append(a.typ.canonical_abi_type + "#" + a.typ.abi_type.selector_name() + "#" + show_jarg_real(ja) + "#" + jsig(ja))
                what.append((ci, "type " + G.ann(t)))
        for pv in K["pubvars"]:
            ft = fts[pv["name"]]
            entries = "|".join(show_entry_real(e) for e in ft.to_toplevel_abi_dict())
            served = list(_generate_external_entry_points(ft).keys())
            exprs.append(f'show_fn (getter_fn "{pv["name"]}" {G.coq_pty(pv["p"])})')
            real.append(entries + "#" + "|".join(ft.method_ids.keys()) + "#" + "|".join(served))
            what.append((ci, "getter " + pv["name"] + ": " + G.pann(pv["p"])))
        # events / errors: argument types through to_abi_arg
        for ev in K["events"]:
            et = mt.interface.events[ev["name"]]
            d = et.to_toplevel_abi_dict()[0]
            for (n, t, ix), inp in zip(ev["args"], d["inputs"]):
                inp = dict(inp)
                if inp.pop("indexed") != ix:
                    ctx.violation("failing-input", "event ABI entry has wrong `indexed` flag",
                                  {"src": K["src"], "event": ev["name"], "arg": n}, key=None)
                exprs.append(f'show_jarg (to_abi_arg {G.coq_ty(t)} "{n}")')
                real.append(show_jarg_real(inp))
                what.append((ci, f"event {ev['name']}.{n}"))
    imports = "From Verif Require Import C19.AbiOut.\nOpen Scope string_scope.\n"
    outs = coqrun.eval_cases(imports, exprs, "c19diff", shard=max(40, len(exprs) // 3 + 1))
    bad = 0
    for o, r, (ci, w) in zip(outs, real, what):
        m = o.strip()
        m = m[1:-1] if m.startswith('"') and m.endswith('"') else m
        if re.sub(r"\s+", "", m) != re.sub(r"\s+", "", r):
            bad += 1
            if bad <= 3:
                ctx.violation("correspondence-broken", f"AbiOut.v model differs from the real objects on {w}",
                              {"what": w, "model": m, "real": r, "src": contracts[ci]["src"]})
    ctx.corr["model_cases"] = len(exprs)
    ctx.corr["distinct_type_trees"] = len(distinct_types)
    ctx.samples.append({"model_vs_real": what[0][1], "string": real[0][:300]})
    return len(exprs), bad


def part_mutability(ctx):
    """Mutability.v vs StateMutability.from_abi / is_payable / the call opcode and value= rule of a compiled caller."""
    from vyper.compiler import compile_code
    from vyper.exceptions import VyperException
    from vyper.semantics.analysis.base import StateMutability
    strs = ["pure", "view", "nonpayable", "payable", "Pure", "", "constant"]
    exprs = [f'match mut_from_abi "{s}" with Some m => show_mut m ++ (if use_staticcall m then "~S" else "~C") ++ '
             f'(if value_kwarg_allowed m then "~V" else "~N") | None => "none" end' for s in strs]
    outs = coqrun.eval_cases("From Verif Require Import C19.AbiOut C19.Mutability.\nOpen Scope string_scope.\n", exprs, "c19mut")
    n = 0
    for s, o in zip(strs, outs):
        o = o.strip().strip('"')
        try:
            m = StateMutability.from_abi({"stateMutability": s})
        except Exception:  # ValueError, surfaced by the StringEnum as a CompilerPanic
            real = "none"
        else:
            def comp(kw, extra=""):
                src = (f"interface I:\n    def g() -> uint256: {m.value}\n\n@external\ndef c(t: address) -> uint256:\n"
                       f"    return {kw} I(t).g({extra})\n")
                try:
                    with warnings.catch_warnings():
                        warnings.simplefilter("ignore")
                        return compile_code(src, output_formats=["opcodes_runtime"])["opcodes_runtime"].split()
                except VyperException:
                    return None
            st, ex = comp("staticcall"), comp("extcall")
            if (st is None) == (ex is None):
                real = "both-or-neither-keyword"
            else:
                ops = st or ex
                real = m.value + ("~S" if ("STATICCALL" in ops and st is not None) else "~C") + \
                    ("~V" if comp("extcall", "value=1") is not None else "~N")
        n += 1
        if real != o:
            ctx.violation("correspondence-broken", "Mutability.v differs from the compiler (from_abi / call opcode / value= rule)",
                          {"stateMutability": s, "model": o, "real": real})
    ctx.corr["mutability_cases"] = n
    return n


# ---------------------------------------------------------------- (ii) ABI-only driving
class Fail(Exception):
    def __init__(self, name, detail):
        super().__init__(name)
        self.name, self.detail = name, detail


# amounts sent to every entry point (the deployer holds 10**30 wei): odd, even, single high bits, byte boundaries
CALL_VALUES = (1, 2, 256, 10 ** 9, 2 ** 64, 10 ** 18 + 2, 2 ** 96)


def encode_args(inputs, values):
    from eth_abi import encode
    return encode([jsig(i) for i in inputs], list(values))


def decode_strict(outputs, data):
    from eth_abi import decode, encode
    types = [jsig(o) for o in outputs]
    vals = decode(types, data, strict=True)
    if encode(types, list(vals)) != data:
        raise ValueError("non-canonical output encoding")
    return norm(vals)


def descend(v, n):
    for _ in range(n):
        v = v[0]
    return v


def drive(ctx, K, cfg, rnd, stats):
    from vlib.evm import Chain, log_tuple
    with warnings.catch_warnings():
        warnings.simplefilter("ignore")
        out = compile_src(K["src"], cfg, formats=("abi", "method_identifiers", "bytecode", "interface", "external_interface"),
                          contract_path="gen.vy", input_bundle=bundle_for(K))
    abi = out["abi"]
    info = {"config": cfg.name, "src": K["src"]}

    def fail(name, **d):
        raise Fail(name, dict(info, **d))

    fentries = [e for e in abi if e["type"] == "function"]
    events = {e["name"]: e for e in abi if e["type"] == "event"}
    errors = {e["name"]: e for e in abi if e["type"] == "error"}
    ctor = [e for e in abi if e["type"] == "constructor"]
    if any(e["type"] == "fallback" for e in abi):
        fail("ABI lists a fallback but the contract has no __default__")
    # method_identifiers == ids derived from the ABI entries
    listed = {fsig(e): "0x" + keccak(fsig(e).encode())[:4].hex() for e in fentries}
    malformed = {k: v for k, v in out["method_identifiers"].items() if not re.fullmatch(r"0x[0-9a-f]{8}", str(v))}
    if malformed:
        stats["method_identifiers_malformed"] += 1
        if stats["method_identifiers_malformed"] == 1:
            ctx.violation("failing-input", "`method_identifiers` lists an id that is not a 4-byte hex string (leading zeros dropped)",
                          {"src": K["src"], "config": cfg.name, "malformed": malformed}, key=KEY_MI_ZEROS)
    mi = {k: "0x" + int(v, 16).to_bytes(4, "big").hex() for k, v in out["method_identifiers"].items()}
    if listed != mi:
        fail("method_identifiers output differs from the ids of the ABI function entries", from_abi=listed, method_identifiers=mi)
    gfun = {f["name"]: f for f in K["funcs"]}
    gvar = {v["name"]: v for v in K["pubvars"]}
    for f in K["funcs"]:
        n = sum(1 for e in fentries if e["name"] == f["name"])
        if n != len(f["kws"]) + 1:
            fail("number of ABI entries != number of default-arg prefixes", func=f["name"], entries=n)
    # deploy from the constructor entry
    ch = Chain(cfg.evm if cfg.evm != "prague" else "prague")
    code = bytes.fromhex(out["bytecode"][2:])
    if K["ctor"] is None:
        if ctor:
            fail("ABI lists a constructor but none is declared")
        imm_v = None
        addr = ch.deploy(code)
        if addr is None:
            fail("deployment failed")
    else:
        imm_t = K["ctor"]["pos"][0][1]
        imm_v = G.value(imm_t, rnd, min_len=1)
        if len(ctor) != 1:
            fail("expected exactly one constructor entry", n=len(ctor))
        cargs = encode_args(ctor[0]["inputs"], [imm_v])
        payable_ctor = ctor[0]["stateMutability"] == "payable"
        if not payable_ctor and ch.deploy(code + cargs, value=1) is not None:
            fail("constructor listed nonpayable accepted value")
        addr = ch.deploy(code + cargs, value=1 if payable_ctor else 0)
        if addr is None:
            fail("deployment with ABI-encoded constructor args failed", args=str(imm_v))
    stats["deploys"] += 1
    sel_of = {}
    calls_for_caller = []
    for e in fentries:
        name = e["name"]
        sig = fsig(e)
        sel = keccak(sig.encode())[:4]
        sel_of[sig] = sel
        mut = e["stateMutability"]
        static = mut in ("view", "pure")
        nin = len(e["inputs"])
        if name in gfun:
            f = gfun[name]
            decl = f["pos"] + [(k[0], k[1]) for k in f["kws"]]
            if nin > len(decl):
                fail("ABI entry lists more inputs than the declaration has", entry=e)
            vals = [G.value(t, rnd, min_len=1) for _, t in decl[:nin]]
            env = {n: norm(v) for (n, _), v in zip(decl, vals)}
            for k in f["kws"][max(0, nin - len(f["pos"])):]:
                env[k[0]] = norm(k[3])
            try:
                data = sel + encode_args(e["inputs"], vals)
            except Exception as ex:  # the JSON types cannot encode an in-range value of the declared type
                fail("in-range value not encodable per the ABI JSON types", entry=e, value=str(vals), error=str(ex))
            sid = ch.snapshot()
            r = ch.call(addr, data, static=static)
            stats["calls"] += 1
            if f["kind"] == "raise":
                er = errors.get(f["error"])
                if er is None:
                    fail("raised error has no ABI entry", error=f["error"])
                esel = keccak(fsig(er).encode())[:4]
                if r.ok or r.out[:4] != esel:
                    fail("custom error selector does not match its ABI entry", got=r.out[:4].hex(), expected=esel.hex())
                try:
                    dv = decode_strict(er["inputs"], r.out[4:])
                except Exception as ex:
                    fail("custom error data not decodable per its ABI entry", data=r.out.hex(), error=str(ex))
                if dv != tuple(env[n] for n, _ in f["pos"]):
                    fail("custom error data decodes to the wrong values", got=str(dv))
                stats["errors_decoded"] += 1
            else:
                if not r.ok:
                    fail("call encoded per the ABI entry reverted", sig=sig, calldata=data.hex(), static=static)
                try:
                    dv = decode_strict(e["outputs"], r.out)
                except Exception as ex:
                    fail("return data not decodable per the ABI outputs", sig=sig, calldata=data.hex(), out=r.out.hex(), error=str(ex))
                if f["kind"] == "echo":
                    exp = [env[n] for n, _ in f["ret"]]
                    if len(f["ret"]) == 1 and f["ret"][0][1][0] == "tuple" and len(f["ret"][0][1][1]) > 1:
                        exp = list(exp[0])
                    if f.get("wrap1"):
                        exp = [tuple(exp)]
                    if tuple(exp) != dv:
                        fail("decoded return value differs from the value sent / the declared default", sig=sig,
                             calldata=data.hex(), expected=str(exp), got=str(dv))
                    # logs
                    logs = [log_tuple(l) for l in r.logs]
                    if f["event"] is None:
                        if logs:
                            fail("unexpected log", sig=sig)
                    else:
                        ev = events.get(f["event"]["name"])
                        if ev is None or len(logs) != 1:
                            fail("emitted event has no ABI entry / wrong number of logs", sig=sig, nlogs=len(logs))
                        _, topics, ldata = logs[0]
                        esig = fsig(ev)
                        idx = [i for i in ev["inputs"] if i["indexed"]]
                        nidx = [i for i in ev["inputs"] if not i["indexed"]]
                        if topics[0] != keccak(esig.encode()) or len(topics) != 1 + len(idx):
                            fail("log topic0 / topic count does not match the event ABI entry", event=esig,
                                 topics=[t.hex() for t in topics])
                        for tp, i in zip(topics[1:], idx):
                            if tp != encode_args([i], [env[i["name"]]]):
                                fail("indexed topic differs from the ABI encoding of the argument", event=esig, arg=i["name"])
                        try:
                            lv = decode_strict(nidx, ldata)
                        except Exception as ex:
                            fail("log data not decodable per the event ABI entry", event=esig, data=ldata.hex(), error=str(ex))
                        if lv != tuple(env[i["name"]] for i in nidx):
                            fail("log data decodes to the wrong values", event=esig, got=str(lv))
                        stats["logs_decoded"] += 1
                elif f["kind"] == "setter":
                    pv = gvar[f["var"]]
                    ge = [x for x in fentries if x["name"] == pv["name"]]
                    if len(ge) != 1:
                        fail("public variable does not have exactly one getter entry", var=pv["name"])
                    ge = ge[0]
                    nk = f["nkeys"]
                    nidx = len(ge["inputs"]) - nk
                    if nidx < 0 or any(i["type"] != "uint256" for i in ge["inputs"][nk:]) or ge["stateMutability"] != "view":
                        fail("getter entry shape unexpected", entry=ge)
                    gdata = keccak(fsig(ge).encode())[:4] + encode_args(ge["inputs"], vals[:nk] + [0] * nidx)
                    gr = ch.call(addr, gdata, static=True)
                    if not gr.ok:
                        fail("getter call encoded per its ABI entry reverted", sig=fsig(ge), calldata=gdata.hex())
                    try:
                        gv = decode_strict(ge["outputs"], gr.out)
                    except Exception as ex:
                        fail("getter output not decodable per its ABI entry", sig=fsig(ge), out=gr.out.hex(), error=str(ex))
                    if gv != (descend(norm(vals[nk]), nidx),):
                        fail("getter returned a different value than stored", sig=fsig(ge), got=str(gv),
                             expected=str(descend(norm(vals[nk]), nidx)))
                    stats["getter_roundtrips"] += 1
            ch.revert(sid)
            # value: accepted iff payable
            # (a family of amounts: a check that looks at one bit, one byte or the sign of the amount must not pass)
            for amount in CALL_VALUES:
                sid = ch.snapshot()
                rv = ch.call(addr, data, value=amount)
                ch.revert(sid)
                stats["value_probes"] = stats.get("value_probes", 0) + 1
                if f["kind"] != "raise" and rv.ok != (mut == "payable"):
                    fail("value accepted iff payable violated", sig=sig, mutability=mut, accepted=rv.ok, call_value=amount)
            if nin == len(decl) and f["kind"] != "setter":
                calls_for_caller.append((e, vals, data))
        elif name in gvar and gvar[name]["kind"] in ("constant", "immutable"):
            pv = gvar[name]
            base = norm(pv["pyval"]) if pv["kind"] == "constant" else norm(imm_v)
            if any(i["type"] != "uint256" for i in e["inputs"]) or mut != "view":
                fail("getter entry shape unexpected", entry=e)
            data = sel + encode_args(e["inputs"], [0] * nin)
            r = ch.call(addr, data, static=True)
            if not r.ok:
                fail("getter call reverted", sig=sig)
            dv = decode_strict(e["outputs"], r.out)
            if dv != (descend(base, nin),):
                fail("constant/immutable getter value differs", sig=sig, got=str(dv), expected=str(descend(base, nin)))
            for amount in CALL_VALUES:
                stats["value_probes"] = stats.get("value_probes", 0) + 1
                if ch.call(addr, data, value=amount).ok:
                    fail("view getter accepted value", sig=sig, call_value=amount)
            stats["getter_roundtrips"] += 1
            calls_for_caller.append((e, [0] * nin, data))
        elif name in gvar and gvar[name]["kind"] == "exported":
            data = sel + encode_args(e["inputs"], [0] * nin)
            r = ch.call(addr, data, static=True)
            if mut != "view" or not r.ok:
                fail("exported public variable getter not callable as listed", sig=sig, mutability=mut)
            decode_strict(e["outputs"], r.out)
            stats["getter_roundtrips"] += 1
            calls_for_caller.append((e, [0] * nin, data))
        elif name in gvar:
            pass  # exercised through its setter
        else:
            fail("ABI lists a function that was never declared", entry=e)
    # unlisted selectors are not served
    listed_sels = set(sel_of.values())
    tail = bytes(32 * 12)
    for sig, sel in sel_of.items():
        for pos in range(4):
            for d in (1, 0x80):
                s2 = bytearray(sel)
                s2[pos] ^= d
                s2 = bytes(s2)
                if s2 in listed_sels:
                    continue
                stats["unlisted_probes"] += 1
                if ch.call(addr, s2 + tail).ok:
                    fail("an unlisted selector is served", selector=s2.hex(), neighbour=sig)
    for short in (b"", b"\x00", sel[:3]):
        if ch.call(addr, short).ok:
            fail("short calldata accepted without __default__", calldata=short.hex())
    # (iii) interface outputs
    interface_roundtrip(ctx, K, cfg, out, abi, ch, addr, calls_for_caller, fail, stats)


def parse_iface_line(l):
    """`    def name(args)[ -> ret]: mut` -> (name, args, ret, mut) with paren matching."""
    m = re.match(r"^    def (\w+)\(", l)
    if not m:
        return None
    i = m.end()
    depth, j = 1, i
    while j < len(l) and depth:
        depth += l[j] in "(["
        depth -= l[j] in ")]"
        j += 1
    if depth:
        return None
    args, rest = l[i:j - 1], l[j:]
    m2 = re.match(r"^(?: -> (.*))?: (\w+)$", rest)
    if not m2:
        return None
    return m.group(1), args, m2.group(1), m2.group(2)


def interface_roundtrip(ctx, K, cfg, out, abi, ch, addr, calls, fail, stats):
    from vyper.exceptions import VyperException
    itext, etext = out["interface"], out["external_interface"]
    with warnings.catch_warnings():
        warnings.simplefilter("ignore")
        try:
            iabi = compile_src(itext, cfg, formats=("abi",), contract_path="gen_iface.vyi")["abi"]
        except VyperException as ex:
            if "named 'I0'" not in str(ex):
                fail("the emitted `interface` output is rejected by the compiler", interface=itext, error=str(ex)[:600])
            stats["interface_missing_iface_types"] += 1
            if stats["interface_missing_iface_types"] == 1:
                ctx.violation("failing-input", "`interface` output mentions an interface type it does not define: rejected by the compiler",
                              {"src": K["src"], "config": cfg.name, "interface": itext, "error": str(ex)[:400],
                               "replay": "compile src with -f interface and compile the result as x.vyi"}, key=KEY_IFACE_TYPES)
            # continue with the missing definition supplied by hand
            itext = I0_DEF + "\n" + itext
            try:
                iabi = compile_src(itext, cfg, formats=("abi",), contract_path="gen_iface.vyi")["abi"]
            except VyperException as ex2:
                fail("the emitted `interface` output is rejected by the compiler (even with interface types supplied)",
                     interface=itext, error=str(ex2)[:600])
    stats["interfaces_compiled"] += 1
    full = {}
    for e in abi:
        if e["type"] == "function" and len(e["inputs"]) >= len(full.get(e["name"], {"inputs": []})["inputs"]):
            full[e["name"]] = e
    ifun = {e["name"]: e for e in iabi if e["type"] == "function"}
    if ifun != full:
        diff = [n for n in set(ifun) | set(full) if ifun.get(n) != full.get(n)]
        fail("function entries of the compiled `interface` output differ from the contract ABI", names=diff,
             iface=[ifun.get(n) for n in diff], contract=[full.get(n) for n in diff])
    for kind in ("event", "error"):
        a = {e["name"]: e for e in abi if e["type"] == kind}
        b = {e["name"]: e for e in iabi if e["type"] == kind}
        if a != b:
            strip = lambda d: {n: dict(e, inputs=[{k: v for k, v in i.items() if k != "indexed"} for i in e["inputs"]])  # noqa
                               for n, e in d.items()}
            if kind == "event" and strip(a) == strip(b):
                nm = [n for n in a if a[n] != b[n]][0]
                stats["interface_indexed_dropped"] += 1
                if stats["interface_indexed_dropped"] == 1:
                    ctx.violation("failing-input", "`interface` output drops indexed() from events: compiling it gives a different event ABI",
                                  {"src": K["src"], "config": cfg.name, "event": nm, "contract_abi": a[nm], "interface_abi": b[nm],
                                   "replay": "compile src with -f interface, compile the result as x.vyi with -f abi, compare the event entry"},
                                  key=KEY_INDEXED)
            else:
                fail(f"{kind} entries of the compiled `interface` output differ from the contract ABI",
                     contract=a, iface=b)
    # every type definition which the interface output repeats must be the declaration: members in declaration order
    # (flag members are bit positions, struct members are ABI tuple positions), same member types
    decl, emitted = parse_type_blocks(K["src"]), parse_type_blocks(itext)
    for key, members in emitted.items():
        if key in decl and decl[key] != members:
            fail("a type definition in the `interface` output differs from the declaration (member order / types)",
                 type=" ".join(key), declared=decl[key], interface=members, interface_text=itext)
        stats["interface_type_defs_compared"] += 1
    # the contract must implement its own emitted interface
    lines0 = K["src"].split("\n")
    k0 = 1 if lines0 and lines0[0].startswith("# pragma") else 0
    isrc = "\n".join(lines0[:k0] + ["import gen_iface", "implements: gen_iface"] + lines0[k0:])
    # (user-defined types -- structs, flags, interfaces -- are nominal per module, so only signatures without them can match across the .vyi)
    def user_types(K):
        ts = [t for f in K["funcs"] for _, t in f["pos"]] + [k[1] for f in K["funcs"] for k in f["kws"]] + \
             [t for f in K["funcs"] for _, t in f["ret"]]
        for pv in K["pubvars"]:
            p = pv["p"]
            while p[0] == "map":
                ts.append(p[1])
                p = p[2]
            ts.append(p[1])
        return any(G.contains(t, ("struct", "flag", "iface")) for t in ts)
    with warnings.catch_warnings():
        warnings.simplefilter("ignore")
        try:
            if not user_types(K):
                compile_src(isrc, cfg, formats=("bytecode",), contract_path="gen.vy", input_bundle=bundle_for(K, {"gen_iface.vyi": itext}))
                stats["implements_own_interface"] += 1
        except VyperException as ex:
            if stats["interface_indexed_dropped"] and "event" in str(ex).lower():
                stats["implements_rejected_due_to_indexed"] += 1
            else:
                fail("the contract does not implement its own emitted `interface` output", error=str(ex)[:700], interface=itext)
    # caller compiled against external_interface (+ the struct/flag definitions of `interface`)
    header = re.split(r"^# (?:Events|Errors|Functions)$", itext, flags=re.M)[0]
    needs_i0 = "I0" in etext
    lines = [l for l in etext.splitlines() if l.startswith("    def ")]
    m0 = re.search(r"^interface (\w+):$", etext, flags=re.M)
    if not m0:
        fail("external_interface output has no interface block", text=etext)
    iname = m0.group(1)
    src = header + (I0_DEF if needs_i0 and I0_DEF not in header else "") + etext + "\n"
    sigs = {}
    for l in lines:
        m = parse_iface_line(l)
        if not m:
            fail("unparseable external_interface line", line=l)
        name, args, ret, mut = m
        sigs[name] = (args, ret, mut)
        if not ret and mut in ("view", "pure"):
            continue  # a void staticcall is not expressible in a caller
        argnames = [a.split(":")[0].strip() for a in split_top(args)] if args.strip() else []
        kw = "staticcall" if mut in ("view", "pure") else "extcall"
        deco = "@view\n" if mut in ("view", "pure") else ""
        call = f"{kw} {iname}(t).{name}({', '.join(argnames)})"
        src += (f"@external\n{deco}def c_{name}(t: address{', ' if args.strip() else ''}{args}){' -> ' + ret if ret else ''}:\n"
                f"    {'return ' if ret else ''}{call}\n\n")
    if set(sigs) != set(full):
        fail("external_interface lists a different set of functions than the ABI", iface=sorted(sigs), abi=sorted(full))
    for n, (a, r, mut) in sigs.items():
        if mut != full[n]["stateMutability"]:
            fail("external_interface mutability differs from the ABI", func=n)
    with warnings.catch_warnings():
        warnings.simplefilter("ignore")
        try:
            cout = compile_src(src, cfg, formats=("abi", "bytecode"), contract_path="caller.vy")
        except VyperException as ex:
            fail("a caller written against the emitted external_interface is rejected by the compiler", caller=src,
                 error=str(ex)[:600])
    stats["callers_compiled"] += 1
    caddr = ch.deploy(bytes.fromhex(cout["bytecode"][2:]))
    if caddr is None:
        fail("caller deployment failed")
    cabi = {e["name"]: e for e in cout["abi"] if e["type"] == "function"}
    for e, vals, data in calls:
        if "c_" + e["name"] not in cabi:
            continue
        ce = cabi["c_" + e["name"]]
        static = e["stateMutability"] in ("view", "pure")
        sid = ch.snapshot()
        d = ch.call(addr, data, static=static)
        ch.revert(sid)
        cdata = keccak(fsig(ce).encode())[:4] + encode_args(ce["inputs"], [addr] + list(vals))
        sid = ch.snapshot()
        c = ch.call(caddr, cdata, static=static)
        ch.revert(sid)
        stats["caller_calls"] += 1
        if d.ok != c.ok or (d.ok and d.out != c.out):
            fail("call through a caller compiled against the emitted interface differs from the direct call",
                 func=fsig(e), direct=[d.ok, d.out.hex()], via_caller=[c.ok, c.out.hex()], caller=src)


# ---------------------------------------------------------------- events / errors of imported modules
def drive_modules(ctx, M, cfg, rnd, stats):
    """ABI truthfulness for logs and custom errors, matched by topic0 / selector (never by name): every log emitted and every
    custom error raised by the deployed code is described by an ABI entry, and the ABI lists exactly the locally declared
    and the reachable imported events / errors."""
    from vlib.evm import Chain, log_tuple
    from eth_abi import encode
    with warnings.catch_warnings():
        warnings.simplefilter("ignore")
        out = compile_src(M["src"], cfg, formats=("abi", "method_identifiers", "bytecode", "interface"), contract_path="gen.vy",
                          input_bundle=bundle_for({}, extra=M["files"]))
    abi = out["abi"]
    if "model" in M and "real_part" not in M:      # for the tie of coq/C19/EventSet.v (the ABI does not depend on the config)
        from vlib import c19_evvar as EV0
        M["real_part"] = EV0.show_real_part(abi, jsig)
    info = {"config": cfg.name, "src": M["src"], "modules": M["files"]}

    def fail(name, **d):
        raise Fail(name, dict(info, **d))

    # several entries may share a topic0 / selector (same name and argument types declared in two modules, with another
    # `indexed` layout or other field names): a log / error must be described by SOME entry with its id
    by_topic, by_sel = {}, {}
    listed = {"event": set(), "error": set()}
    entry_key = lambda e: (fsig(e), tuple(i["name"] for i in e["inputs"]),  # noqa
                           tuple(bool(i["indexed"]) for i in e["inputs"]) if e["type"] == "event" else ())
    described = {"event": set(), "error": set()}     # entries which described at least one emitted log / raised error
    for e in abi:
        if e["type"] == "event":
            by_topic.setdefault(keccak(fsig(e).encode()), []).append(e)
            listed["event"].add(entry_key(e))
        elif e["type"] == "error":
            by_sel.setdefault(keccak(fsig(e).encode())[:4], []).append(e)
            listed["error"].add(entry_key(e))

    def log_mismatch(ev, topics, ldata, vals):
        """None if the entry describes the log (topic count, indexed topics, data decode to the source-level values)"""
        idx = [(i, v) for i, v in zip(ev["inputs"], vals) if i["indexed"]]
        nidx = [i for i in ev["inputs"] if not i["indexed"]]
        if len(topics) != 1 + len(idx):
            return "log topic count does not match the event ABI entry"
        for tp, (i, v) in zip(topics[1:], idx):
            if tp != encode_args([i], [v]):
                return "indexed topic differs from the ABI encoding of the argument"
        try:
            lv = decode_strict(nidx, ldata)
        except Exception as ex:
            return f"log data not decodable per the event ABI entry ({str(ex)[:80]})"
        if lv != tuple(norm(v) for i, v in zip(ev["inputs"], vals) if not i["indexed"]):
            return "log data decodes to the wrong values"
        return None
    ch = Chain(cfg.evm)
    addr = ch.deploy(bytes.fromhex(out["bytecode"][2:]))
    if addr is None:
        fail("deployment failed")
    stats["deploys"] += 1
    for c in M["calls"]:
        d = c["decl"]
        types = [G.abi_canon(t) for _, t, _ in d["fields"]]
        vals = [G.value(t, rnd, min_len=1) for _, t, _ in d["fields"]]
        data = keccak(c["fsig"].encode())[:4] + encode(types, vals)
        info["calldata"] = data.hex()      # replay: compile src + modules, deploy, send this, read the log / revert data
        r = ch.call(addr, data)
        stats["calls"] += 1
        if d["kind"] == "event":
            logs = [log_tuple(l) for l in r.logs] if r.ok else []
            if len(logs) != 1:
                fail("call which emits one event did not produce exactly one log", call=c["fsig"], ok=r.ok, nlogs=len(logs))
            _, topics, ldata = logs[0]
            cands = by_topic.get(topics[0], [])
            if not cands:
                fail("emitted log has no ABI event entry (matched by topic0)", call=c["fsig"], emitted=c["sig"], topic0=topics[0].hex(),
                     abi_events=sorted(x[0] for x in listed["event"]))
            why = [log_mismatch(ev, topics, ldata, vals) for ev in cands]
            if len(cands) == 1 and why[0] is not None:
                fail(why[0].split(" (")[0], event=fsig(cands[0]), entry=cands[0], call=c["fsig"], topics=[t.hex() for t in topics],
                     data=ldata.hex(), values=str(vals), declaration=str(d["fields"]), reason=why[0])
            if all(w is not None for w in why):
                fail("emitted log is described by none of the ABI event entries with its topic0", call=c["fsig"], emitted=c["sig"],
                     declaration=str(d["fields"]), topics=[t.hex() for t in topics], data=ldata.hex(), values=str(vals),
                     candidates=[{"entry": e, "mismatch": w} for e, w in zip(cands, why)])
            for ev, w in zip(cands, why):
                if w is None:
                    described["event"].add(entry_key(ev))
            stats["module_logs_decoded"] += 1
        else:
            if r.ok or len(r.out) < 4:
                fail("call which raises a custom error did not revert with data", call=c["fsig"], ok=r.ok, out=r.out.hex())
            cands = by_sel.get(r.out[:4], [])
            if not cands:
                fail("raised custom error has no ABI error entry (matched by selector)", call=c["fsig"], raised=c["sig"],
                     selector=r.out[:4].hex(), abi_errors=sorted(x[0] for x in listed["error"]))
            why = []
            for er in cands:
                try:
                    dv = decode_strict(er["inputs"], r.out[4:])
                    why.append(None if dv == tuple(norm(v) for v in vals) else "custom error data decodes to the wrong values")
                except Exception as ex:
                    why.append(f"custom error data not decodable per its ABI entry ({str(ex)[:80]})")
            if all(w is not None for w in why):
                fail(why[0].split(" (")[0], error_entry=fsig(cands[0]), data=r.out.hex(), values=str(vals), reasons=why)
            for er, w in zip(cands, why):
                if w is None:
                    described["error"].add(entry_key(er))
            stats["module_errors_decoded"] += 1
    for kind in ("event", "error"):
        if listed[kind] != M["expected"][kind]:
            fail(f"ABI {kind} entries differ from the declared + reachable {kind}s",
                 missing=sorted(map(str, M["expected"][kind] - listed[kind])), unexpected=sorted(map(str, listed[kind] - M["expected"][kind])))
    # every listed entry must be emittable: each reachable declaration is emitted / raised once above, so an entry which
    # described nothing (and is not one of the called declarations, e.g. declared-but-unused) is a phantom
    called = {"event": set(), "error": set()}
    for c in M["calls"]:
        d = c["decl"]
        called[d["kind"]].add((c["sig"], tuple(n for n, _, _ in d["fields"]),
                               tuple(bool(ix) for _, _, ix in d["fields"]) if d["kind"] == "event" else ()))
    for kind in ("event", "error"):
        ghosts = (listed[kind] & called[kind]) - described[kind]
        if ghosts:
            fail(f"an ABI {kind} entry of an emitted declaration describes no emitted {kind}", entries=sorted(map(str, ghosts)))
        stats[f"module_{kind}_entries_emitted"] += len(described[kind])
    # the `# Events` / `# Errors` sections of the `interface` output: exactly the same declarations (name, fields, indexed)
    if "blocks" in M:
        from vlib import c19_evvar as EV
        got = EV.parse_decl_blocks(out["interface"])
        for kind in ("event", "error"):
            if got[kind] != M["blocks"][kind]:
                fail(f"`interface` output: the {kind} declarations differ from the declared + reachable {kind}s",
                     missing=sorted(map(str, M["blocks"][kind] - got[kind])), unexpected=sorted(map(str, got[kind] - M["blocks"][kind])),
                     interface=out["interface"])
        stats["module_interface_sections_compared"] += 1
        # ... and the text must be valid compiler input giving the same event / error entries.  Two same-named declarations
        # of different modules (legal in the contract) are printed as two blocks of one name, which the compiler rejects as
        # a NamespaceCollision: counted (see notes/C19.md, Findings), anything else is reported
        from vyper.exceptions import VyperException
        dup = any(len({b for b in M["blocks"][k] if b[0] == nm}) > 1 for k in ("event", "error") for nm in {b[0] for b in M["blocks"][k]})
        try:
            with warnings.catch_warnings():
                warnings.simplefilter("ignore")
                iabi = compile_src(out["interface"], cfg, formats=("abi",), contract_path="gen_iface.vyi")["abi"]
        except VyperException as ex:
            if not (dup and "NamespaceCollision" in str(ex) and "has already been declared" in str(ex)):
                fail("the emitted `interface` output is rejected by the compiler", interface=out["interface"], error=str(ex)[:600])
            stats["interface_dup_names_rejected"] += 1
            if stats["interface_dup_names_rejected"] == 1:       # one report per run; any other rejection fails above (other key)
                ctx.violation("failing-input", "`interface` output repeats the name of two same-named events / errors of different "
                              "modules: rejected by the compiler (NamespaceCollision)",
                              {"src": DUP_MAIN, "modules": DUP_LIBS, "config": cfg.name, "error": str(ex)[:400],
                               "replay": "write modules + src (main.vy); vyper -f interface main.vy > m.vyi; vyper m.vyi",
                               "minimal": dup_names_minimal(cfg), "seen_on": {"src": M["src"], "modules": M["files"]}},
                              key=KEY_DUP_NAMES)
        else:
            for kind in ("event", "error"):
                a = {entry_key(e) for e in abi if e["type"] == kind}
                b2 = {entry_key(e) for e in iabi if e["type"] == kind}
                if a != b2:
                    fail(f"{kind} entries of the compiled `interface` output differ from the contract ABI",
                         contract=sorted(map(str, a)), iface=sorted(map(str, b2)), interface=out["interface"])
            stats["module_interfaces_compiled"] += 1
        stats["same_id_variant_programs"] += 1
    stats["module_programs"] += 1


def dup_names_minimal(cfg):
    """the two-module minimal program of KEY_DUP_NAMES: its `interface` output and what the compiler says about it"""
    from vyper.exceptions import VyperException
    with warnings.catch_warnings():
        warnings.simplefilter("ignore")
        try:
            itext = compile_src(DUP_MAIN, cfg, formats=("interface",), contract_path="main.vy",
                                input_bundle=bundle_for({}, extra=DUP_LIBS))["interface"]
        except VyperException as ex:
            return {"main_rejected": str(ex)[:300]}
        try:
            compile_src(itext, cfg, formats=("abi",), contract_path="m.vyi")
            return {"interface": itext, "compiler": "accepted"}
        except VyperException as ex:
            return {"interface": itext, "compiler": str(ex)[:400]}


def parse_type_blocks(text):
    """{("flag"|"struct", name): [member lines]} of a source / interface text"""
    blocks, cur = {}, None
    for l in text.splitlines():
        m = re.match(r"^(flag|struct) (\w+):\s*$", l)
        if m:
            cur = (m.group(1), m.group(2))
            blocks[cur] = []
        elif cur is not None and l.startswith(" ") and l.strip():
            blocks[cur].append(re.sub(r"\s+", " ", l.strip()))
        elif l.strip():
            cur = None
    return blocks


FLAG_TARGET = """
flag Perm:
    WRITE
    READ
    EXEC
    ADMIN

struct Grant:
    who: address
    perm: Perm
    extra: uint8

@external
@pure
def raw(p: Perm) -> uint256:
    return convert(p, uint256)

@external
@pure
def admin_or(p: Perm) -> Perm:
    return Perm.ADMIN | p

@external
@pure
def unpack(g: Grant) -> (uint256, uint256):
    return convert(g.perm, uint256), convert(g.extra, uint256)
"""
FLAG_MEMBERS_DECL = ["WRITE", "READ", "EXEC", "ADMIN"]


def probe_flag_interface(ctx, cfg, stats):
    """a caller which imports the emitted `interface` output and names flag members / builds structs by member name must
    send the same bits as the declaration says (flag: 2**declaration index; struct: ABI tuple in declaration order)"""
    from vlib.evm import Chain
    from eth_abi import decode, encode
    with warnings.catch_warnings():
        warnings.simplefilter("ignore")
        out = compile_src(FLAG_TARGET, cfg, formats=("abi", "bytecode", "interface"), contract_path="target.vy")
        itext = out["interface"]
        caller = "import target\n\n"
        for mname in FLAG_MEMBERS_DECL:
            caller += (f"@external\n@view\ndef raw_{mname}(t: address) -> uint256:\n    return staticcall target(t).raw(target.Perm.{mname})\n\n")
        caller += ("@external\n@view\ndef is_admin_read(t: address) -> bool:\n"
                   "    return staticcall target(t).admin_or(target.Perm.READ) == (target.Perm.ADMIN | target.Perm.READ)\n\n"
                   "@external\n@view\ndef unpack(t: address) -> (uint256, uint256):\n"
                   "    return staticcall target(t).unpack(target.Grant(who=t, perm=target.Perm.EXEC, extra=9))\n")
        try:
            cout = compile_src(caller, cfg, formats=("abi", "bytecode"), contract_path="caller.vy",
                               input_bundle=bundle_for({}, extra={"target.vyi": itext}))
        except Exception as ex:
            raise Fail("a caller importing the emitted `interface` output (flag / struct by member name) is rejected",
                       {"config": cfg.name, "src": FLAG_TARGET, "interface": itext, "caller": caller, "error": str(ex)[:600]})
    ch = Chain(cfg.evm)
    taddr = ch.deploy(bytes.fromhex(out["bytecode"][2:]))
    caddr = ch.deploy(bytes.fromhex(cout["bytecode"][2:]))
    info = {"config": cfg.name, "src": FLAG_TARGET, "interface": itext, "caller": caller}

    def call(sig, rtypes):
        r = ch.call(caddr, keccak(sig.encode())[:4] + encode(["address"], [taddr]), static=True)
        stats["caller_calls"] += 1
        if not r.ok:
            raise Fail("call through the interface-importing caller reverted", dict(info, call=sig))
        return decode(rtypes, r.out)
    for i, mname in enumerate(FLAG_MEMBERS_DECL):
        got = call(f"raw_{mname}(address)", ["uint256"])[0]
        if got != 2 ** i:
            raise Fail("flag member named through the emitted `interface` output has a different value than in the contract",
                       dict(info, member=f"Perm.{mname}", declared_value=2 ** i, value_sent_by_caller=got))
    if call("is_admin_read(address)", ["bool"])[0] is not True:
        raise Fail("flag value returned to an interface-importing caller compares unequal to the same members named by the caller", info)
    if tuple(call("unpack(address)", ["uint256", "uint256"])) != (4, 9):
        raise Fail("struct built by member name through the emitted `interface` output arrives with different members", info)
    stats["flag_interface_probes"] += 1


def split_top(s):
    out, depth, cur = [], 0, ""
    for ch in s:
        if ch in "([":
            depth += 1
        if ch in ")]":
            depth -= 1
        if ch == "," and depth == 0:
            out.append(cur)
            cur = ""
        else:
            cur += ch
    if cur.strip():
        out.append(cur)
    return out


def run(ctx):
    import collections
    b = ctx.coq_build(["C19/AbiOut.v", "C19/AbiOutProofs.v", "C19/Mutability.v", "C19/SelectorInj.v", "C19/PropsAbiOut.v",
                       "C19/EventSet.v", "C19/EventSetProofs.v", "C19/PropsEventSet.v"])
    rnd = ctx.rng("contracts")
    ncontracts = 16 if ctx.tier == "quick" else 60
    contracts = [G.gen_contract(rnd) for _ in range(ncontracts)]
    model_ok = (coqrun.COQ / "C19" / "AbiOut.vo").exists()
    n_model, bad = (0, 0)
    if model_ok:
        n_model, bad = part_model_differential(ctx, contracts)
        n_model += part_mutability(ctx)
    stats = collections.Counter()
    from vlib.configs import Config
    cfgs = [Config(False, "gas", "shanghai"), Config(False, "none", "london"), Config(True, "gas", "prague"),
            Config(True, "O3", "cancun"), Config(True, "gas", "paris")]
    # -O codesize selects another dispatcher (the dense selector table, when there are more than 4 entry points), and the
    # payability / calldata-size guards the ABI promises live in the dispatcher: every contract also runs under one of these
    size_cfgs = [Config(False, "codesize", "cancun"), Config(True, "codesize", "prague"), Config(False, "codesize", "paris"),
                 Config(True, "codesize", "shanghai")]
    found = False
    reported = set()
    drv = ctx.rng("drive")
    # permanent probe: a selector with a leading zero byte
    contracts = contracts + [{"src": ZERO_ID_SRC, "funcs": [{"name": "evi", "mut": "nonpayable", "pos": [("a", ("int", False, 8))], "kws": [],
                                                              "ret": [("a", ("int", False, 8))], "event": None, "kind": "echo"}],
                              "pubvars": [], "events": [], "errors": [], "ctor": None, "structs": [], "flags": []}]
    for i, K in enumerate(contracts):
        # every contract runs on a pre-cancun legacy target (storage re-entrancy lock: a view function must not write it)
        # and on one venom target; thorough: all
        use = cfgs + size_cfgs if ctx.tier == "thorough" else [cfgs[i % 2], cfgs[2 + i % 3], size_cfgs[i % 4]]
        for cfg in use:
            try:
                drive(ctx, K, cfg, drv, stats)
                stats["contract_configs"] += 1
            except Fail as f:
                found = True
                if f.name not in reported and len(reported) < 3:
                    reported.add(f.name)
                    ctx.violation("failing-input", f.name, f.detail, key="C19:" + f.name[:60])
                break
        if len(reported) >= 3:
            break
    for cfg in ([cfgs[0], cfgs[2]] if ctx.tier == "quick" else cfgs):
        try:
            probe_flag_interface(ctx, cfg, stats)
        except Fail as f:
            found = True
            if f.name not in reported:
                reported.add(f.name)
                ctx.violation("failing-input", f.name, f.detail, key="C19:" + f.name[:60])
            break
    mrnd = ctx.rng("module-events")
    for i in range(8 if ctx.tier == "quick" else 40):
        M = G.gen_module_events(mrnd)
        use = cfgs if ctx.tier == "thorough" else [cfgs[i % 2], cfgs[2 + i % 3]]
        for cfg in use:
            try:
                drive_modules(ctx, M, cfg, drv, stats)
                stats["contract_configs"] += 1
            except Fail as f:
                found = True
                if f.name not in reported and len(reported) < 3:
                    reported.add(f.name)
                    ctx.violation("failing-input", f.name, f.detail, key="C19:" + f.name[:60])
                break
        if len(reported) >= 3:
            break
    # same NAME declared in several modules as variants of one declaration (identical / re-indexed / renamed fields: same
    # topic0 / selector) -- tools/vlib/c19_evvar.py
    from vlib import c19_evvar as EV
    vrnd = ctx.rng("event-variants")
    seen_variants = collections.Counter()
    tied = []
    for i in range(10 if ctx.tier == "quick" else 60):
        if len(reported) >= 3:
            break
        M = EV.gen_event_variants(vrnd)
        seen_variants.update(M["variants"])
        use = cfgs if ctx.tier == "thorough" else [cfgs[i % 2], cfgs[2 + i % 3]]
        for cfg in use:
            try:
                drive_modules(ctx, M, cfg, drv, stats)
                stats["contract_configs"] += 1
                if "real_part" in M and M not in tied:
                    tied.append(M)
            except Fail as f:
                found = True
                if "real_part" in M and M not in tied:
                    tied.append(M)
                if f.name not in reported and len(reported) < 3:
                    reported.add(f.name)
                    f.detail["replay"] = ("write `modules` next to `src` (gen.vy), compile gen.vy with -f abi,bytecode (config as "
                                          "given), deploy, send the call, compare the log / revert data with the ABI json")
                    ctx.violation("failing-input", f.name, f.detail, key="C19:" + f.name[:60])
                break
    ctx.extra["event_variant_kinds"] = dict(seen_variants)
    # tie of coq/C19/EventSet.v (which declarations the ABI lists, in which order): model vs the real ABI json of every
    # variant program.  A difference without a failing input from the driving above is a broken correspondence.
    if (coqrun.COQ / "C19" / "EventSet.vo").exists() and tied:
        outs = coqrun.eval_cases("From Verif Require Import C19.EventSet.\nOpen Scope string_scope.\n",
                                 [EV.coq_abi_part(M["model"]) for M in tied], "c19evset")
        nbad = 0
        for o, M in zip(outs, tied):
            m = o.strip()
            m = m[1:-1] if m.startswith('"') and m.endswith('"') else m
            if re.sub(r"\s+", "", m) != re.sub(r"\s+", "", M["real_part"]):
                nbad += 1
                if nbad == 1 and not found:
                    ctx.violation("correspondence-broken", "EventSet.v (declarations listed by the ABI) differs from the real ABI json "
                                  "-- theorems abi_lists_every_emitted_declaration / abi_lists_only_declared_or_emitted",
                                  {"model": m, "real": M["real_part"], "src": M["src"], "modules": M["files"]})
        ctx.corr["event_set_model_cases"] = len(tied)
        ctx.corr["event_set_model_mismatches"] = nbad
        n_model += len(tied)
        ctx.samples.append({"event_set_model_vs_real": tied[0]["real_part"][:300]})
    if not b["ok"] and not found:
        ctx.violation("theorem-broken", f"{b.get('failed_lemma')} in {b['file']}",
                      {"theorem": b.get("failed_lemma"), "file": b["file"], "coq_output": b["out"][-1500:]})
    if _TMP["dir"] is not None:      # the temporary bundles of this run
        import shutil
        shutil.rmtree(_TMP["dir"], ignore_errors=True)
        _TMP["dir"] = None
    ctx.corr.update({k: int(v) for k, v in stats.items()})
    total = n_model + stats["calls"] + stats["unlisted_probes"] + stats["caller_calls"] + stats["getter_roundtrips"]
    ctx.corr["evaluations"] = total
    ctx.corr["distinct_nontrivial"] = n_model + stats["calls"] + stats["caller_calls"] + stats["getter_roundtrips"]
    ctx.corr["rule"] = ("model cases = distinct declarations/type trees compared as exact strings; calls = distinct ABI entries x "
                        "configs driven from the JSON (each with fresh in-range values); unlisted selector probes counted "
                        "in evaluations only")
    ctx.trusted += ["Coq 8.16.1 kernel + vm_compute", "eth_abi 5.x (independent ABI codec)", "pyrevm (EVM)",
                    "hand model coq/C19/AbiOut.v, tied by exact differential each run"]
    ctx.assumptions += ["keccak256 is treated as an uninterpreted function of the signature string (ids equal because signatures equal)"]
