"""C05: ABI input is decoded strictly.
Coq: coq/C05/Dec.v (acceptance model over the shared ABI spec coq/C06/Abi.v), DecProofs.v, PropsC05.v, Harness.v.
Tie: echo contracts under the I.7 configurations on pyrevm, canonical encodings + structured corruption stream through
external-function arguments (exact accept/reject + echoed value), abi_decode, constructor arguments and external-call
return data (property oracle); needs_clamp model vs both real copies on real vyper types."""
from concurrent.futures import ProcessPoolExecutor

from vlib import c05_harness as H
from vlib import c06_abi as A
from vlib import configs as C
from vlib import coqrun
from vlib.c06_exits import selector, sig

LEVEL = "proof"
META = {
    "category": "proof",
    "text": "Coq: for the offset-following decoder with EVM pointer arithmetic and zero-extended reads (the acceptance "
            "model of an external entry point), every accepted byte string yields a value inside its declared type at "
            "every nesting depth (integer ranges, bool, address, bytesN padding, flag members, lengths within bounds), "
            "canonical encodings of in-type values are always accepted and decode to the value, the calldatasize entry "
            "check rejects no canonical call, and types for which needs_clamp is false accept every word in type.  "
            "The model is tied to both code generators by differential execution of echo contracts on canonical "
            "encodings and a structured corruption stream (every word replaced by boundary values/offset targets, "
            "truncation at every word boundary, extension, dirty padding) through calldata arguments, abi_decode and "
            "external-call return data (exact accept/reject and echoed value) and constructor arguments.  "
            "Extension (calldata / code sources): implementation-level models cdec Legacy / cdec Venom of decoding from "
            "call data and from the data section of init code (wrapping pointer arithmetic, non-wrapping EVM copies, "
            "bulk copies, per-implementation copy start) are proved equal to the follow decoder for every pointer and "
            "every region < 2^64 bytes (cd_impl_refines_model), hence strict (cd_sound_lv, code_sound_lv), complete on "
            "canonical encodings (cd_complete_lv, code_complete_lv) and identical across the two generators; the code "
            "both generators emit for such sources is matched syntactically against Coq template generators over the "
            "shape family (TieDecC, vm_compute; legacy also under -O codesize), the REAL entry glue of both generators "
            "(argument registration, keyword-argument entry points with their minimum call data size, venom's "
            "constructor CODESIZE check) run on front-end function types is matched against Coq glue generators "
            "(TieGlueC), and the observed templates are executed in Coq on canonical and corrupted regions against the "
            "model on every run; multi-word static keyword arguments and interface-typed values (top level and nested) "
            "are exercised on the EVM and in the glue tie / needs_clamp tie.",
    "level_note": "Theorems are about the model (Dec.v/Abi.v): one acceptance model for both decoders, tied by sampled "
                  "differential execution (exact accept/reject and value for calldata, abi_decode and returndata; "
                  "one-directional for constructor arguments), not by a proof about the code generators.  For memory "
                  "payloads the model includes the `hi` bound discipline and dec_reads_inside shows accepted payloads "
                  "never depend on bytes beyond them.  needs_clamp is a hand model compared with both real copies on "
                  "every generated type.  Calldata/code extension: the template generators (TplDecC.v) are tied "
                  "syntactically (114 shapes x 2 generators, both sources, two argument positions) and by execution in a "
                  "Coq evaluator with EVM calldataload/calldatacopy/codecopy semantics, not by a semantic proof "
                  "generator = cdec; the entry glue is executed by the exporter on real function types (the second venom "
                  "kwarg path and the emission of the calldatasize check are pinned by AST hash); cdec abstracts reading "
                  "the copied bytes back from memory.  Trusted: Coq kernel + vm_compute, pyrevm.",
    "technique": "Coq proof over hand-written decoder model + differential correspondence with corruption stream; "
                 "O-tie of decoder templates (memory, calldata and code sources) + templates executed in Coq",
}


DECODER_PINS = [
    ("vyper.codegen.core", "make_setter", "8cb38294fec3a6ff"),
    ("vyper.codegen.core", "clamp_bytestring", "837e88565c157bbf"),
    ("vyper.codegen.core", "clamp_dyn_array", "ff9d115b32a448e4"),
    ("vyper.codegen.core", "_getelemptr_abi_helper", "d2b99bed40bed025"),
    ("vyper.codegen.core", "_abi_payload_size", "0a9b106d7b4bfc3a"),
    ("vyper.codegen.core", "_dirty_read_risk", "cfeeb37f54c7e674"),
    ("vyper.codegen_venom.abi.abi_decoder", "clamp_bytestring", "a4618c2e63a4f02b"),
    ("vyper.codegen_venom.abi.abi_decoder", "clamp_dyn_array", "a01259d5a0b4def8"),
    ("vyper.codegen_venom.abi.abi_decoder", "_getelemptr_abi", "1d2c4c7b872eed31"),
    ("vyper.codegen_venom.abi.abi_decoder", "_decode_primitive", "6783def33dc04511"),
    ("vyper.codegen_venom.abi.abi_decoder", "_decode_bytestring", "d2a4450c75754615"),
    ("vyper.codegen_venom.abi.abi_decoder", "_decode_dyn_array", "c26f1a926e72b714"),
    ("vyper.codegen_venom.abi.abi_decoder", "_decode_complex", "623666e8ff9c37da"),
    ("vyper.builtins.functions", "ABIDecode.build_IR", "fa925b722d2d9b25"),
    ("vyper.codegen.external_call", "_unpack_returndata", "6274bc433758bd4f"),
]


# entry-point glue NOT executed by the O-tie exporters (c05_cdtpl.py / c05_cdglue.py run the real make_setter,
# abi_decode_to_buf, _register_function_args, _generate_kwarg_handlers, _register_positional_args, _handle_kwargs,
# _register_constructor_args, _generate_external_entry_points): the second venom kwarg path and the emission of the
# calldatasize check from min_calldatasize are pinned by AST hash
CD_PINS = [
    ("vyper.codegen_venom.module", "_init_kwargs_in_entry_point", "262fee5d4c2fc1a0"),
    ("vyper.codegen_venom.module", "_emit_entry_checks", "234d7858b9434945"),
]


def prebuild(ctx):
    """setup_cmd: generate + compile the extension's files once so that quick runs reuse the .vo (content-keyed)"""
    from vlib import c05_cdpart
    c05_cdpart.prebuild(ctx)


def directed_types():
    u8 = ("uint", 8)
    return [
        ("int", 8), ("uint", 256), ("int", 256), ("bool",), ("address",), ("bytesM", 4), ("bytesM", 32), ("decimal",),
        ("flag", 3), ("flag", 256), ("bytes", 5), ("string", 33), ("darr", u8, 3), ("darr", ("bytes", 3), 2),
        ("sarr", ("int", 128), 2), ("tuple", (u8, ("bytes", 4), ("darr", ("int", 16), 2))),
        ("darr", ("darr", u8, 2), 2), ("sarr", ("darr", ("bool",), 2), 2),
        ("tuple", (("tuple", (("string", 2), ("address",))), ("bytesM", 3))),
        ("sarr", ("tuple", (("uint", 256), ("bytesM", 32), ("flag", 256))), 2),
        ("darr", ("tuple", (("bytes", 2), ("flag", 2))), 2),
    ]


def make_pairs(ctx, n_types, depth):
    r = ctx.rng("pairs")
    types, seen = [], set()
    directed = directed_types()
    r.shuffle(directed)
    # always present: dynamic arrays whose elements need no clamp (bulk-copy path: the count check is the only guard)
    must = [("darr", ("uint", 256), 2), ("darr", ("tuple", (("int", 256), ("bytesM", 32))), 2),
            # dynamic tuples reached through an offset (their static footprint check is the only guard for the head)
            ("darr", ("tuple", (("uint", 256), ("bytes", 3))), 2), ("tuple", (("tuple", (("uint", 256), ("bytes", 3))), ("uint", 8))),
            # nested dynamic element types (element head words are offsets: the no-wrap guards)
            ("darr", ("bytes", 32), 2), ("darr", ("darr", ("uint", 256), 2), 2),
            # static aggregates of full-width words (needs_clamp false: only the size check guards returndata)
            ("sarr", ("uint", 256), 3), ("tuple", (("uint", 256), ("sarr", ("uint", 256), 2))),
            ("sarr", ("sarr", ("bytesM", 32), 1), 3), ("uint", 256)]
    cands = must + directed[: max(8, n_types // 2)] + [A.gen_type(r, r.randint(1, depth), budget=900) for _ in range(4 * n_types)]
    for t in cands:
        if t not in seen and len(types) < n_types:
            seen.add(t)
            types.append(t)
    out = []
    for t in types:
        vals = []
        for m in ("max", "rand", "min"):
            v = A.gen_value(r, t, m)
            if v not in vals:
                vals.append(v)
        out.append((t, vals[:2] if len(vals) > 1 else vals))
    return out


IMPORTS = "From Verif Require Import C06.Abi C05.Dec C05.Harness.\n"


def part_needs_clamp(ctx, types):
    """Coq needs_clamp (hand model) vs BOTH real copies, on real VyperType objects built by the front end."""
    from vyper.codegen.core import needs_clamp as nc_legacy
    from vyper.codegen.ir_node import Encoding
    from vyper.codegen_venom.abi.abi_decoder import needs_clamp as nc_venom
    vtypes = A.front_end_types(types)
    outs = coqrun.eval_zlists(IMPORTS, ["[" + "; ".join(
        f"(if needs_clamp {A.coq_ty(t)} then 1 else 0); static_size {A.coq_ty(t)}; size_bound {A.coq_ty(t)}" for t in types) + "]"],
        "c05nc", shard=1)[0]
    n = 0
    for i, (t, vt) in enumerate(zip(types, vtypes)):
        m, ss, sb = outs[3 * i:3 * i + 3]
        real = (int(nc_legacy(vt, Encoding.ABI)), int(nc_venom(vt)))
        n += 2
        if real != (m, m):
            ctx.nc_mismatch.append({"type": A.eth_ty(t), "vyper_type": str(vt), "model": m, "legacy": real[0], "venom": real[1]})
        at = vt.abi_type
        n += 1
        if (at.static_size(), at.size_bound()) != (ss, sb):
            ctx.violation("correspondence-broken", "typ.abi_type sizes differ from the spec sizes (see C06)",
                          {"type": A.eth_ty(t), "real": [at.static_size(), at.size_bound()], "spec": [ss, sb]})
    return n


def digest(b):
    a = 7
    for x in b:
        a = (a * 257 + x + 1) % 2305843009213693951
    return f"{len(b):x}:{a:x}"


def cterm_is_extension(kind):
    return kind.endswith("+ext")


def classify(kind, canonical, exp, ok, out, base):
    """returns (verdict, text) ; verdict in ok | failing | corr"""
    if ok == "split":
        return "failing", "echo (calldata) and echo_mem (memory copy) disagree on the same input: " + out
    lenient = None
    if "|" in exp:
        exp, lenient = exp.split("|")
    if exp == "R" and ok and lenient not in (None, "R"):
        # memory payload accepted although the bounds model rejects; the zero-extended follow decoder has a value
        if (out != base) if lenient == "=" else (digest(out) != lenient[1:]):
            return "failing", "accepted, but the observed (echoed) value differs from the decoding of the bytes"
        if cterm_is_extension(kind):
            return "corr", "over-long payload accepted (model: size check rejects); value is the decoding of the bytes"
        return "failing", "accepted although an item's footprint lies outside the payload (read beyond hi)"
    if exp == "R":
        if ok:
            return "failing", "accepted an input that has no in-type decoding (model rejects)"
        return "ok", ""
    kind = kind.replace("+ext", "")
    if kind == "len":
        if ok and int.from_bytes(out, "big") != int(exp, 16):
            return "failing", "len(x) observed by the program differs from the length in the decoding of the bytes"
        if not ok and canonical:
            return "failing", "canonical encoding of an in-type value was rejected"
        if not ok:
            return "corr", "model accepts this non-canonical calldata but the contract reverts"
        return "ok", ""
    if ok:
        if (out != base) if exp == "=" else (digest(out) != exp[1:]):
            return "failing", "accepted, but the observed (echoed) value differs from the decoding of the bytes"
        return "ok", ""
    if canonical:
        return "failing", "canonical encoding of an in-type value was rejected"
    if kind in ("call", "mem", "ret", "memnt", "retd", "kw0", "kw1", "kw2", "ctorx", "retx", "retdx", "retnx", "rawdec"):
        return "corr", "model accepts this non-canonical input but the contract reverts"
    return "ok", ""   # constructor arguments: one-directional check only


def part_templates(ctx):
    """O-tie, semantic side: run the OBSERVED decoder templates of both pipelines inside Coq (SxEval / VxEval) on
    canonical and corrupted payloads in dirty memory and compare with the implementation-level models idec Legacy /
    idec Venom (accept/reject; on accept the vyper-layout value written at dst)."""
    from vlib import c06_tpl as TP
    fam = TP.shape_family()
    r = ctx.rng("tplvals")
    step = 3 if ctx.tier == "quick" else 1
    exprs, meta = [], []
    for i, t in enumerate(fam):
        if i % step:
            continue
        v = A.gen_value(r, t, r.choice(["max", "rand"]))
        base = A.py_enc(("tuple", (t,)), [v], 0)
        nw = len(base) // 32
        cs = ["CX []", f"CT {len(base) - 1}", f"CT {max(len(base) - 32, 0)}", "CX (repeat 255 32)"]
        for wi in sorted(set([0, nw - 1, r.randrange(nw)])):
            w = int.from_bytes(base[32 * wi:32 * wi + 32], "big")
            for x in (len(base), len(base) - 32, 2 ** 256 - 4096, (w + 1) % 2 ** 256, 2 ** 256 - 1):
                cs.append(f"CW {wi} {hex(x % 2 ** 256)}")
        ct = A.coq_ty(t)
        cl = "[" + "; ".join(cs) + "]"
        exprs.append(f"let t := {ct} in let base := enc (TTuple [t]) (VList [{A.coq_val(t, v)}]) in "
                     f"map (fun c => run_dec_tpl (snd (nth {i} obs_dec_l (TBool, SI 0))) t (apply_c c base)) {cl} ++ "
                     f"map (fun c => run_dec_tpl_v (snd (nth {i} obs_dec_v (TBool, SI 0))) t (apply_c c base)) {cl}")
        meta.append((t, v, cs))
    imp = ("From Verif Require Import C06.Abi C06.Sexp C05.Dec C05.Harness C05.TplRun C05.GenTplDecL C05.GenTplDecV.\n")
    outs = coqrun.eval_zlists(imp, exprs, "c05tplrun", shard=6, timeout=900)
    n = 0
    for (t, v, cs), o in zip(meta, outs):
        n += len(o)
        if any(x != 1 for x in o):
            bad = [(("legacy" if j < len(cs) else "venom"), cs[j % len(cs)], x) for j, x in enumerate(o) if x != 1]
            ctx.violation("correspondence-broken", "an OBSERVED decoder template, executed in Coq, disagrees with the "
                          "implementation-level model (DecImpl.v)",
                          {"shape": A.eth_ty(t), "coq_type": A.coq_ty(t), "value": repr(v), "disagreements": bad[:8]})
            break
    ctx.corr["template_family"] = len(fam)
    ctx.corr["template_executions_in_coq"] = n
    return n


def do_replay(ctx):
    """re-execute exactly the recorded input on the current /repo tree; the model outcome is the recorded one"""
    import json
    rec = json.loads(open(ctx.replay).read())
    d = rec["detail"]
    ctx.log("replay:", rec["kind"], "-", rec["name"])
    if not all(k in d for k in ("source", "config", "entry", "input_hex", "model", "canonical_base")):
        print(json.dumps(d, indent=1, default=str)[:3000])
        return
    cfg = [c for c in C.quick_configs() + C.thorough_configs() + C.core_configs() if c.name == d["config"]][0]
    base = bytes.fromhex(d["canonical_base"])
    # the constructor of the echo contract needs canonical arguments of its own type: reuse the recorded base when
    # it is the 1-tuple encoding, else deploy with the input itself
    res = H.run_job((d["source"], cfg, [bytes.fromhex(d.get("ctor_base", d["canonical_base"]))],
                     [[(d["entry"], bytes.fromhex(d["input_hex"]))]], [bytes.fromhex(x) for x in d.get("kwsel", [])],
                     None, [bytes.fromhex(d.get("xargs_hex", ""))]))
    if res["error"]:
        ctx.violation("correspondence-broken", "replay could not run: " + res["error"][:200], d)
        return
    ok, out = res["obs"][0][0]
    verdict, text = classify(d["entry"] + ("+ext" if str(d.get("corruption", "")).startswith("CX") else ""),
                             d.get("corruption") == "CX []", d["model"], ok, out, base)
    ctx.log("entry", d["entry"], "config", d["config"], "type", d.get("type"), "corruption", d.get("corruption"))
    ctx.log("model outcome:", d["model"][:80], "| observed now: ok =", ok, "out =", out.hex() if isinstance(out, bytes) else out)
    ctx.corr["evaluations"] = 1
    ctx.corr["distinct_nontrivial"] = 1
    if verdict != "ok":
        ctx.violation("failing-input" if verdict == "failing" else "correspondence-broken", "replayed: " + text,
                      dict(d, observed_ok=ok, observed_out=out.hex() if isinstance(out, bytes) else out))
    else:
        ctx.log("replayed input now behaves as the model says")


def run(ctx):
    if ctx.replay:
        return do_replay(ctx)
    try:  # coqc child processes inherit the stack limit
        import resource
        soft, hard = resource.getrlimit(resource.RLIMIT_STACK)
        resource.setrlimit(resource.RLIMIT_STACK, (hard, hard))
    except Exception:  # noqa
        pass
    quick = ctx.tier == "quick"
    ctx.nc_mismatch = []
    # shared ABI development (coq/STATIC, owner C06): rebuilt only if stale; C05's own files on every run
    b = ctx.coq_build(["C06/Abi.v", "C06/AbiLemmas.v", "C06/Roundtrip.v"], force=False)
    if b["ok"]:
        b = ctx.coq_build(["C06/ZeroPad.v", "C06/Sexp.v", "C06/TplEncL.v", "C06/TplEncV.v", "C06/SxEval.v", "C06/Widen.v", "C06/VxEval.v"],
                          force=False)
    if b["ok"]:
        b = ctx.coq_build(["C05/Dec.v", "C05/DecProofs.v", "C05/ReadsInside.v", "C05/DecImpl.v", "C05/DecImplProofs.v",
                           "C05/PropsC05.v", "C05/Harness.v", "C05/TplDecL.v", "C05/TplDecV.v", "C05/TplRun.v"])
    # O-tie of the decoder templates: observed IR of both pipelines for the shape family
    tie = {"ok": False}
    tpl_err = None
    if b["ok"]:
        try:
            from vlib import c06_tpl as TP
            from vlib.common import COQ
            TP.write_gen(COQ, "dec")
            g = ctx.coq_build(["C05/GenTplDecL.v", "C05/GenTplDecV.v"])
            if g["ok"]:
                tie = ctx.coq_build(["C05/TieDec.v"])
            else:
                tpl_err = "observed template tables do not compile: " + str(g.get("out"))[-300:]
        except Exception as e:  # noqa
            tpl_err = f"template export failed: {type(e).__name__}: {e}"[:400]
    harness_ok = b["ok"] or "Harness" not in str(b.get("file", "")) and "Dec.v" not in str(b.get("file", ""))
    import time
    ctx.log(f"coq build + decoder template tie done ({time.time() - ctx.t0:.1f}s since start)")
    pairs = make_pairs(ctx, 20 if quick else 90, 3 if quick else 4)
    types = [t for t, _ in pairs]
    total = part_needs_clamp(ctx, types + [t for t in directed_types() if t not in types])
    r = ctx.rng("corrupt")
    # ---- phase 1: base encodings
    flat = [(t, v) for t, vals in pairs for v in vals]
    bases = A.coq_hex_batch([f"enc (TTuple [{A.coq_ty(t)}]) (VList [{A.coq_val(t, v)}])" for t, v in flat], "c05base")
    # ---- phase 2: expectations for the corruption stream
    sel_of = {}
    exprs, corr, agree_exprs, nt_exprs, kw_exprs, kw_corr, retd_exprs = [], [], [], [], [], [], []
    retx_exprs, ret_corr, xvs = [], [], []

    def used(kind, j, fn=None):
        # (truncations/extensions come first in the corruption list: all of the first 24 go to every entry point;
        # directed near-2^256 offsets (fn.prio) go to every memory / returndata entry point)
        pr = getattr(fn, "prio", False)
        u = {"mem": j % 2 == 0 or j < 24 or pr, "ret": j % 5 == 0 or j < 24 or pr, "ctor": j % 7 == 0 or j < 3}
        return (u["mem"] or u["ret"] or u["ctor"]) if kind == "pay" else u[kind]

    for (t, v), base in zip(flat, bases):
        cs = [("CX []", lambda b: b)] + H.corruptions(r, base, quick, cap=58 if quick else 200)
        corr.append(cs)
        ct = f"(TTuple [{A.coq_ty(t)}])"
        pre = f"let t := {ct} in let base := enc t (VList [{A.coq_val(t, v)}]) in "

        def lst(kind=None):
            return "[" + "; ".join(c for j, (c, f_) in enumerate(cs) if kind is None or used(kind, j, f_)) + "]"
        has_len = t[0] in ("bytes", "string", "darr")
        # the REAL selectors: an offset word in [2^256-4, 2^256-1] wraps into the selector bytes
        zs = lambda name, tys: "[" + ";".join(str(x) for x in selector(sig(name, tys))) + "]"   # noqa
        exprs.append(pre + f"join (expect_call t {zs('echo', [t])} base {lst()})")
        exprs.append(pre + f"join (expect_payload t base {lst('pay')})")
        exprs.append(pre + (f"join (expect_len t {zs('ln', [t])} base {lst()})" if has_len else 'EmptyString'))
        exprs.append(pre + f"join (expect_mem t base {lst('mem')})")
        exprs.append(pre + f"join (expect_ret t base {lst('ret')})")
        # keyword-argument entry points kw(x), kw(x,b), kw(x,b,c): prefix tuples, defaults 5 and 0x0102
        kwc = [c for c in cs if c[0].startswith(("CT", "CX"))] + [c for c in cs if not c[0].startswith(("CT", "CX"))][:10]
        kw_corr.append(kwc)
        kcl = "[" + "; ".join(c for c, _ in kwc) + "]"
        cvv = A.coq_val(t, v)
        tfull = f"(TTuple [{A.coq_ty(t)}; TUInt 8; TBytes 4])"
        ksel = [zs("kw", [t]), zs("kw", [t, ("uint", 8)]), zs("kw", [t, ("uint", 8), ("bytes", 4)])]
        for kk, (tp, vp, dfl) in enumerate([
                (f"(TTuple [{A.coq_ty(t)}])", f"[{cvv}]", "[VInt 5; VBytes [1;2]]"),
                (f"(TTuple [{A.coq_ty(t)}; TUInt 8])", f"[{cvv}; VInt 200]", "[VBytes [1;2]]"),
                (tfull, f"[{cvv}; VInt 200; VBytes [170;187;204]]", "[]")]):
            kw_exprs.append(f"let tp := {tp} in let base := enc tp (VList {vp}) in "
                            f"join (expect_kw tp {tfull} {dfl} {ksel[kk]} base (enc {tfull} (VList ({vp} ++ {dfl}))) {kcl})")
        # returndata classes with the caller's own argument (a valid-looking payload) left in the call buffer
        xv = A.gen_value(r, t, "max")
        xvs.append(xv)
        nwb0 = len(base) // 32
        rcs = [c for c in cs if c[0].startswith(("CT", "CX"))][:40]
        for wi in sorted(set([0, min(1, nwb0 - 1), nwb0 - 1])):
            for x in (len(base), max(len(base) - 32, 0), 2 ** 256 - 32, 32, 0, 64):
                rcs.append((f"CW {wi} {hex(x)}", lambda b, wi=wi, x=x: b[:32 * wi] + x.to_bytes(32, "big") + b[32 * wi + 32:]))
        rcs += [c for c in cs if getattr(c[1], "prio", False) and c[0] not in {x[0] for x in rcs}]
        ret_corr.append(rcs)
        rcl = "[" + "; ".join(c for c, _ in rcs) + "]"
        retx_exprs.append(pre + f"join (expect_ret t base {rcl})")
        retx_exprs.append(pre + f"join (expect_retd t (VList [{A.coq_val(t, xv)}]) base {rcl})")
        retx_exprs.append(pre + f"join (expect_mem t base {rcl})")
        lit = H.scalar_literal(t, None)
        if lit is not None:
            retd_exprs.append(pre + f"join (expect_retd t (VList [{A.coq_val(t, lit[1])}]) base {lst('ret')})")
        else:
            retd_exprs.append(None)
        if t[0] in A.SCALARS:
            # bare-word abi_decode(unwrap_tuple=False): the type is NOT wrapped; same corrupted payloads
            nt_exprs.append(f"let t := {A.coq_ty(t)} in let base := enc t {A.coq_val(t, v)} in "
                            f"join (expect_mem t base {lst('mem')})")
        else:
            nt_exprs.append(None)
        agree_exprs.append(pre + f"[impl_agree t base {lst('mem')}]")
    import time
    t0 = time.time()
    outs = A.coq_strings(exprs, "c05exp", imports=IMPORTS, shard=10, timeout=1200)
    ctx.log(f"coq expectations: {len(exprs)} expressions in {time.time() - t0:.1f}s")
    kw_outs = A.coq_strings(kw_exprs, "c05kw", imports=IMPORTS, shard=12, timeout=1200)
    rx_outs = A.coq_strings(retx_exprs, "c05rx", imports=IMPORTS, shard=12, timeout=1200)
    rd_idx = [i for i, e in enumerate(retd_exprs) if e is not None]
    rd_outs = dict(zip(rd_idx, A.coq_strings([retd_exprs[i] for i in rd_idx], "c05rd", imports=IMPORTS, shard=10))) if rd_idx else {}
    nt_idx = [i for i, e in enumerate(nt_exprs) if e is not None]
    nt_outs = dict(zip(nt_idx, A.coq_strings([nt_exprs[i] for i in nt_idx], "c05nt", imports=IMPORTS, shard=10))) if nt_idx else {}
    # implementation-level decoder models (DecImpl.v) on the same corrupted payloads
    t0 = time.time()
    sub = agree_exprs if not quick else agree_exprs[::2]
    flags = coqrun.eval_zlists(IMPORTS, sub, "c05impl", shard=4, timeout=1200)
    ctx.corr["impl_model_agreement_sets"] = len(flags)
    if any(f != [1] for f in flags):
        ctx.violation("correspondence-broken", "executable ldec/vdec (DecImpl.v) disagree with accept_mem on a corruption "
                      "(theorem impl_refines_model hypotheses violated or model bug)", {"flags": str(flags)[:400]})
    ctx.log(f"impl models: {len(sub)} corruption sets in {time.time() - t0:.1f}s")
    # ---- jobs
    cfgs = C.configs(ctx.tier)
    if not quick:
        cfgs = C.quick_configs() + ctx.rng("cfgs").sample(cfgs, 20)
    per = 3 if quick else 5
    jobs, jm = [], []
    ctorx_terms = {}
    k = 0
    for ti, (t, vals) in enumerate(pairs):
        k0 = k
        src, nbytes = H.build_source(t)
        inputs, metas, bl = [], [], []
        for v in vals:
            base = bases[k]
            cs = corr[k]
            e_call = outs[5 * k].split(",")
            e_pay = iter(outs[5 * k + 1].split(","))
            has_len = t[0] in ("bytes", "string", "darr")
            e_len = outs[5 * k + 2].split(",") if has_len else []
            e_mem = iter(outs[5 * k + 3].split(","))
            e_ret = iter(outs[5 * k + 4].split(","))
            e_nt = iter(nt_outs[k].split(",")) if k in nt_outs else None
            e_rd = iter(rd_outs[k].split(",")) if k in rd_outs else None
            assert len(e_call) == len(cs), (len(e_call), len(cs))
            ins, ms = [], []
            for j, (cterm, fn) in enumerate(cs):
                data = fn(base)
                ins.append(("call", data))
                ms.append(("call", cterm, e_call[j], data))
                if has_len:
                    ins.append(("len", data))
                    ms.append(("len", cterm, e_len[j], data))
                lenient = next(e_pay) if used("pay", j, fn) else None
                if used("mem", j, fn):
                    ins.append(("mem", data))
                    ms.append(("mem", cterm, next(e_mem) + "|" + lenient, data))
                    if e_nt is not None:
                        ins.append(("memnt", data))
                        ms.append(("memnt", cterm, next(e_nt), data))
                if used("ret", j, fn):
                    ins.append(("ret", data))
                    ms.append(("ret", cterm, next(e_ret) + "|" + lenient, data))
                    if e_rd is not None:
                        ins.append(("retd", data))
                        ms.append(("retd", cterm, next(e_rd), data))
                # constructor arguments live at an unmodelled base inside the init code: a word >= 2^255 used as an
                # offset wraps into init-code bytes there (into zeros in the base-0 model), so such inputs are skipped
                if used("ctor", j, fn) and not any(data[i] >= 0x80 for i in range(0, len(data), 32)):
                    ins.append(("ctor", data))
                    ms.append(("ctor", cterm, lenient, data))
            # returndata with stale valid-looking call buffer: plain, default_return_value, skip_contract_check, raw_call
            e_rx = rx_outs[3 * k].split(",")
            e_rdx = rx_outs[3 * k + 1].split(",")
            e_raw = rx_outs[3 * k + 2].split(",")
            assert len(e_rx) == len(ret_corr[k]) == len(e_rdx) == len(e_raw)
            xfull = A.py_enc(("tuple", (t,)), [xvs[k]], 0)
            for j2, (cterm, fn) in enumerate(ret_corr[k]):
                data = fn(base)
                ins.append(("retx", data)); ms.append(("retx", cterm, e_rx[j2], data))
                ins.append(("retdx", data)); ms.append(("retdx", cterm, e_rdx[j2], data))
                if j2 % 2 == 0:
                    ins.append(("retnx", data)); ms.append(("retnx", cterm, e_rx[j2], data))
                    ins.append(("rawdec", data)); ms.append(("rawdec", cterm, e_raw[j2], data))
            # constructor arguments, EXACT (expectation computed afterwards from the real init code of each build)
            nwb = len(base) // 32
            cx = [c for c in cs if c[0].startswith(("CT", "CX"))][:14]
            for wi in sorted(set([0, nwb - 1, nwb // 2])):
                w0 = int.from_bytes(base[32 * wi:32 * wi + 32], "big")
                for x in (2 ** 256 - 32, 2 ** 256 - 1, 2 ** 256 - 64, len(base), (w0 + 1) % 2 ** 256, w0 | (0xFF << 248)):
                    cx.append((f"CW {wi} {hex(x)}", lambda b, wi=wi, x=x: b[:32 * wi] + x.to_bytes(32, "big") + b[32 * wi + 32:]))
            for (cterm, fn) in cx:
                ins.append(("ctorx", fn(base)))
                ms.append(("ctorx", cterm, None, fn(base)))
            ctorx_terms.setdefault(k, [c for c, _ in cx])
            # keyword-argument entry points
            for kk, (tpl, vals_k) in enumerate([(("tuple", (t,)), [v]), (("tuple", (t, ("uint", 8))), [v, 200]),
                                                (("tuple", (t, ("uint", 8), ("bytes", 4))), [v, 200, bytes([170, 187, 204])])]):
                kbase = A.py_enc(tpl, vals_k, 0)
                exps = kw_outs[3 * k + kk].split(",")
                assert len(exps) == len(kw_corr[k]), (len(exps), len(kw_corr[k]))
                dfl_full = [v, 200 if kk >= 1 else 5, bytes([170, 187, 204]) if kk == 2 else bytes([1, 2])]
                kfull = A.py_enc(("tuple", (t, ("uint", 8), ("bytes", 4))), dfl_full, 0)
                for (cterm, fn), e in zip(kw_corr[k], exps):
                    data = fn(kbase)
                    ins.append((f"kw{kk}", data))
                    ms.append((f"kw{kk}", cterm, e, data, kfull))
            inputs.append(ins)
            metas.append(ms)
            bl.append(base)
            k += 1
        chosen = [cfgs[(ti * per + j) % len(cfgs)] for j in range(per)]
        kwsel = [selector(sig("kw", [t])), selector(sig("kw", [t, ("uint", 8)])), selector(sig("kw", [t, ("uint", 8), ("bytes", 4)]))]
        for cfg in chosen:
            jobs.append((src, cfg, bl, inputs, kwsel, t,
                         [A.py_enc(("tuple", (("address",), t)), [0, xvs[k0 + i]], 0)[32:] for i in range(len(vals))]))
            jm.append((t, vals, src, cfg, metas, bl, kwsel, k0))
    t0 = time.time()
    with ProcessPoolExecutor(max_workers=4) as ex:
        results = list(ex.map(H.run_job, jobs, chunksize=2))
    ctx.log(f"echo executions: {len(jobs)} jobs in {time.time() - t0:.1f}s")
    n = 0
    stats = {"call": 0, "len": 0, "mem": 0, "memnt": 0, "ret": 0, "ctor": 0, "accepted": 0, "rejected": 0, "accepted_noncanonical": 0,
             "model_accepts_contract_rejects_payload": 0}
    nfail = 0
    ctorx_pending = []
    for ji, ((t, vals, src, cfg, metas, bl, kwsel, k0), res) in enumerate(zip(jm, results)):
        if res.get("skipped"):
            ctx.corr["skipped_too_large"] = ctx.corr.get("skipped_too_large", 0) + 1
            continue
        if res["error"]:
            ctx.violation("correspondence-broken", f"echo harness could not run: {res['error'][:160]}",
                          {"type": A.eth_ty(t), "config": cfg.name, "error": res["error"], "source": src})
            continue
        for vi, (ms, obs) in enumerate(zip(metas, res["obs"])):
            for mrec, (ok, out) in zip(ms, obs):
                kind, cterm, exp, data = mrec[:4]
                if kind == "ctorx":
                    # exact constructor check: first config of every type (all configs in thorough)
                    if ctx.tier != "quick" or ji % per == 0:
                        ctorx_pending.append((ji, vi, k0 + vi, cterm, data, ok, out))
                    continue
                base_for = mrec[4] if len(mrec) > 4 else bl[vi]
                n += 1
                stats[kind] = stats.get(kind, 0) + 1
                canonical = cterm == "CX []"
                if ok is True:
                    stats["accepted"] += 1
                    if not canonical and exp.split("|")[0] == "=":
                        stats["accepted_noncanonical"] += 1
                elif ok is False:
                    stats["rejected"] += 1
                    if not exp.startswith("R") and kind == "ctor":
                        stats["model_accepts_contract_rejects_payload"] += 1
                        ctx.corr.setdefault("ctor_reject_samples", [])
                        if len(ctx.corr["ctor_reject_samples"]) < 12:
                            ctx.corr["ctor_reject_samples"].append([A.eth_ty(t), cterm, cfg.name])
                verdict, text = classify(kind + ("+ext" if cterm.startswith("CX") else ""), canonical, exp, ok, out, base_for)
                if verdict == "ok":
                    continue
                nfail += 1
                if nfail > 6:
                    continue
                how = {"call": "call echo(x) with calldata = selector ++ input", "len": "call ln(x) with calldata = selector ++ input", "mem": "call dec(b) with b = input (abi_decode)", "memnt": "call dec_nt(b) with b = input (abi_decode, unwrap_tuple=False)",
                       "retd": "viaret_d(a): callee returns input; default_return_value used when returndata is empty",
                       "retx": "viaret_x(a, x): callee returns input; the argument x (canonical, != value) stays in the call buffer",
                       "retdx": "viaret_dx(a, x): as retx with default_return_value=x",
                       "retnx": "viaret_nx(a, x): extcall with skip_contract_check=True",
                       "rawdec": "rawdec(a): raw_call(a, max_outsize) then abi_decode of the returned bytes",
                       "kw0": "call kw(x) entry point with selector ++ input", "kw1": "call kw(x,b) entry point with selector ++ input",
                       "kw2": "call kw(x,b,c) entry point with selector ++ input",
                       "ctor": "deploy initcode ++ input, then call get()", "ret": "viaret(a): callee a returns input as returndata"}[kind]
                detail = {"source": src, "config": cfg.name, "entry": kind, "how": how, "type": A.eth_ty(t),
                          "value": repr(vals[vi]), "corruption": cterm, "input_hex": data.hex(),
                          "model": exp[:300], "observed_ok": ok, "observed_out": out.hex() if isinstance(out, bytes) else out,
                          "canonical_base": base_for.hex(), "ctor_base": bl[vi].hex(), "kwsel": [x.hex() for x in kwsel],
                          "xargs_hex": jobs[ji][6][vi].hex()}
                ctx.violation("failing-input" if verdict == "failing" else "correspondence-broken", f"{kind}: {text}", detail)
    # ---- constructor arguments, exact: expectation from the REAL init code of each build
    groups = {}
    for rec in ctorx_pending:
        groups.setdefault((rec[0], rec[1]), []).append(rec)
    cexprs, ckeys = [], []
    for (ji, vi), recs in groups.items():
        t, vals = jm[ji][0], jm[ji][1]
        code = results[ji].get("initcode")
        if code is None:
            continue
        cl = "[" + "; ".join(r_[3] for r_ in recs) + "]"
        cexprs.append(f"let t := (TTuple [{A.coq_ty(t)}]) in let base := enc t (VList [{A.coq_val(t, vals[vi])}]) in "
                      f"join (expect_ctor t {A.coq_bytes(code)} base {cl})")
        ckeys.append((ji, vi))
    if cexprs:
        couts = A.coq_strings(cexprs, "c05ctor", imports=IMPORTS, shard=4, timeout=1200)
        for (ji, vi), o in zip(ckeys, couts):
            t, vals, src, cfg, metas, bl, kwsel, k0 = jm[ji]
            for rec, exp in zip(groups[(ji, vi)], o.split(",")):
                _, _, _, cterm, data, ok, out = rec
                n += 1
                stats["ctorx"] = stats.get("ctorx", 0) + 1
                verdict, text = classify("ctorx", cterm == "CX []", exp, ok, out, bl[vi])
                if verdict == "ok":
                    continue
                nfail += 1
                if nfail > 6:
                    continue
                detail = {"source": src, "config": cfg.name, "entry": "ctorx",
                          "how": "deploy initcode ++ input, then call get(); model: accept_ctor on the real init code",
                          "type": A.eth_ty(t), "value": repr(vals[vi]), "corruption": cterm, "input_hex": data.hex(),
                          "model": exp[:300], "observed_ok": ok, "observed_out": out.hex() if isinstance(out, bytes) else out,
                          "canonical_base": bl[vi].hex(), "ctor_base": bl[vi].hex(), "kwsel": []}
                ctx.violation("failing-input" if verdict == "failing" else "correspondence-broken", f"ctorx: {text}", detail)
    found = any(v["kind"] == "failing-input" for v in ctx.violations)
    if b["ok"] and tpl_err is None:
        try:
            t0 = time.time()
            total += part_templates(ctx)
            ctx.log(f"templates run in Coq: {time.time() - t0:.1f}s")
        except Exception as e:  # noqa
            ctx.violation("correspondence-broken", "running the observed decoder templates in Coq failed",
                          {"error": f"{type(e).__name__}: {e}"[:600]})
    if tpl_err is not None:
        ctx.violation("translator-rejected", "decoder template export: " + tpl_err, {"error": tpl_err})
    elif b["ok"] and not tie["ok"]:
        from vlib import c06_tpl as TP
        try:
            fl, fv = TP.differing_shapes("dec")
            fam = TP.shape_family()
            dl = [A.eth_ty(t) for t, ok in zip(fam, fl) if not ok]
            dv = [A.eth_ty(t) for t, ok in zip(fam, fv) if not ok]
        except Exception as e:  # noqa
            dl, dv = [f"(could not localise: {e})"], []
        ctx.violation("correspondence-broken", f"{tie.get('failed_lemma')}: emitted decoder IR differs from the template model "
                      f"(TplDec*.v) for {len(dl)} legacy / {len(dv)} venom shapes",
                      {"theorem": tie.get("failed_lemma"), "legacy_shapes": dl[:12], "venom_shapes": dv[:12],
                       "replay": "tools/vlib/c06_tpl.py export_legacy_dec / export_venom_dec on the listed shapes",
                       "search": "observed templates executed in Coq + corruption stream on the EVM ran" +
                                 ("; failing inputs reported" if found else "; no failing input")})
    # ---- extension: calldata-source / code-source decoder templates of both generators (O-tie + run in Coq + cdec theorems)
    try:
        from vlib import c05_cdpart
        total += c05_cdpart.run(ctx)
    except Exception as e:  # noqa  (fail closed: an unexpected error in the part is reported, never swallowed)
        ctx.violation("correspondence-broken", "calldata/code-source decoder part could not run",
                      {"error": f"{type(e).__name__}: {e}"[:600]})
    from vlib import c06_pins
    for name, got, exp in c06_pins.check(DECODER_PINS + CD_PINS):
        ctx.violation("correspondence-broken", f"decoder source no longer matches the implementation-level model "
                      f"(DecImpl.v / CdImpl.v): {name}", {"function": name, "observed": got, "pinned": exp,
                                               "search": "corruption stream ran" + (" and found failing inputs" if found else ", no failing input")})
    if ctx.nc_mismatch:
        ctx.violation("correspondence-broken", "needs_clamp model differs from a real copy (theorem needs_clamp_complete "
                      "no longer speaks about the code)", {"mismatches": ctx.nc_mismatch[:10],
                                                           "search": "echo corruption stream ran" + (" and found failing inputs" if found else ", no failing input")})
    if not b["ok"]:
        ctx.violation("theorem-broken", f"{b.get('failed_lemma')} in {b['file']}",
                      {"theorem": b.get("failed_lemma"), "file": b["file"], "coq_output": (b["out"] or "")[-1500:]})
    total += n
    ctx.corr.update(stats)
    ctx.corr["evaluations"] = total
    ctx.corr["distinct_nontrivial"] = n
    ctx.corr["types"] = len(pairs)
    ctx.corr["type_samples"] = [A.eth_ty(t) for t in types[:8]]
    ctx.corr["rule"] = ("one evaluation = one (type,value,corruption,entry point,config) execution compared with the Coq "
                        "model outcome (or one needs_clamp/size comparison); distinct_nontrivial = executions")
    ctx.samples.append({"type": A.eth_ty(types[0]), "corruptions": [c for c, _ in corr[0][:6]]})
    ctx.trusted += ["Coq 8.16.1 kernel + vm_compute", "pyrevm (EVM)", "hand model of needs_clamp (compared with both copies each run)"]
    ctx.assumptions += ["echoed values are observed through the encoder (C06): a decoder defect masked by an equal and "
                        "opposite encoder defect would be missed",
                        "constructor arguments: exact oracle accept_ctor with base = |initcode| (entry ctorx, initcode length observed); "
                        "the extra lenient ctor stream is one-directional (accept => model accepts)",
                        "returndata entry points: the callee is a hand-assembled returner that returns exactly the corrupted bytes"]
