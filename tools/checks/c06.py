"""C06: everything emitted in ABI form is the canonical encoding.
Coq: coq/C06/Abi.v (spec enc/dec/sizes), AbiLemmas.v + Roundtrip.v (proofs), GenAbiSizes.v (regenerated from
/repo/vyper/abi_types.py), SizesTie.v, ZeroPad.v, PropsC06.v.
Tie: five exits on the real compiler + pyrevm with dirty memory, bytes compared with Coq's enc (vm_compute)."""
import json
from concurrent.futures import ProcessPoolExecutor

from vlib import c06_abi as A
from vlib import c06_exits as X
from vlib import c06_gensizes as G
from vlib import configs as C
from vlib.common import COQ, REPO

LEVEL = "proof"
META = {
    "category": "proof",
    "text": "Coq: the canonical ABI encoder (written from the ABI specification, validated against the independent "
            "eth_abi library each run) round-trips through the strict decoder for every well-typed value of every "
            "type tree, its length is bounded by size_bound and equals static_size for static types, where the size "
            "functions are regenerated from vyper/abi_types.py on every run; zero padding is correct for all prior "
            "memory.  Structural models of both code generators' encoders write exactly enc for all prior memory "
            "(Venc.v: abstract source value; SrcEnc.v: source READ word by word from storage or calldata, all slack "
            "contents of the source arbitrary), and the word copy loops (legacy copy_bytes loop, Venom "
            "load_storage_to_memory) are proved to be one write of the source words.  The IR both generators emit is "
            "tied syntactically (vm_compute) to Coq template generators over a finite shape family for memory/cancun "
            "AND for storage, calldata and pre-cancun (identity precompile / word copies) sources, and every observed "
            "template is executed in Coq on dirty memory / dirty storage slack against enc and against the structural "
            "model.  The compiler is additionally tied by differential execution: generated (type,value) "
            "pairs are pushed through the real compiler under the I.7 configurations and pyrevm via return data, "
            "event data/topics, abi_encode, outgoing-call calldata, custom-error and reason-string revert payloads, "
            "each after a memory-dirtying prelude, and compared byte for byte with enc computed in Coq.",
    "level_note": "Proofs are about the specification encoder/decoder, the translated size functions and the structural "
                  "encoder models; template generator = structural model is NOT proved (syntactic tie over the finite "
                  "family + the observed templates executed in Coq against the model + sampled differential execution). "
                  "Identity-precompile semantics (copies min(argsLen, retLen) bytes, succeeds) is assumed in XEval.v. "
                  "Trusted: Coq kernel + vm_compute, the abi_types mini-translator (validated per run against the "
                  "real ABIType objects), the template exporters c06_tpl.py / c06_tplx.py, pyrevm, eth_abi (only as a "
                  "cross-check of the spec).",
    "technique": "Coq proof over hand-written spec + regenerated size functions + syntactic/executed template ties + differential correspondence",
}

KNOWN_EXTCALL_KEY = "extcall-calldata-length-is-size-bound"


def report(ctx, kind, name, detail, dkey, key=None, per_key=1, cap=8):
    """ctx.violation with de-duplication: at most per_key reports per dkey and cap reports in total
    (the first instances carry the replay; counts go to the evidence)."""
    seen = ctx.__dict__.setdefault("_dedupe", {})
    seen[dkey] = seen.get(dkey, 0) + 1
    ctx.corr.setdefault("suppressed_duplicate_reports", 0)
    if seen[dkey] > per_key or (len(ctx.violations) >= cap and key is None):
        ctx.corr["suppressed_duplicate_reports"] += 1
        return
    ctx.violation(kind, name, detail, key=key)


def cfg_by_name(name):
    for c in C.quick_configs() + C.thorough_configs() + C.core_configs():
        if c.name == name:
            return c
    raise KeyError(name)


# ------------------------------------------------------------------ generation of the (type, value) set
def directed_types():
    u8, u256, i128 = ("uint", 8), ("uint", 256), ("int", 128)
    return [
        ("bytes", 33), ("string", 65), ("darr", ("bytes", 33), 2), ("darr", ("darr", u8, 2), 2),
        ("tuple", (u8, ("bytes", 32), ("darr", ("string", 1), 3))),
        ("sarr", ("darr", i128, 2), 2), ("darr", ("tuple", (("string", 31), ("int", 8))), 2),
        ("tuple", (("tuple", (("bytes", 1),)),)), ("darr", ("darr", ("darr", ("bytes", 5), 2), 2), 2),
        ("int", 8), ("decimal",), ("bytesM", 3), ("flag", 3), ("bool",), ("address",), u256,
        ("sarr", ("tuple", (("int", 16), ("bytesM", 32))), 2),
    ]


def make_pairs(ctx, n_types, depth):
    r = ctx.rng("pairs")
    types = []
    seen = set()
    directed = directed_types()
    r.shuffle(directed)
    for t in directed[: max(6, n_types // 3)] + [A.gen_type(r, r.randint(1, depth)) for _ in range(4 * n_types)]:
        if t not in seen and len(types) < n_types:
            seen.add(t)
            types.append(t)
    out = []
    for t in types:
        vals = []
        for m in ("min", "max", "rand", "rand", "rand"):
            v = A.gen_value(r, t, m)
            if v not in vals:
                vals.append(v)
        out.append((t, vals))
    return out


# ------------------------------------------------------------------ part: spec vs eth_abi, sizes vs real ABIType
def part_spec_validation(ctx, pairs):
    """(1) Coq enc vs eth_abi.encode (validation of the SPEC);  (2) Coq sizes / translated sizes vs the real
    ABIType objects;  (3) len(enc) <= real size_bound (property oracle for abi_types.py)."""
    import eth_abi
    exprs, meta = [], []
    have_gen = (COQ / "C06" / "GenAbiSizes.vo").exists()
    imports = A.IMPORTS + "From Verif Require Import C06.ZeroPad C06.Venc.\n" + \
        ("From Verif Require Import C06.GenAbiSizes.\n" if have_gen else "")
    for t, vals in pairs:
        ct = A.coq_ty(t)
        g = (f"; g_size_bound t; g_static_size t; (if g_is_dynamic t then 1 else 0); g_embedded_static_size t; "
             f"g_embedded_dynamic_size_bound t") if have_gen else ""
        exprs.append(f"let t := {ct} in [size_bound t; static_size t; (if is_dynamic t then 1 else 0); emb_static t; "
                     f"emb_dynamic_bound t{g}]")
        meta.append(("sizes", t, None))
        for v in vals:
            exprs.append(f"let t := {ct} in let v := {A.coq_val(t, v)} in "
                         f"[(if in_type t v then 1 else 0); (match dec t (enc t v) with Some v' => 1 | None => 0 end); "
                         f"zlen (enc t v); "
                         f"(if list_eqb (run_enc (venc_l (fun _ => repeat 238 70) t v) 255 4096) (enc t v) then 1 else 0); "
                         f"(if list_eqb (run_enc (venc_v t v) 171 4096) (enc t v) then 1 else 0)]")
            meta.append(("val", t, v))
    from vlib import coqrun
    outs = coqrun.eval_zlists(imports, exprs, "c06sizes", shard=40)
    encs = A.coq_hex_batch([f"enc {A.coq_ty(t)} {A.coq_val(t, v)}" for k, t, v in meta if k == "val"], "c06enc")
    n = 0
    ei = 0
    # the compiler's own ABIType objects, obtained through the front end (ties the vyper-type -> ABI-type map too)
    tlist = [t for t, _ in pairs]
    real_of = {t: vt.abi_type for t, vt in zip(tlist, A.front_end_types(tlist))}
    for (kind, t, v), o in zip(meta, outs):
        rt = real_of[t]
        if kind == "sizes":
            real = [rt.size_bound(), rt.static_size(), int(rt.is_dynamic()), rt.embedded_static_size(),
                    rt.embedded_dynamic_size_bound()]
            n += 1
            if o[:5] != real:
                ctx.pending.append(("sizes-spec", t, o[:5], real))
            if have_gen and o[5:] != real:
                report(ctx, "correspondence-broken", "abi_types mini-translator output disagrees with real ABIType",
                       {"type": A.eth_ty(t), "translated": o[5:], "real": real}, "translator")
            continue
        e = encs[ei]
        ei += 1
        n += 1
        if o[3:5] != [1, 1]:
            report(ctx, "correspondence-broken", "executable encoder model (Venc.v) does not produce enc on dirty memory",
                   {"type": A.eth_ty(t), "value": repr(v), "legacy_model_ok": o[3], "venom_model_ok": o[4]}, "venc-exec")
        if o[0] != 1 or o[1] != 1 or o[2] != len(e):
            report(ctx, "correspondence-broken", "generator produced ill-typed value or model roundtrip failed",
                   {"type": A.eth_ty(t), "value": repr(v), "flags": o}, "illtyped")
        ref = eth_abi.encode([A.eth_ty(t)], [A.eth_val(t, v)])
        # eth_abi.encode([T],[v]) is enc((T,)) ; compare with spec on the 1-tuple
        ctx.spec_cmp.append((t, v, ref))
        if len(e) > rt.size_bound():
            report(ctx, "failing-input", "abi_types.size_bound() smaller than a canonical encoding",
                   {"call": f"vyper.abi_types: {rt!r}.size_bound()", "size_bound": rt.size_bound(),
                    "value": repr(v), "canonical_encoding_len": len(e), "type": A.eth_ty(t)}, "size_bound", per_key=2)
            ctx.size_bound_failing = True
        if not rt.is_dynamic() and len(e) != rt.static_size():
            report(ctx, "failing-input", "abi_types.static_size() differs from the canonical encoding length of a static type",
                   {"call": f"vyper.abi_types: {rt!r}.static_size()", "static_size": rt.static_size(),
                    "canonical_encoding_len": len(e), "type": A.eth_ty(t)}, "static_size", per_key=2)
            ctx.size_bound_failing = True
    return n


def part_eth_abi(ctx, wrapped):
    """wrapped: list of (t, v, coq enc((t,)) bytes)"""
    import eth_abi
    n = 0
    for t, v, e in wrapped:
        ref = eth_abi.encode([A.eth_ty(t)], [A.eth_val(t, v)])
        n += 1
        if ref != e:
            ctx.violation("correspondence-broken", "Coq spec enc disagrees with eth_abi (spec validation)",
                          {"type": A.eth_ty(t), "value": repr(v), "coq": e.hex(), "eth_abi": ref.hex()})
            break
    ctx.corr["spec_vs_eth_abi_cases"] = n
    return n


# ------------------------------------------------------------------ part: exits
def diff_pos(a, b):
    if a is None:
        return "call did not produce the expected kind of result (revert / no log)"
    for i, (x, y) in enumerate(zip(a, b)):
        if x != y:
            return f"first difference at byte {i} (word {i // 32}); lengths observed={len(a)} expected={len(b)}"
    return f"common prefix equal; lengths observed={len(a)} expected={len(b)}"


def part_exits(ctx, pairs, cfgs, per_type_cfgs):
    r = ctx.rng("exits")
    exprs, metas = [], []
    b5 = bytes([1, 0xFF, 3])
    for t, vals in pairs:
        src, info = X.build_source(t)
        for v in vals:
            exprs.append(X.coq_pack_expr(t, v, b5, 0x1234, info))
        metas.append((t, vals, src, info))
    outs = A.coq_strings(exprs, "c06exits", imports=A.IMPORTS + X.PACK_DEF, shard=40)
    jobs, jobmeta, wrapped = [], [], []
    k = 0
    for ti, (t, vals, src, info) in enumerate(metas):
        cases = []
        for v in vals:
            parts = X.unpack(outs[k])
            assert len(parts) == 8, (len(parts), outs[k][:200])
            k += 1
            case = {"enc": parts}
            # python encoder: pad=0 must reproduce the Coq encodings; pad=0xAA gives the dirty-input variants
            tA, tC = ("tuple", (t,)), ("tuple", (t, X.B5))
            tD, tD2 = ("tuple", (X.ADDR, t)), ("tuple", (X.ADDR, t, X.B5))
            if A.py_enc(tA, [v], 0) != parts[0] or A.py_enc(tC, [v, b5], 0) != parts[2]:
                report(ctx, "correspondence-broken", "python helper encoder disagrees with the Coq spec", {"type": A.eth_ty(t)}, "pyenc")
            else:
                dA = A.py_enc(tA, [v], 0xAA)
                if dA != parts[0]:
                    case["dirty"] = (dA, A.py_enc(tC, [v, b5], 0xAA), A.py_enc(tD, [0x1234, v], 0xAA),
                                     A.py_enc(tD2, [0x1234, v, b5], 0xAA))
            cases.append(case)
            wrapped.append((t, v, parts[0]))
        chosen = cfgs if per_type_cfgs >= len(cfgs) else [cfgs[(ti * per_type_cfgs + j) % len(cfgs)] for j in range(per_type_cfgs)]
        for cfg in chosen:
            jobs.append((src, cfg, t, cases, None))
            jobmeta.append((t, vals, src, cfg))
    n = 0
    dist = {}
    with ProcessPoolExecutor(max_workers=4) as ex:
        results = list(ex.map(X.run_type_config, jobs, chunksize=2))
    known_reported = 0
    for (t, vals, src, cfg), res in zip(jobmeta, results):
        n += res["n"]
        dist[cfg.name] = dist.get(cfg.name, 0) + res["n"]
        if res.get("skipped"):
            ctx.corr["skipped_too_large"] = ctx.corr.get("skipped_too_large", 0) + 1
            continue
        if res["error"]:
            report(ctx, "correspondence-broken", f"exit harness could not run: {res['error'][:200]}",
                   {"type": A.eth_ty(t), "config": cfg.name, "error": res["error"], "source": src}, "exit-harness-error")
            continue
        for m in res["mismatch"]:
            v = vals[m["case"]]
            obs = bytes.fromhex(m["observed"]) if m["observed"] is not None else None
            exp = bytes.fromhex(m["expected"])
            detail = {"source": src, "config": cfg.name, "exit": m["exit"], "type": A.eth_ty(t), "value": repr(v),
                      "expected_canonical": m["expected"], "observed": m["observed"], "where": diff_pos(obs, exp),
                      "calldata": m["calldata"],
                      "how": "deploy source under config; deploy echo callee (runtime 366000600037366000a000) for ext*; "
                             "call the function named by `exit` with the canonical encoding of value; compare bytes"}
            args_t = ("tuple", (t,)) if m["exit"].split("+")[0] == "extcall_calldata" else ("tuple", (t, X.B5))
            if m["exit"].startswith("extcall") and obs is not None and obs[:len(exp)] == exp and len(obs) > len(exp) \
                    and len(obs) == 4 + A.size_bound(args_t):
                # outgoing calldata = selector ++ canonical ++ trailing bytes up to size_bound (dirty memory)
                known_reported += 1
                if known_reported == 1:
                    detail["trailing_bytes"] = obs[len(exp):].hex()
                    ctx.violation("failing-input", "outgoing call calldata is longer than the canonical encoding "
                                  "(length = 4 + size_bound; trailing bytes are prior memory contents)", detail,
                                  key=KNOWN_EXTCALL_KEY)
                continue
            report(ctx, "failing-input", f"{m['exit']}: emitted bytes differ from canonical ABI encoding", detail,
                   "exit:" + m["exit"])
    ctx.corr["exit_config_distribution"] = dist
    ctx.corr["extcall_trailing_bytes_instances"] = known_reported
    return n, wrapped


def part_literals(ctx, pairs, cfgs, per_type_cfgs):
    """values built from list/tuple/struct literals (`multi` IR nodes): return, abi_encode, event"""
    exprs, metas = [], []
    for t, vals in pairs:
        src, info = X.build_source_lit(t)
        for v in vals[:3]:
            exprs.append(X.coq_pack_expr_lit(t, v, info))
        metas.append((t, vals[:3], src, info))
    outs = A.coq_strings(exprs, "c06lit", imports=A.IMPORTS + X.PACK_DEF, shard=30)
    jobs, jm = [], []
    k = 0
    for ti, (t, vals, src, info) in enumerate(metas):
        cases = []
        for v in vals:
            parts = X.unpack(outs[k])
            assert len(parts) == 7, (len(parts), outs[k][:200])
            k += 1
            case = {"enc": parts}
            dA = A.py_enc(("tuple", (t,)), [v], 0xAA)
            if A.py_enc(("tuple", (t,)), [v], 0) == parts[0] and dA != parts[0]:
                case["dirty"] = dA
            cases.append(case)
        for j in range(per_type_cfgs):
            cfg = cfgs[(ti * per_type_cfgs + j + 5) % len(cfgs)]
            jobs.append((src, cfg, t, cases))
            jm.append((t, vals, src, cfg))
    with ProcessPoolExecutor(max_workers=4) as ex:
        results = list(ex.map(X.run_lit_config, jobs, chunksize=2))
    n = 0
    for (t, vals, src, cfg), res in zip(jm, results):
        n += res["n"]
        if res.get("skipped"):
            ctx.corr["skipped_too_large"] = ctx.corr.get("skipped_too_large", 0) + 1
            continue
        if res["error"]:
            report(ctx, "correspondence-broken", f"literal-source harness could not run: {res['error'][:200]}",
                   {"type": A.eth_ty(t), "config": cfg.name, "error": res["error"], "source": src}, "lit-harness-error")
            continue
        for m in res["mismatch"]:
            obs = bytes.fromhex(m["observed"]) if m["observed"] is not None else None
            exp = bytes.fromhex(m["expected"])
            report(ctx, "failing-input", f"{m['exit']}: emitted bytes differ from canonical ABI encoding",
                   {"source": src, "config": cfg.name, "exit": m["exit"], "type": A.eth_ty(t), "value": repr(vals[m["case"]]),
                    "expected_canonical": m["expected"], "observed": m["observed"], "where": diff_pos(obs, exp),
                    "calldata": m["calldata"]}, "exit:" + m["exit"])
    ctx.corr["literal_source_comparisons"] = n
    return n


KEY_STORAGE_WIDEN = "venom-storage-widening-declared-type"
KEY_TUPLE_WIDEN = "venom-tuple-return-widening"
KEY_IFEXP = "ifexp-narrow-branches-wider-context"


def part_widening(ctx, cfgs):
    """a value of a NARROWER compatible type returned / assigned as a WIDER type (different memory stride of the
    elements) must still be emitted canonically: state variable, internal-call result, internal tuple result, memory"""
    # fixed scenarios + generated (narrow, wider) pairs
    r = ctx.rng("widen")
    scen = list(X.WIDEN)
    tries = 0
    while len(scen) < len(X.WIDEN) + (6 if ctx.tier == "quick" else 30) and tries < 400:
        tries += 1
        t = A.gen_type(r, r.randint(1, 3), budget=900)
        if A.has_struct(t) or not A.is_dynamic(t):
            continue
        w = A.widen(r, t)
        if w == t:
            continue
        d = A.Decls()
        nv, wv = d.vy(t), d.vy(w)
        scen.append((t, nv, wv, A.gen_value(r, t, r.choice(["rand", "max"])), d.text()))
    exprs = []
    for t, _, _, v, *_d in scen:
        exprs.append(f"pack [enc (TTuple [{A.coq_ty(t)}]) (VList [{A.coq_val(t, v)}]); "
                     f"enc (TTuple [{A.coq_ty(t)}; TUInt 256]) (VList [{A.coq_val(t, v)}; VInt 5])]")
    outs = A.coq_strings(exprs, "c06widen", imports=A.IMPORTS + X.PACK_DEF, shard=10)
    items = []
    for idx, ((t, narrow, wide, v, *dcl), o) in enumerate(zip(scen, outs)):
        e1, e2 = X.unpack(o)
        kinds = ("storage", "internal", "internal_tuple", "memory") + (("ternary",) if t[0] in ("darr", "bytes", "string") else ())
        for kind in kinds:
            items.append((idx, kind, (dcl[0] if dcl else "") + X.widen_source(kind, narrow, wide), e1,
                          e2 if kind == "internal_tuple" else e1))
    jobs = [(cfg, items) for cfg in cfgs]
    with ProcessPoolExecutor(max_workers=4) as ex:
        results = list(ex.map(X.run_widen_config, jobs))
    n = 0
    for (cfg, _), res in zip(jobs, results):
        n += res["n"]
        if res.get("skipped"):
            ctx.corr["widening_skipped_capacity"] = ctx.corr.get("widening_skipped_capacity", 0) + len(res["skipped"])
        if res["error"]:
            report(ctx, "correspondence-broken", f"widening harness could not run: {res['error'][:200]}",
                   {"config": cfg.name, "error": res["error"]}, "widen-harness-error")
        for m in res["mismatch"]:
            t, narrow, wide, v = scen[m["idx"]][:4]
            key = None
            if cfg.venom and m["kind"] == "storage":
                key = KEY_STORAGE_WIDEN
            elif cfg.venom and m["kind"] == "internal_tuple" and m["fn"] == "f":
                key = KEY_TUPLE_WIDEN
            elif m["kind"] == "ternary":
                key = KEY_IFEXP      # both pipelines: venom emits wrong bytes, legacy reverts on the valid input
            obs = bytes.fromhex(m["observed"]) if m["observed"] is not None else None
            exp = bytes.fromhex(m["expected"])
            detail = {"source": m["source"], "config": cfg.name, "exit": "ret_cd", "function": m["fn"], "scenario": m["kind"],
                      "narrow": narrow, "wide": wide, "value": repr(v), "calldata": m["calldata"],
                      "expected_canonical": m["expected"], "observed": m["observed"], "where": diff_pos(obs, exp)}
            name = (f"{m['kind']} value of type {narrow} emitted as {wide}: return data differs from the canonical "
                    f"encoding of the value")
            if key is not None:
                report(ctx, "failing-input", name, detail, "widen:" + key, key=key)
            else:
                report(ctx, "failing-input", name, detail, "widen:" + m["kind"])
    ctx.corr["widening_comparisons"] = n
    return n


def part_reasons(ctx, cfgs):
    r = ctx.rng("reasons")
    bounds = [1, 31, 32, 33, 65] if ctx.tier == "quick" else [1, 5, 31, 32, 33, 64, 65, 100]
    exprs, meta = [], []
    for nb in bounds:
        lens = sorted({x for x in (0, 1, 31, 32, 33, nb, nb - 1) if 0 <= x <= nb})
        for ln in lens:
            s = bytes(r.randrange(0x21, 0x7F) for _ in range(ln))
            exprs.append(f"pack [enc (TTuple [TString {nb}]) (VList [VBytes {A.coq_bytes(s)}]); "
                         f"enc (TTuple [TBool; TString {nb}]) (VList [VInt 0; VBytes {A.coq_bytes(s)}])]")
            meta.append((nb, s))
    outs = A.coq_strings(exprs, "c06reason", imports=A.IMPORTS + X.PACK_DEF, shard=40)
    by = {}
    for (nb, s), o in zip(meta, outs):
        a, b = X.unpack(o)
        dS = A.py_enc(("tuple", (("string", nb),)), [s], 0xAA)
        by.setdefault(nb, []).append((a, b, s, dS))
    jobs, jm = [], []
    for nb, cases in by.items():
        src = X.reason_source(nb)
        for cfg in cfgs:
            jobs.append((src, cfg, nb, [(a, b, d) for a, b, _, d in cases]))
            jm.append((nb, cases, src, cfg))
    with ProcessPoolExecutor(max_workers=4) as ex:
        results = list(ex.map(X.run_reason_config, jobs, chunksize=4))
    n = 0
    for (nb, cases, src, cfg), res in zip(jm, results):
        n += res["n"]
        if res["error"]:
            report(ctx, "correspondence-broken", f"reason harness could not run: {res['error'][:200]}",
                   {"config": cfg.name, "error": res["error"], "source": src}, "reason-harness-error")
            continue
        for m in res["mismatch"]:
            report(ctx, "failing-input", f"{m['exit']}: revert payload differs from Error(string) canonical encoding",
                   {"source": src, "config": cfg.name, "exit": m["exit"], "reason": repr(cases[m["case"]][2]),
                    "expected_canonical": m["expected"], "observed": m["observed"], "calldata": m["calldata"]},
                   "reason:" + m["exit"])
    return n


# ------------------------------------------------------------------ part: zero_pad template (O-tie)
def part_zero_pad_template(ctx):
    """The Coq model of zero_pad (ZeroPad.v) is the s-expression below; check the real function still emits it."""
    from vyper.codegen.core import zero_pad
    from vyper.codegen.ir_node import IRnode
    got = " ".join(repr(zero_pad(IRnode.from_list("buf"))).split())
    # strip annotations /* ... */
    import re
    got = " ".join(re.sub(r"/\*.*?\*/", "", got).split())
    exp = "[with, len, [mload, buf], [with, dst, [add, [add, buf, 32], len], [calldatacopy, dst, calldatasize, [mod, [sub, 0, len], 32]]]]"
    norm = lambda s: re.sub(r"[\s,\[\]\(\)]+", " ", s).strip()  # noqa
    ctx.extra["zero_pad_template"] = got
    ok = norm(got) == norm(exp)
    # venom: _pre_zero_pad must still be "mstore(dst + ((length + 31) & ~31), 0)" (modelled by zero_pad_spec_venom +
    # venom_last_word_offset); compared at source level, fail closed
    import ast
    import inspect
    import textwrap

    from vyper.codegen_venom.abi import abi_encoder as VE
    fn = ast.parse(textwrap.dedent(inspect.getsource(VE._pre_zero_pad))).body[0]
    body = [st for st in fn.body if not (isinstance(st, ast.Expr) and isinstance(st.value, ast.Constant))]
    want = ast.parse(textwrap.dedent("""
        b = ctx.builder
        inv_31 = ~31 & (2**256 - 1)
        last_word_offset = b.and_(b.add(length, IRLiteral(31)), IRLiteral(inv_31))
        last_word_ptr = b.add(dst, last_word_offset)
        b.mstore(last_word_ptr, 0)
    """)).body
    vgot = "\n".join(ast.unparse(x) for x in body)
    if [ast.dump(x) for x in body] != [ast.dump(x) for x in want]:
        ok = False
        got = got + " || venom _pre_zero_pad: " + vgot
    ctx.extra["pre_zero_pad_source"] = vgot
    return ok, got


ENCODER_PINS = [
    ("vyper.codegen.abi_encoder", "abi_encode", "75fa4c7260d726db"),
    ("vyper.codegen.abi_encoder", "_encode_child_helper", "8aba6dcbc9452408"),
    ("vyper.codegen.abi_encoder", "_encode_dyn_array_helper", "083a986fb8adf333"),
    ("vyper.codegen.abi_encoder", "abi_encoding_matches_vyper", "b71b246bcaad67f0"),
    ("vyper.codegen_venom.abi.abi_encoder", "_abi_encode_to_buf", "353f24bc3cd3345c"),
    ("vyper.codegen_venom.abi.abi_encoder", "_encode_child", "a4a4c2c5ad199400"),
    ("vyper.codegen_venom.abi.abi_encoder", "_encode_dyn_array", "5708f80fb9d4d9c0"),
    ("vyper.codegen_venom.abi.abi_encoder", "_pre_zero_pad", "6ee90b34d479ed81"),
    ("vyper.codegen.core", "zero_pad", "8d9c9c47fb082f79"),
    ("vyper.codegen.core", "mzero", "bba676506b7c9cb2"),
]


def part_encoder_structure(ctx):
    """Tie of the structural models in coq/C06/Venc.v: (1) the functions they transcribe are pinned by AST hash;
    (2) the real legacy child-encoding template for a dynamic child is observed and must show the modelled order:
    offset word first, copy of up to 32+maxlen source bytes (the `junk` of wbytes_legacy), zero pad, ceil32 length."""
    import re

    from vlib import c06_pins
    bad = c06_pins.check(ENCODER_PINS)
    from vyper.codegen.abi_encoder import _encode_child_helper
    from vyper.codegen.ir_node import IRnode
    from vyper.compiler.settings import Settings, anchor_settings
    from vyper.evm.address_space import MEMORY
    from vyper.semantics.types import BytesT
    with anchor_settings(Settings(evm_version="cancun")):
        child = IRnode.from_list("child", typ=BytesT(5), location=MEMORY)
        r = _encode_child_helper("buf", child, 32, "dyn_ofst", None)
    got = " ".join(re.sub(r"/\*.*?\*/", "", " ".join(repr(x) for x in r)).replace("'", "").split())
    exp = ("seq [mstore, [add, buf, 32], dyn_ofst] [set, dyn_ofst, [add, dyn_ofst, [with, dst, [add, buf, dyn_ofst], "
           "[seq, [mcopy, dst, child, 37], [with, len, [mload, dst], [with, dst, [add, [add, dst, 32], len], "
           "[calldatacopy, dst, calldatasize, [mod, [sub, 0, len], 32]]]], [ceil32, [add, 32, [mload, dst]]]]]]]")
    norm = lambda x: re.sub(r"[\s,\[\]]+", " ", x).strip()  # noqa
    ctx.extra["legacy_child_template"] = got
    if norm(got) != norm(exp):
        bad.append(("legacy _encode_child_helper template (Bytes[5] child)", got, exp))
    return bad


def part_templates(ctx, tie_ok):
    """O-tie, semantic side: run the OBSERVED encoder templates of both pipelines inside Coq (SxEval / VxEval) on
    dirty memory holding the vyper layout of generated values; they must return |enc|, leave enc at dst and touch
    nothing outside [dst, dst+size_bound) -- the statement of venc_spec, now about the emitted IR."""
    from vlib import c06_tpl as TP
    from vlib import coqrun
    fam = TP.shape_family()
    r = ctx.rng("tplvals")
    step = 2 if ctx.tier == "quick" else 1
    exprs, meta = [], []
    for i, t in enumerate(fam):
        if i % step:
            continue
        vals = [A.gen_value(r, t, "max"), A.gen_value(r, t, "rand")]
        ct = A.coq_ty(t)
        cell = "; ".join(f"run_enc_tpl (snd (nth {i} obs_enc_l (TBool, SI 0))) {ct} {A.coq_val(t, v)}; "
                         f"run_enc_tpl_v (snd (nth {i} obs_enc_v (TBool, SI 0))) {ct} {A.coq_val(t, v)}" for v in vals)
        exprs.append("[" + cell + "]")
        meta.append((t, vals))
    imp = ("From Verif Require Import C06.Abi C06.Sexp C06.SxEval C06.VxEval C06.GenTplEncL C06.GenTplEncV.\n")
    outs = coqrun.eval_zlists(imp, exprs, "c06tplrun", shard=8, timeout=900)
    n = 0
    for (t, vals), o in zip(meta, outs):
        n += len(o)
        if any(x != 1 for x in o):
            report(ctx, "correspondence-broken", "an OBSERVED encoder template, executed in Coq, does not satisfy the encoder spec",
                   {"shape": A.eth_ty(t), "coq_type": A.coq_ty(t), "values": [repr(v) for v in vals],
                    "results [legacy v1, venom v1, legacy v2, venom v2] (1 ok, 0 wrong bytes/len/confinement, <0 evaluator)": o},
                   "tplrun")
    # layout normalisation templates (narrower -> wider pairs): observed IR vs the model Widen.store_memory
    pairs = TP.norm_pairs()
    exprs, meta = [], []
    for i, (ts, td) in enumerate(pairs):
        if i % step:
            continue
        vals = [A.gen_value(r, ts, "max"), A.gen_value(r, ts, "rand")]
        exprs.append("[" + "; ".join(f"run_norm_tpl (snd (nth {i} obs_norm (TBool, TBool, SI 0))) {A.coq_ty(ts)} {A.coq_ty(td)} "
                                     f"{A.coq_val(ts, v)}" for v in vals) + "]")
        meta.append((ts, td, vals))
    imp = "From Verif Require Import C06.Abi C06.Sexp C06.SxEval C06.VxEval C06.Widen C06.GenTplNorm.\n"
    outs = coqrun.eval_zlists(imp, exprs, "c06normrun", shard=8, timeout=900)
    for (ts, td, vals), o in zip(meta, outs):
        n += len(o)
        if any(x != 1 for x in o):
            report(ctx, "correspondence-broken", "an OBSERVED venom normalisation template, executed in Coq, does not yield "
                   "the declared layout / disagrees with the model Widen.store_memory",
                   {"narrow": A.eth_ty(ts), "wide": A.eth_ty(td), "coq_types": [A.coq_ty(ts), A.coq_ty(td)],
                    "values": [repr(v) for v in vals], "results": o}, "normrun")
    ctx.corr["template_family"] = len(fam)
    ctx.corr["normalisation_pair_family"] = len(pairs)
    ctx.corr["template_executions_in_coq"] = n
    return n


# ------------------------------------------------------------------ replay
def do_replay(ctx):
    """re-execute exactly the recorded case on the current /repo tree and report whether it still fails"""
    rec = json.loads(open(ctx.replay).read())
    d = rec["detail"]
    ctx.log("replay:", rec["kind"], "-", rec["name"])
    if not all(k in d for k in ("source", "config", "exit", "calldata", "expected_canonical")):
        ctx.log("this record has no executable case (kind=%s); detail:" % rec["kind"])
        print(json.dumps(d, indent=1, default=str)[:3000])
        return
    got = X.replay_one(d["source"], cfg_by_name(d["config"]), bytes.fromhex(d["calldata"]), d["exit"])
    exp = bytes.fromhex(d["expected_canonical"])
    ctx.log("config", d["config"], "exit", d["exit"], "type", d.get("type"), "value", d.get("value", d.get("reason")))
    ctx.log("expected canonical:", exp.hex())
    ctx.log("observed now      :", None if got is None else got.hex())
    ctx.corr["evaluations"] = 1
    ctx.corr["distinct_nontrivial"] = 1
    if got != exp:
        ctx.violation("failing-input", "replayed case still differs from the canonical encoding: " + rec["name"],
                      dict(d, observed=None if got is None else got.hex(), where=diff_pos(got, exp)), key=rec.get("key"))
    else:
        ctx.log("replayed case now matches the canonical encoding")


# ------------------------------------------------------------------ main
def prebuild(ctx):
    """setup: compile the session-3 static files and the observed tables once (content-keyed reuse afterwards)"""
    from vlib import c06_x as CX
    CX.generate()
    g = ctx.coq_build_cached(CX.STATIC_X, deps=CX.DEPS)
    if g["ok"]:
        g = ctx.coq_build_parallel(CX.GEN_X, deps=CX.DEPS[:7])
    if g["ok"]:
        ctx.coq_build_parallel(["C06/TieEncX.v"], deps=CX.DEPS + CX.STATIC_X + CX.GEN_X)


def run(ctx):
    if ctx.replay:
        return do_replay(ctx)
    try:  # coqc child processes inherit the stack limit (deep non-tail recursion on long byte lists)
        import resource
        soft, hard = resource.getrlimit(resource.RLIMIT_STACK)
        resource.setrlimit(resource.RLIMIT_STACK, (hard, hard))
    except Exception:  # noqa
        pass
    ctx.pending = []
    ctx.spec_cmp = []
    ctx.size_bound_failing = False
    quick = ctx.tier == "quick"
    # ---- 1. regenerate size functions from abi_types.py and compile the development
    gen_err = None
    try:
        (COQ / "C06" / "GenAbiSizes.v").write_text(G.generate(REPO / "vyper" / "abi_types.py", REPO / "vyper" / "utils.py"))
    except G.Unsupported as e:
        gen_err = str(e)
    static = ["C06/Abi.v", "C06/AbiLemmas.v", "C06/Roundtrip.v", "C06/ZeroPad.v", "C06/Venc.v", "C06/VencProofs.v",
              "C06/Sexp.v", "C06/TplEncL.v", "C06/TplEncV.v", "C06/SxEval.v", "C06/Widen.v", "C06/WidenProofs.v",
              "C06/VxEval.v", "C06/TplNorm.v"]
    b = {"ok": False, "file": "C06/GenAbiSizes.v", "failed_lemma": None, "out": gen_err}
    if gen_err is None:
        # static files are shared with C05/C12/C19 (coq/STATIC): rebuilt only when stale, so that a concurrently
        # running check never sees a half-written .vo; the Gen-dependent files are rebuilt on every run
        b = ctx.coq_build(static, force=False)
        if b["ok"]:
            b = ctx.coq_build(["C06/GenAbiSizes.v", "C06/SizesTie.v", "C06/PropsC06.v"])
    # O-tie of the encoder templates: observed IR of both pipelines for the shape family
    tie = {"ok": False}
    tpl_err = None
    try:
        from vlib import c06_tpl as TP
        TP.write_gen(COQ, "enc")
        (COQ / "C06" / "GenTplNorm.v").write_text(TP.HEADER + TP.coq_pair_table("obs_norm", TP.export_venom_norm(TP.norm_pairs())))
        g = ctx.coq_build(["C06/GenTplEncL.v", "C06/GenTplEncV.v", "C06/GenTplNorm.v"])
        if g["ok"]:
            tie = ctx.coq_build(["C06/TieEnc.v", "C06/TieNorm.v"])
        else:
            tpl_err = "observed template tables do not compile: " + str(g.get("out"))[-300:]
    except Exception as e:  # noqa
        tpl_err = f"template export failed: {type(e).__name__}: {e}"[:400]
    # ---- 1b. extension (session 3): storage / calldata / pre-cancun sources: observed tables, syntactic ties, theorems
    import time
    x_err, x_tie = None, {"ok": True, "skipped": True}
    if gen_err is None and b["ok"]:
        try:
            from vlib import c06_x as CX
            CX.generate()
            xg, x_tie = CX.build(ctx)
            ctx.log(f"non-cancun-memory source tables + ties + theorems built ({time.time() - ctx.t0:.1f}s since start)")
            if not xg["ok"]:
                x_err = "observed template tables (non-cancun-memory sources) do not compile: " + str(xg.get("out"))[-300:]
        except Exception as e:  # noqa
            x_err = f"template export (non-cancun-memory sources) failed: {type(e).__name__}: {e}"[:400]
    # ---- 2. generated pairs; spec validation; real ABIType correspondence
    import time
    t0 = time.time()
    ctx.log(f"coq build done ({time.time() - ctx.t0:.1f}s since start)")
    pairs = make_pairs(ctx, 22 if quick else 150, 3 if quick else 4)
    n_spec = part_spec_validation(ctx, pairs)
    ctx.log(f"spec/size validation: {time.time() - t0:.1f}s")
    t0 = time.time()
    # ---- 3. exits
    cfgs = C.configs(ctx.tier)
    if not quick:
        r = ctx.rng("cfgs")
        cfgs = C.quick_configs() + r.sample(cfgs, 30)
    n_exit, wrapped = part_exits(ctx, pairs, cfgs, 3 if quick else 6)
    ctx.log(f"exits: {time.time() - t0:.1f}s")
    t0 = time.time()
    n_eth = part_eth_abi(ctx, wrapped)
    n_reason = part_reasons(ctx, C.quick_configs() if quick else cfgs)
    ctx.log(f"eth_abi + reasons: {time.time() - t0:.1f}s")
    t0 = time.time()
    n_reason += part_literals(ctx, pairs, cfgs, 1 if quick else 3)
    ctx.log(f"literal/storage/raw exits: {time.time() - t0:.1f}s")
    t0 = time.time()
    qc = C.quick_configs()
    n_reason += part_widening(ctx, [qc[i] for i in (0, 1, 3, 4, 6, 9)] if quick else cfgs)
    ctx.log(f"widening: {time.time() - t0:.1f}s")
    t0 = time.time()
    zp_ok, zp = part_zero_pad_template(ctx)
    struct_bad = part_encoder_structure(ctx)
    n_tpl = 0
    if tpl_err is None:
        try:
            n_tpl = part_templates(ctx, tie["ok"])
            ctx.log(f"templates run in Coq: {time.time() - t0:.1f}s")
        except Exception as e:  # noqa  (an observed template that misbehaves badly can make the evaluator run away)
            report(ctx, "correspondence-broken", "running the observed templates in Coq failed",
                   {"error": f"{type(e).__name__}: {e}"[:600]}, "tplrun-error")
    n_tplx = 0
    if x_err is None and not x_tie.get("skipped"):
        t0 = time.time()
        try:
            from vlib import c06_x as CX
            n_tplx = CX.run_templates(ctx, report)
            ctx.log(f"non-cancun-memory source templates run in Coq: {time.time() - t0:.1f}s")
        except Exception as e:  # noqa
            report(ctx, "correspondence-broken", "running the observed storage/calldata/pre-cancun templates in Coq failed",
                   {"error": f"{type(e).__name__}: {e}"[:600]}, "tplxrun-error")
    found = any(v["kind"] == "failing-input" for v in ctx.violations) or ctx.known_hits
    # ---- verdicts for broken ties / proofs (after Search = the exits + size oracle above)
    if gen_err is not None:
        ctx.violation("translator-rejected", "abi_types.py no longer fits the size-function translator: " + gen_err,
                      {"error": gen_err})
    elif not b["ok"]:
        ctx.violation("theorem-broken", f"{b.get('failed_lemma')} in {b['file']}",
                      {"theorem": b.get("failed_lemma"), "file": b["file"], "coq_output": (b["out"] or "")[-1500:],
                       "search": "size oracle + five exits ran; see other violations if any"})
    for kind, t, got, real in ctx.pending:
        if not ctx.size_bound_failing:
            ctx.violation("correspondence-broken", "spec size functions disagree with real ABIType (no encoding exceeds the bound)",
                          {"type": A.eth_ty(t), "spec": got, "real": real})
            break
    if tpl_err is not None:
        ctx.violation("translator-rejected", "encoder template export: " + tpl_err, {"error": tpl_err})
    elif not tie["ok"]:
        from vlib import c06_tpl as TP
        try:
            if str(tie.get("failed_lemma", "")).startswith(("tie_norm", "norm_family")):
                fl, fv = TP.differing_shapes("norm")
                prs = TP.norm_pairs()
                dl = []
                dv = [A.coq_ty(a) + " -> " + A.coq_ty(b_) for (a, b_), ok in zip(prs, fl) if not ok]
            else:
                fl, fv = TP.differing_shapes("enc")
                fam = TP.shape_family()
                dl = [A.eth_ty(t) for t, ok in zip(fam, fl) if not ok]
                dv = [A.eth_ty(t) for t, ok in zip(fam, fv) if not ok]
        except Exception as e:  # noqa
            dl, dv = [f"(could not localise: {e})"], []
        ctx.violation("correspondence-broken", f"{tie.get('failed_lemma')}: emitted encoder IR differs from the template model "
                      f"(Tpl*.v) for {len(dl)} legacy / {len(dv)} venom shapes",
                      {"theorem": tie.get("failed_lemma"), "legacy_shapes": dl[:12], "venom_shapes": dv[:12],
                       "replay": "tools/vlib/c06_tpl.py export_legacy_enc / export_venom_enc on the listed shapes",
                       "search": "observed templates executed in Coq + five exits on the EVM ran" +
                                 ("; failing inputs reported" if found else "; no failing input")})
    if x_err is not None:
        ctx.violation("translator-rejected", "encoder template export (storage/calldata/pre-cancun): " + x_err, {"error": x_err})
    elif not x_tie["ok"]:
        fl = str(x_tie.get("failed_lemma") or "")
        if fl.startswith(("tie_enc_", "encx_")):
            from vlib import c06_x as CX
            table = "obs_" + fl[4:] if fl.startswith("tie_enc_") else None
            try:
                shapes = CX.differing(table) if table in CX.TABLE_OF else []
            except Exception as e:  # noqa
                shapes = [f"(could not localise: {e})"]
            ctx.violation("correspondence-broken", f"{fl}: emitted encoder IR for a source that is not cancun memory differs from "
                          f"the template model (TplEncX.v) for {len(shapes)} shapes",
                          {"theorem": fl, "table": table, "shapes": shapes[:16],
                           "replay": "tools/vlib/c06_tplx.py export_* on the listed shapes",
                           "search": "observed templates executed in Coq + EVM exits (storage sources, pre-cancun configs) ran" +
                                     ("; failing inputs reported" if found else "; no failing input")})
        else:
            ctx.violation("theorem-broken", f"{fl} in {x_tie.get('file')}",
                          {"theorem": fl, "file": x_tie.get("file"), "coq_output": (x_tie.get("out") or "")[-1500:],
                           "search": "EVM exits ran" + ("; failing inputs reported" if found else "; no failing input")})
    for name, got, exp in struct_bad:
        ctx.violation("correspondence-broken", f"encoder source no longer matches the structural model (Venc.v): {name}",
                      {"function": name, "observed": got, "pinned": exp,
                       "search": "five exits ran on this tree" + ("; failing inputs reported above" if found else "; no failing input")})
    if not zp_ok:
        ctx.violation("correspondence-broken", "core.zero_pad / venom _pre_zero_pad no longer match the templates modelled in ZeroPad.v",
                      {"observed": zp})
    total = n_spec + n_exit + n_eth + n_reason + n_tpl + n_tplx
    ctx.corr["evaluations"] = total
    ctx.corr["distinct_nontrivial"] = n_exit + n_reason
    ctx.corr["types"] = len(pairs)
    ctx.corr["type_samples"] = [A.eth_ty(t) for t, _ in pairs[:8]]
    ctx.corr["rule"] = ("one evaluation = one (type,value,config,exit) byte comparison against Coq enc, or one "
                        "spec-vs-eth_abi / size comparison; distinct_nontrivial counts compiler-exit comparisons")
    for t, vals in pairs[:3]:
        ctx.samples.append({"type": A.eth_ty(t), "value": repr(vals[-1])[:200]})
    ctx.trusted += ["Coq 8.16.1 kernel + vm_compute", "tools/vlib/c06_gensizes.py (abi_types.py -> Gallina; output compared "
                    "with the real ABIType objects on every generated type each run)", "pyrevm (EVM)",
                    "eth_abi (cross-check of the spec encoder only)",
                    "tools/vlib/c06_tpl.py / c06_tplx.py (serialise the IR emitted by the real generators as Coq terms)"]
    ctx.assumptions += ["values reach the contract through calldata (canonical encodings), i.e. the C05 decoder is "
                        "assumed correct on canonical input; source locations covered: calldata, memory local, storage",
                        "memory dirtiness is produced by an in-function scoped 0xff-filled array; effectiveness is "
                        "validated by the zero_pad mutants (see notes/C06.md)",
                        "pre-cancun copies: a staticcall to the identity precompile (address 4) succeeds and copies "
                        "min(argsLen, retLen) bytes (XEval.identity_call); confirmed on pyrevm by the pre-cancun configurations"]
