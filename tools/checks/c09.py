"""C09: the re-entrancy lock excludes re-entry and is always released."""
import json
from concurrent.futures import ProcessPoolExecutor

from vlib import c09_build, c09_contracts as cc, c09_corr as cr, c09_exits, c09_halt, c09_handover, c09_route, c09_tpl, configs, coqrun
from vlib.common import COQ

LEVEL = "proof"
META = {
    "category": "proof",
    "text": "Coq theorems over all call trees (any adversary, depth, chain of contracts, static or not) of a lock-protocol "
            "model: no_reentry, held_blocks_all, view_checks_only, lock_released, revert_rolls_back, lock_values_ok. The "
            "model's pre/post are tied to the real generators by template observation over the whole family "
            "(nonreentrant x mutability x 5 evm versions x 2 keys x both pipelines; kernel equality with Coq generators "
            "proved to compute enter/leave). Placement of the release on every exit path is checked per compiled function: "
            "the printed Venom runtime IR (after all passes) / linearised legacy IR is classified, turned into a CFG and "
            "checked by a Coq function proved sound (printed_function_exits_pass_unlock, accepted_exit_matches_leave: every "
            "accepted exit leaves the cell as Lock.leave does). Placement of the release relative to control hand-over points, "
            "on every way out including the halting selfdestruct that bypasses the exit sequence, is checked the same way by "
            "HaltCheck.hcheck_program (printed_function_no_handover_after_unlock: no call/staticcall/delegatecall/create/invoke "
            "of a function that calls out between an unlock store and the way out, no way out with the lock held) on a family "
            "of terminating statements whose operand expressions hand control over (selfdestruct / raw_revert / raise / "
            "assert-reason / return x extcall / staticcall / internal function that calls out, sends or creates), which is "
            "also executed on pyrevm with a re-entering attacker. The same checker (no way out with the lock held) and the EVM are "
            "run on the exit-shape family (and the routing of every legacy `return` statement to the function's exit sequence is "
            "modelled in ExitRoute.v, proved to run the release for every context, and tied by observing the real make_return_stmt): "
            " external and INTERNAL @nonreentrant functions x leave statement (bare return / value "
            "return / fall-through / raise / assert) x position (top, if, one and two nested for loops over ranges and arrays, "
            "after break / continue) x which iteration leaves, each followed by protected calls in the same and in later "
            "transactions and by a second activation of the same internal function. The model is validated against bytecode on pyrevm with a "
            "scripted attacker: 14 entry kinds (incl. default-argument selectors, raw_call callbacks, library-module "
            "externals and @nonreentrant internals, constructor call-outs) x exit path x depth x re-entered kind, both "
            "protection styles, all configurations.",
    "level_note": "Trusted: Coq kernel + vm_compute; the printers (template printer, IR printer; for legacy the linearisation of "
                  "the IR tree into blocks); pyrevm. Assumed: stores with a non-literal key do not alias the lock slot (C10); "
                  "code after the exported IR stage (venom->asm, legacy IR->asm, assembler) is covered only by the EVM "
                  "correspondence. Exit-path placement is established per compiled function (corpus-bounded), not for all programs.",
    "technique": "Coq proof over call-tree model + template observation (O-tie) + verified CFG checker on real IR + EVM correspondence",
}

COQ_FILES = ["C09/Lock.v", "C09/LockProofs.v", "C09/LockTpl.v", "C09/ExitCheck.v", "C09/RichCfg.v",
             "C09/HaltCheck.v", "C09/HaltProofs.v", "C09/PropsHalt.v",
             "C09/GenLock.v", "C09/TieLock.v", "C09/PropsLock.v", "C09/PropsExit.v",
             "C09/ExitRoute.v", "C09/ExitRouteProofs.v", "C09/GenRoute.v", "C09/TieRoute.v", "C09/PropsRoute.v"]
MAX_REPORTS = 3


def part_proofs(ctx):
    """regenerate GenLock.v from the real generators, compile everything.  Returns a pending failure or None."""
    try:
        text, fam, raw, real_keys = c09_tpl.observe()
    except Exception as e:  # template outside the exportable fragment / generator raised
        (COQ / "C09" / "GenLock.v").write_text(
            "From Coq Require Import ZArith List String.\nFrom Verif Require Import C09.Lock C09.LockTpl.\nImport ListNotations.\n"
            "Definition observed_legacy : list (fam * (list sx * list sx)) := [].\n"
            "Definition observed_venom : list (fam * (list vinst * list vinst)) := [].\n")
        ctx.coq_build(COQ_FILES[:5])
        return {"kind": "translator-rejected", "name": f"lock template export failed: {type(e).__name__}: {e}", "detail": {"error": str(e)}}
    (COQ / "C09" / "GenLock.v").write_text(text)
    route_error = gen_route(ctx)
    ctx.extra["family_size"] = fam
    ctx.extra["template_samples"] = [list(map(str, r)) for r in raw[:2]]
    if any(k != 0 for k in real_keys.values()):
        ctx.log(f"note: lock slot allocated at {real_keys}")
    # content-keyed reuse (README "Build reuse"): a file is recompiled unless its source, every file listed before it,
    # Base/* and the Coq version are byte-identical to what produced its .vo; GenLock.v is regenerated above on every run
    b = ctx.coq_build_cached(COQ_FILES)
    if b["ok"]:
        ctx.extra["syntactic_matches"] = fam
        return None
    if route_error is not None and b["file"].endswith("TieRoute.v"):
        return {"kind": "translator-rejected", "name": f"return-routing export failed: {route_error}", "detail": {"error": route_error}}
    return {"kind": "theorem-broken", "name": f"{b.get('failed_lemma')} in {b['file']}",
            "detail": {"theorem": b.get("failed_lemma"), "file": b["file"], "coq_output": b["out"][-1500:]}}


def gen_route(ctx):
    """regenerate GenRoute.v from the real make_return_stmt (O-tie of ExitRoute.v).  Returns an error text or None; on error
    an empty observation is written, so that TieRoute.v fails (fail closed)"""
    try:
        text, n, samples = c09_route.observe()
        err = None
        ctx.extra["return_routes_observed"] = n
        ctx.extra["return_route_samples"] = [list(map(str, x)) for x in samples]
    except Exception as e:  # the generator raised / emitted something outside the exportable shape
        text, err = c09_route.empty(), f"{type(e).__name__}: {e}"
    (COQ / "C09" / "GenRoute.v").write_text(text)
    return err


def prebuild(ctx):
    """setup_cmd: generate + compile once so that the first quick run reuses the proofs"""
    text, _fam, _raw, _keys = c09_tpl.observe()
    (COQ / "C09" / "GenLock.v").write_text(text)
    gen_route(ctx)
    ctx.coq_build_cached(COQ_FILES)


def build_all(ctx, cfgs):
    jobs = [(c, p) for c in cfgs for p in (False, True)]
    with ProcessPoolExecutor(max_workers=3) as ex:
        res = list(ex.map(c09_build.build_victim, jobs, chunksize=1))
    atts = {evm: c09_build.build_attacker(evm) for evm in sorted({c.evm for c in cfgs})}
    return jobs, res, atts


def part_exits(ctx, jobs, res):
    """run the proved checker (RichCfg.check_program: classification + CFG construction + ExitCheck.check, all in
    Coq) on the printed IR of every function.  Returns list of failures (cfg name, style, text)."""
    failures = []
    exprs, owners = [], []
    for (cfg, pragma), r in zip(jobs, res):
        if not r.get("ok"):
            continue
        if r.get("cfg_error"):
            failures.append((cfg.name, pragma, "export: " + r["cfg_error"]))
            continue
        # result: 6 statistics followed by one 0/1 per function
        exprs.append(f"let p := {r['rich_program']} in let L := {r['lock_cfg']} in "
                     f"stats_program L p ++ map (fun b : bool => if b then 1 else 0) (check_program L p {r['rich_labels']})")
        owners.append((cfg.name, pragma, r["cfg_names"], r["cfg_stats"]))
    outs = coqrun.eval_zlists("From Verif Require Import C09.Lock C09.LockTpl C09.ExitCheck C09.RichCfg.\n", exprs, "c09exit",
                              shard=2, timeout=600)
    nchecked = 0
    tot = {"functions": 0, "blocks": 0, "locks": 0, "unlocks": 0, "calllocks": 0, "exits": 0, "rets": 0, "unknown_key_stores": 0}
    for (name, pragma, fnames, pst), o in zip(owners, outs):
        if len(o) != 6 + len(fnames):
            failures.append((name, pragma, f"unexpected checker output of length {len(o)} for {len(fnames)} functions"))
            continue
        st = dict(zip(["blocks", "locks", "unlocks", "calllocks", "exits", "rets"], o[:6]))
        for k, v in st.items():
            tot[k] += v
        tot["functions"] += len(fnames)
        tot["unknown_key_stores"] += pst.get("unknown_key_stores", 0)
        # non-vacuity (counted by Coq): protected non-view functions: np, pay, viaint x 7 exits + __default__ = 22 lock
        # sites; optimising pipelines may merge identical tails, so the floor is below 22
        if st["locks"] < 15 or st["unlocks"] < 15 or st["exits"] + st["rets"] < 22:
            failures.append((name, pragma, f"too few lock sites classified: {st}"))
        for fn, v in zip(fnames, o[6:]):
            nchecked += 1
            if v != 1:
                failures.append((name, pragma, f"function {fn}: rejected by RichCfg.check_program (unclassifiable lock-slot store, "
                                               "or a path to return/stop/ret that does not pass the unlock store after the lock store)"))
    tot["functions_checked"] = nchecked
    ctx.corr["exit_check"] = tot
    ctx.extra["exit_checker"] = ("coq/C09/RichCfg.v check_program (classification + CFG construction in Coq; sound: check_fn_sound, "
                                 "accepted_exit_matches_leave) via vm_compute on the printed IR")
    return failures


def part_corr(ctx, jobs, res, atts, only=None):
    rnd = ctx.rng("scen")
    scen_sets = {p: cr.build_scenarios(rnd, p) for p in (False, True)}
    preds = {}
    ctor_sets = {p: cr.ctor_scenarios(p) for p in (False, True)}
    cpreds = {}
    # one batch for all model evaluations (sharded and run in parallel by coqrun)
    keys, exprs = [], []
    for p in (False, True):
        for tr in (False, True):
            P = "transient_params" if tr else "storage_params"
            probes = "; ".join(cc.coq_node(x, p) for x in cr.probe_nodes())
            for s in scen_sets[p]:
                keys.append(("s", p, tr))
                exprs.append(f"observe_seq {P} false [{cc.coq_node(s.top, p)}; {probes}] (init_state {P})")
            for s in ctor_sets[p]:
                keys.append(("c", p, tr))
                exprs.append(cr.ctor_model_expr(s, p, tr))
    outs = coqrun.eval_zlists("From Verif Require Import C09.Lock.\n", exprs, "c09m", shard=150)
    for (kind, p, tr), v in zip(keys, outs):
        (preds if kind == "s" else cpreds).setdefault((p, tr), []).append(cr.split_obs(v))
    import time as _t
    ctx.log(f'model predictions at {_t.time() - ctx.t0:.0f}s')
    n_eval = n_nontrivial = n_oracle = n_mismatch = 0
    dist = {}
    found_input = False
    mismatches = []
    for (cfg, pragma), r in zip(jobs, res):
        if not r.get("ok"):
            if n_mismatch < MAX_REPORTS:
                ctx.violation("correspondence-broken", f"victim contract does not compile under {cfg.name}: {r.get('error')}",
                              {"config": cfg.name, "pragma_style": pragma, "error": r.get("error"), "trace": r.get("trace"),
                               "source": cc.victim_source(pragma)})
            n_mismatch += 1
            continue
        w = cr.World(cfg, pragma, r, atts[cfg.evm])
        todo = [(s, m, False) for s, m in zip(scen_sets[pragma], preds[(pragma, w.transient)])] + \
               [(s, m, True) for s, m in zip(ctor_sets[pragma], cpreds[(pragma, w.transient)])]
        for s, m, is_ctor in todo:
            if only is not None and (only.get("config") != cfg.name or only.get("scenario") != s.desc or only.get("pragma_style") != pragma):
                continue
            real, calls = w.run_ctor(s) if is_ctor else w.run(s)
            n_eval += 1
            if any(mf for mf, _ in s.oracle.values()) or real[0][0] == 0:
                n_nontrivial += 1
            k = s.desc.split(" ")[0]
            dist[k] = dist.get(k, 0) + 1
            ov = cr.oracle_violations(s, real)
            detail = {"config": cfg.name, "pragma_style": pragma, "scenario": s.desc,
                      "model_tree": cc.coq_node(s.top, pragma), "calls_hex": calls,
                      "contracts": {"attacker": w.A, "V0": w.V[0], "V1": w.V[1]},
                      "expected(model) [ok,digest,cell0,cell1,cell2,journal...] x [main,probeV0,probeV1]": m,
                      "observed": real, "victim_source": cc.victim_source(pragma), "attacker_source": cc.ATTACKER,
                      "how": "deploy attacker, V0, V1 (ctor arg attacker); install script via vlib.c09_corr.World.install; send calls_hex in order"}
            if ov:
                n_oracle += 1
                found_input = True
                if n_oracle <= MAX_REPORTS:
                    detail["violations"] = ov
                    ctx.violation("failing-input", ov[0], detail, key=f"c09:{cfg.name}:{pragma}:{s.desc}")
            elif not cr.compare(m, real):
                n_mismatch += 1
                if len(mismatches) < MAX_REPORTS:
                    mismatches.append(detail)
        if len(ctx.samples) < 4:
            s = scen_sets[pragma][len(ctx.samples) * 97 % len(scen_sets[pragma])]
            ctx.samples.append({"config": cfg.name, "scenario": s.desc, "tree": cc.coq_node(s.top, pragma)[:300]})
    if not found_input:   # model/code disagreement on which the property's oracle still holds
        for d in mismatches:
            ctx.violation("correspondence-broken", "Lock.v prediction differs from EVM observation", d)
    ctx.corr["evaluations"] = n_eval
    ctx.corr["distinct_nontrivial"] = n_nontrivial
    ctx.corr["rule"] = ("one evaluation = one scenario (outer kind/exit x depth x inner kind, seeded inner exit/static/direct) under "
                        "one configuration and protection style, 3 transactions each; non-trivial = a protected entry is re-entered "
                        "under a held lock or the main call reverts")
    ctx.corr["distribution_by_outer"] = dist
    ctx.corr["oracle_violations"] = n_oracle
    ctx.corr["model_mismatches"] = n_mismatch
    return found_input, n_oracle, n_mismatch


def run(ctx):
    only = None
    if ctx.replay:
        rec = json.loads(open(ctx.replay).read())
        d = rec.get("detail", {})
        if "scenario" in d:
            only = {"config": d["config"], "scenario": d["scenario"], "pragma_style": d["pragma_style"]}
        elif "terminating_statement" in d:
            # record of the terminator family (c09_halt): re-run that family under the recorded configuration only
            allc = {c.name: c for c in configs.configs("thorough") + configs.configs("quick")}
            pending = part_proofs(ctx)
            found = c09_halt.part_halt(ctx, c09_halt.jobs_for([allc[d["config"]]] if d.get("config") in allc else configs.configs(ctx.tier),
                                                              pragma=bool(d.get("pragma_style"))))
            if pending is not None and not found:
                ctx.violation(pending["kind"], pending["name"], pending["detail"])
            return
        elif "exit_shape" in d:
            # record of the exit-shape family (c09_exits): re-run that family under the recorded configuration / style / seed
            allc = {c.name: c for c in configs.configs("thorough") + configs.configs("quick")}
            pending = part_proofs(ctx)
            cs = [allc[d["config"]]] if d.get("config") in allc else configs.configs(ctx.tier)
            found = c09_exits.part_exits(ctx, c09_exits.jobs_for(cs, int(d.get("seed", 0)), pragma=bool(d.get("pragma_style"))))
            if pending is not None and not found:
                ctx.violation(pending["kind"], pending["name"], pending["detail"])
            return
    import time as _t
    pending = part_proofs(ctx)
    ctx.log(f"proofs + template tie at {_t.time() - ctx.t0:.0f}s")
    cfgs = configs.configs(ctx.tier)
    if only:
        cfgs = [c for c in cfgs if c.name == only["config"]] or cfgs
    hjobs = c09_halt.jobs_for(cfgs, ctx.seed)
    launched = None if only else c09_halt.launch(hjobs)     # runs alongside the parts below, collected at the end
    xjobs = c09_exits.jobs_for(cfgs, ctx.seed, thorough=(ctx.tier == "thorough"))
    xlaunched = None if only else c09_exits.launch(xjobs)   # exit-shape family: likewise
    jobs, res, atts = build_all(ctx, cfgs)
    ctx.log(f"compiled at {_t.time() - ctx.t0:.0f}s")
    exit_fail = part_exits(ctx, jobs, res)
    ctx.log(f"exit check at {_t.time() - ctx.t0:.0f}s")
    found, n_or, n_mis = part_corr(ctx, jobs, res, atts, only)
    ctx.log(f"correspondence at {_t.time() - ctx.t0:.0f}s")
    if not only:
        found = c09_handover.part_handover(ctx, cfgs) or found
        ctx.log(f"hand-over family at {_t.time() - ctx.t0:.0f}s")
        found = c09_handover.part_getters(ctx, cfgs) or found
        ctx.log(f"getter family at {_t.time() - ctx.t0:.0f}s")
        found = c09_halt.part_halt(ctx, hjobs, found, launched) or found
        ctx.log(f"terminator family at {_t.time() - ctx.t0:.0f}s")
        found = c09_exits.part_exits(ctx, xjobs, found, xlaunched) or found
        ctx.log(f"exit-shape family at {_t.time() - ctx.t0:.0f}s")
    # verdicts for proof / placement breaks: Search = the correspondence above
    if pending is not None and not found:
        ctx.violation(pending["kind"], pending["name"], pending["detail"])
    if exit_fail and not found:
        for f in exit_fail[:MAX_REPORTS]:
            ctx.violation("theorem-broken", f"exits_pass_unlock: {f[2]} [{f[0]}, pragma={f[1]}]",
                          {"config": f[0], "pragma_style": f[1], "what": f[2], "source": cc.victim_source(f[1])})
    ctx.corr["exit_check_failures"] = len(exit_fail)
    ctx.trusted += ["Coq 8.16.1 kernel + vm_compute", "tools/vlib/c09_tpl.py (template printer)",
                    "tools/vlib/c09_cfg.py, c09_halt.py (CFG export: opcode classes, edges, legacy IR linearisation incl. the position of "
                    "call/create instructions in evaluation order)",
                    "pyrevm as EVM; attacker contract compiled by the legacy pipeline at -O gas"]
    ctx.assumptions += ["stores with non-literal keys do not address the lock slot (C10)",
                        "unprotected code never writes the lock cell (C10: no aliasing of state variables with the lock slot)"]
