"""C12: outgoing calls fail closed."""
from concurrent.futures import ProcessPoolExecutor

from vlib import c12_lib as L
from vlib import c12_dyn as D
from vlib import c12_bcorr as BC
from vlib import c12_ext as EX
from vlib import c12_bp as BP
from vlib import c12_sites, c12_tpl, configs, coqrun
from vlib.common import COQ
from vlib.evm import Chain

LEVEL = "proof"
META = {
    "category": "proof",
    "text": "Coq theorems about models of the interface-call protocol (extcodesize rule, failure propagation, minimum "
            "returndata size, strict decoding of scalar AND dynamic return types via the shared ABI/decoder models, "
            "default_return_value, STATICCALL for view/pure, value forwarding), raw_call (all call kinds, truncation, "
            "revert_on_failure), send, raw_revert and create_minimal_proxy_to/copy_of/from_blueprint decision tables, for every "
            "callee behaviour. Template observation (O-tie): check_external_call / check_create_operation / _extcodesize_check "
            "and 22 venom call-site shapes are kernel-equal to Coq generators proved to compute the model steps. "
            "Correspondence: generated callers (scalar, tuple, Bytes/String/DynArray/struct return types x mutability x "
            "kwargs; raw_call shapes; builtins) against hand-assembled scriptable targets on pyrevm under every configuration. "
            "Extension: an EVM fragment with per-account storage and arbitrary callee / constructor behaviours (CALL / DELEGATECALL / "
            "STATICCALL storage contexts, CREATE / CREATE2 failure results); theorems: raw_call(is_delegate_call) runs the target on the "
            "caller's storage and commits / rolls back, is_static_call never changes state, max_outsize truncation, revert_on_failure, "
            "raw_create success / failure; the USE-SITES of both generators (RawCall.build_IR, _create_ir and every create builtin on "
            "symbolic operands; venom call sites with operand slices) over 184 keyword combinations are kernel-equal to Coq generators "
            "proved to compute that behaviour; pyrevm correspondence for storage contexts, raw_create, raw_args / revert_on_failure=False "
            "result shapes and precompile targets. Return types cover every word-sized type (interface, flag, decimal, bytesM, intN) "
            "top level and nested. create_from_blueprint guard: theorem blueprint_guard_exact (the asserts before CREATE revert iff "
            "code_offset >= extcodesize(target), for every constructor-argument length), tied syntactically to the asserts both "
            "generators emit over args shape x salt x revert_on_failure x code_offset operand (96 sites; every uint256 code_offset), plus a pyrevm sweep "
            "code_offset x target x args x salt x revert_on_failure with the expectation computed from the documented rule.",
    "level_note": "Theorems are about the models; the models are tied by template observation (failure-handling steps) and by "
                  "correspondence on enumerated behaviours (structured corruptions of canonical returndata). Imports C05/C06 models "
                  "(owned by other checks). Trusted: Coq kernel, pyrevm, hand-assembled targets, eth_abi for canonical encodings, "
                  "site/template printer / use-site cutter (initcode buffer and length operands of CREATE are abstracted in the syntactic tie "
                  "and covered by the correspondence only). EVM fragment: a callee's effect is a list of writes to the frame owner's "
                  "storage (no nested calls / reentrancy, no balances, no gas). Not modelled: SELFDESTRUCT callee, gas exhaustion.",
    "technique": "Coq proof over protocol model + differential correspondence against a scriptable callee",
}

COQ_FILES = ["C12/ExtCall.v", "C12/ExtCallProofs.v", "C12/PropsExtCall.v", "C12/CallTpl.v",
             "C12/ExtCallDyn.v", "C12/ExtCallDynProofs.v", "C12/PropsExtCallDyn.v",
             "C12/Builtins.v", "C12/BuiltinsProofs.v", "C12/PropsBuiltins.v"]
TIE_FILES = ["C12/GenCall.v", "C12/TieCall.v", "C12/PropsCallTpl.v"]
# extension (session 3): EVM fragment with storage contexts; use-sites of the call / create templates in both generators
EXT_STATIC = ["C12/EvmFrag.v", "C12/EvmFragProofs.v", "C12/PropsEvmFrag.v"]
EXT_TIE = ["C12/GenSites.v", "C12/TieSites.v", "C12/PropsSites.v"]
EXT_DEPS = ["C12/ExtCall.v", "C12/Builtins.v", "C12/CallTpl.v"]
# create_from_blueprint guard (seeded change C12_m6): model + exactness theorem, O-tie of the emitted asserts, sweep
BP_STATIC = ["C12/BpGuard.v", "C12/BpGuardProofs.v", "C12/PropsBpGuard.v"]
BP_TIE = ["C12/GenBp.v", "C12/TieBp.v", "C12/PropsBpSites.v"]
BP_DEPS = ["C12/ExtCall.v", "C12/CallTpl.v"]
MAX_REPORTS = 3


def _compile(cfg):
    try:
        src, _f, _r = L.caller_source()
        out = configs.compile_src(src, cfg, formats=("bytecode", "method_identifiers"))
        dsrc, _d = L.dyn_caller_source()
        dout = configs.compile_src(dsrc, cfg, formats=("bytecode", "method_identifiers"))
        return {"ok": True, "bytecode": out["bytecode"], "mi": out["method_identifiers"],
                "dbytecode": dout["bytecode"], "dmi": dout["method_identifiers"]}
    except Exception as e:
        return {"ok": False, "error": f"{type(e).__name__}: {e}"[:2000]}


def py_expected(fn, beh):
    """Reference statement of the documented behaviour, independent of ExtCall.v: ('ok', words) | ('revert', bytes)"""
    name, ty, m, skip, dflt, value, gas = fn
    code, mode, data = beh
    _vt, tys, _valid, _inv, _dl, dw = L.TYPES[ty]
    static = m in ("v", "u")
    if not code:
        if not skip:
            return ("revert", b"")
        outcome = ("s", b"")
    elif mode == 0:
        outcome = ("s", data)
    elif mode == 1:
        outcome = ("f", data)
    elif mode == 2:
        outcome = ("f", b"")
    elif mode == 3:
        outcome = ("f", b"") if static else ("s", data)
    elif mode == 4:
        outcome = ("s", ((L.VALUE if value else 0)).to_bytes(32, "big"))
    else:
        raise ValueError(mode)
    if outcome[0] == "f":
        return ("revert", outcome[1])
    rd = outcome[1]
    if tys is None:
        return ("ok", [])
    if dflt and len(rd) == 0:
        return ("ok", dw)
    n = len(tys)
    if len(rd) < 32 * n:
        return ("revert", b"")
    ws = [int.from_bytes(rd[32 * i:32 * i + 32], "big") for i in range(n)]
    for t, w in zip(tys, ws):
        kind, arg = t.split()[0], int(t.split()[1]) if " " in t else 0
        ok = {"TUint": lambda: w < 2**arg, "TInt": lambda: w < 2**(arg - 1) or w >= L.W - 2**(arg - 1),
              "TBool": lambda: w < 2, "TAddress": lambda: w < 2**160,
              "TBytesM": lambda: w % (2**(8 * (32 - arg))) == 0}[kind]()
        if not ok:
            return ("revert", b"")
    return ("ok", ws)


def ext_build(ctx):
    """extension part 1: regenerate GenSites.v from the real generators, build the EVM-fragment theorems and the use-site tie.
    -> pending violation (kind, name, detail) or None"""
    pend = None
    files = list(EXT_STATIC)
    try:
        text, n = c12_sites.observe()
        (COQ / "C12" / "GenSites.v").write_text(text)
        files = EXT_STATIC[:2] + EXT_TIE[:1] + EXT_STATIC[2:] + EXT_TIE[1:]
        ctx.extra["usesite_templates"] = n
    except Exception as e:   # a builtin no longer accepts symbolic operands / a probe no longer compiles / site not exportable
        pend = ("translator-rejected", f"use-site export failed: {type(e).__name__}: {e}", {"error": str(e)[:1500]})
    b = ctx.coq_build_cached(files, deps=EXT_DEPS)
    if not b["ok"] and pend is None:
        pend = ("theorem-broken", f"{b.get('failed_lemma')} in {b['file']} (use-site tie / EVM-fragment theorems)",
                {"theorem": b.get("failed_lemma"), "file": b["file"], "coq_output": b["out"][-1500:]})
    elif b["ok"] and pend is None:
        ctx.extra["usesite_syntactic_matches"] = ctx.extra.get("usesite_templates")
    return pend


def bp_build(ctx):
    """create_from_blueprint guard: regenerate GenBp.v (asserts between EXTCODESIZE and CREATE, both generators), build the
    exactness theorem and the syntactic tie.  -> pending violation (kind, name, detail) or None"""
    pend = None
    files = list(BP_STATIC)
    try:
        text, n = BP.observe()
        (COQ / "C12" / "GenBp.v").write_text(text)
        files = BP_STATIC + BP_TIE
        ctx.extra["blueprint_guard_sites"] = n
    except Exception as e:   # the builtin no longer accepts symbolic operands / probe does not compile / no extcodesize before create
        pend = ("translator-rejected", f"create_from_blueprint guard export failed: {type(e).__name__}: {e}", {"error": str(e)[:1500]})
    b = ctx.coq_build_cached(files, deps=BP_DEPS)
    if not b["ok"] and pend is None:
        pend = ("theorem-broken", f"{b.get('failed_lemma')} in {b['file']} (create_from_blueprint guard: the asserts emitted before "
                                  "CREATE are not the guard proved exact by blueprint_guard_exact)",
                {"theorem": b.get("failed_lemma"), "file": b["file"], "coq_output": b["out"][-1500:]})
    elif b["ok"] and pend is None:
        ctx.extra["blueprint_guard_syntactic_matches"] = ctx.extra.get("blueprint_guard_sites")
    return pend


def bp_corr(ctx, cfgs, rnd):
    """create_from_blueprint sweep on pyrevm (expectation = the documented rule).  -> (evaluations, must-revert cases, reports)"""
    import random
    with ProcessPoolExecutor(max_workers=3) as ex:
        builds = list(ex.map(BP.compile_bp, cfgs, chunksize=1))
    n = must = 0
    reports = []
    seed = rnd.randrange(2**64)
    for cfg, bd in zip(cfgs, builds):
        if not bd["ok"]:
            reports.append(("correspondence-broken", f"blueprint factory does not compile under {cfg.name}: {bd['error']}",
                            {"config": cfg.name, "error": bd["error"], "source": BP.SRC}))
            continue
        k, m, reps = BP.run_config(cfg, bd, random.Random(seed))
        n += k
        must += m
        reports += reps
    return n, must, reports


def prebuild(ctx):
    ext_build(ctx)
    bp_build(ctx)


def ext_corr(ctx, cfgs, rnd):
    """extension part 2: storage contexts / raw_create / create_* result shapes / precompiles on pyrevm vs EvmFrag.v.
    -> (evaluations, reports)"""
    with ProcessPoolExecutor(max_workers=3) as ex:
        builds = list(ex.map(EX.compile_ext, cfgs, chunksize=1))
    import random
    n, reports, cache = 0, [], {}
    seed = rnd.randrange(2**64)     # the same scenario data under every configuration: model expressions are shared
    for cfg, bd in zip(cfgs, builds):
        if not bd["ok"]:
            reports.append(("correspondence-broken", f"extension caller does not compile under {cfg.name}: {bd['error']}",
                            {"config": cfg.name, "error": bd["error"], "source": EX.SRC}))
            continue
        res = EX.run_config(cfg, bd, random.Random(seed))
        if res is None:
            reports.append(("correspondence-broken", f"extension caller cannot be deployed under {cfg.name}", {"config": cfg.name}))
            continue
        results, _caller = res
        new = [e for e in dict.fromkeys(r[3] for r in results) if e not in cache]
        if new:
            for e, v in zip(new, EX.eval_models(new, "c12x")):
                cache[e] = v
        for cname, fn, det, expr, obs, bad in results:
            n += 1
            pred = cache[expr]
            detail = dict(det, config=cfg.name, case=cname, function=fn, model_expr=expr[:600], **{"expected(model)": pred, "observed": obs},
                          oracle_failures=bad, caller_source=EX.SRC,
                          how="targets: vlib.c12_ext.writer_runtime() / vlib.c12_builtins (ERC5202+blueprint_initcode, echo_runtime); "
                              "set_t(target); call function(args)")
            if bad:
                reports.append(("failing-input", f"{cname}: {bad[0]}", detail))
            elif obs != pred:
                # the model IS the documented behaviour (storage context, truncation, failure results): same rule as raw_call above
                reports.append(("failing-input", f"{cname}: result differs from the documented call-kind / create semantics (EvmFrag.v)", detail))
    return n, reports


def run(ctx):
    pending = None
    files = list(COQ_FILES)
    try:
        text, nt, _fam = c12_tpl.observe()
        (COQ / "C12" / "GenCall.v").write_text(text)
        files += TIE_FILES
        ctx.extra["family_size"] = nt
    except Exception as e:  # a template left the exportable fragment / a probe no longer compiles
        pending = ("translator-rejected", f"call template export failed: {type(e).__name__}: {e}", {"error": str(e)})
    b = ctx.coq_build(files)
    if not b["ok"] and pending is None:
        pending = ("theorem-broken", f"{b.get('failed_lemma')} in {b['file']}",
                   {"theorem": b.get("failed_lemma"), "file": b["file"], "coq_output": b["out"][-1500:]})
    elif b["ok"] and pending is None:
        ctx.extra["syntactic_matches"] = nt
    src, fns, raws = L.caller_source()
    dsrc, dfns = L.dyn_caller_source()
    rnd = ctx.rng("beh")
    cases = [(fn, beh) for fn in fns for beh in L.behaviours(fn[1], rnd)]
    rawbeh = [(False, 0, b""), (True, 0, b""), (True, 0, bytes(range(1, 21))), (True, 0, bytes(range(1, 33))),
              (True, 0, bytes(range(1, 41))), (True, 0, bytes(rnd.randrange(256) for _ in range(100))),
              (True, 1, b""), (True, 1, bytes(rnd.randrange(256) for _ in range(36))),
              (True, 1, bytes(rnd.randrange(256) for _ in range(100))), (True, 2, b""), (True, 3, bytes(range(1, 33)))]
    rcases = [(r, beh) for r in raws for beh in rawbeh]
    preds = coqrun.eval_zlists("From Verif Require Import C12.ExtCall.\n",
                               [L.model_expr(f, bh) for f, bh in cases] + [L.raw_model_expr(r, bh) for r, bh in rcases],
                               "c12m", shard=150)
    dcases = []   # (fn, corruptions, code, mode)
    for fn in dfns:
        cs = D.corruptions(fn[1], rnd)
        dcases.append((fn, cs, True, 0))
        dcases.append((fn, cs[:3], True, 1))     # callee reverts with the crafted bytes
        dcases.append((fn, cs[:2], False, 0))    # no code
        dcases.append((fn, cs[:2], True, 3))     # state change attempt (fails under STATICCALL)
    dpreds = coqrun.eval_zlists("From Verif Require Import C12.ExtCall C06.Abi C05.Dec C05.Harness C12.ExtCallDyn.\n",
                                [D.model_expr(f, cs, code, mode) for f, cs, code, mode in dcases], "c12d", shard=6)
    dpreds = [D.split(v) for v in dpreds]
    import time as _t
    _t0 = _t.time()
    ctx.log(f'models evaluated at {_t0 - ctx.t0:.0f}s')
    cfgs = configs.configs(ctx.tier)
    with ProcessPoolExecutor(max_workers=3) as ex:
        builds = list(ex.map(_compile, cfgs, chunksize=1))
        bbuilds = list(ex.map(BC.compile_builtins, cfgs, chunksize=1))
    ctx.log(f'compiled at {_t.time() - ctx.t0:.0f}s')
    n_eval = n_nontriv = n_fail = n_mis = 0
    dist = {}
    reports = []
    found = False
    runtime = L.callee_runtime()
    for cfg, bd in zip(cfgs, builds):
        if not bd["ok"]:
            ctx.violation("correspondence-broken", f"caller contract does not compile under {cfg.name}: {bd['error']}",
                          {"config": cfg.name, "error": bd["error"], "source": src})
            continue
        ch = Chain(cfg.evm)
        callee = ch.set_code(None, runtime)
        caller = ch.deploy(bytes.fromhex(bd["bytecode"][2:]))
        dcaller = ch.deploy(bytes.fromhex(bd["dbytecode"][2:]))
        if caller is None or dcaller is None:
            ctx.violation("correspondence-broken", f"caller contract cannot be deployed under {cfg.name} (code size?)",
                          {"config": cfg.name, "sizes": [len(bd["bytecode"]) // 2, len(bd["dbytecode"]) // 2]})
            continue
        ch.evm.set_balance(caller, 10**18)
        mi = {k.split("(")[0]: int(v, 16).to_bytes(4, "big") for k, v in bd["mi"].items()}
        dmi = {k.split("(")[0]: int(v, 16).to_bytes(4, "big") for k, v in bd["dmi"].items()}
        cur_target = {}

        def set_target(code, who=None):
            who = who or caller
            tgt = callee if code else L.NO_CODE
            if cur_target.get(who) != tgt:
                r = ch.call(who, mi["set_t"] + bytes(12) + bytes.fromhex(tgt[2:]))
                assert r.ok
                cur_target[who] = tgt

        def report(kind, name, detail):
            nonlocal found
            if kind == "failing-input":
                found = True
            reports.append((kind, name, detail))

        for (fn, beh), pred in zip(cases, preds):
            code, mode, data = beh
            set_target(code)
            L.install(ch, callee, mode, data)
            x = rnd.randrange(2**256)
            cd = mi[fn[0]] + x.to_bytes(32, "big")
            r = ch.call(caller, cd, value=L.VALUE if fn[5] else 0)
            n_eval += 1
            real = [1] + [int.from_bytes(r.out[i:i + 32], "big") for i in range(0, len(r.out), 32)] if r.ok else [0] + list(r.out)
            exp = py_expected(fn, beh)
            exp_l = [1] + list(exp[1]) if exp[0] == "ok" else [0] + list(exp[1])
            if fn[0].startswith("s_"):
                # statement position: the caller returns nothing; success / failure (and the revert data) must be those of
                # the same call in expression position
                if exp_l[0] == 1:
                    exp_l = [1]
                if pred[0] == 1:
                    pred = [1]
            key = f"{fn[1]}:mode{mode}:{'code' if code else 'nocode'}"
            dist[key] = dist.get(key, 0) + 1
            if not (code and mode == 0 and pred[0] == 1):
                n_nontriv += 1
            detail = {"config": cfg.name, "function": fn[0], "kwargs": {"skip_contract_check": fn[3], "default_return_value": fn[4],
                      "value": fn[5], "gas": fn[6]}, "mutability": L.MUTS[fn[2]][0], "return_type": L.TYPES[fn[1]][0],
                      "callee": {"has_code": code, "mode": mode, "data_hex": data.hex()}, "calldata_hex": cd.hex(),
                      "expected(model) [status, words|revert bytes]": pred, "observed": real,
                      "how": "deploy vlib.c12_lib.callee_runtime() and the caller; set_t(callee or no-code address); script the callee storage "
                             "(slot0 mode, slot1 length, slots 2.. data words); send calldata", "caller_source": src}
            if real != exp_l:
                n_fail += 1
                report("failing-input", f"{fn[0]}: documented behaviour violated (expected {exp[0]})", detail)
            elif real != pred:
                n_mis += 1
                report("correspondence-broken", "ExtCall.v prediction differs from EVM observation", detail)
        # dynamic return types
        for (fn, cs, code, mode), plist in zip(dcases, dpreds):
            base = D.base_encoding(fn[1])
            set_target(code, dcaller)
            for c, pred in zip(cs, plist):
                data = D.apply_c(c, base)
                L.install(ch, callee, mode, data)
                cd = dmi[fn[0]] + rnd.randrange(2**256).to_bytes(32, "big")
                r = ch.call(dcaller, cd)
                n_eval += 1
                n_nontriv += 1
                dist["dyn:" + fn[1]] = dist.get("dyn:" + fn[1], 0) + 1
                real = [1] + list(r.out) if r.ok else [0] + list(r.out)
                detail = {"config": cfg.name, "function": fn[0], "return_type": D.DYN[fn[1]][0], "mutability": D.MUTS[fn[2]][0],
                          "kwargs": {"skip_contract_check": fn[3], "default_return_value": fn[4]},
                          "callee": {"has_code": code, "mode": mode, "data_hex": data.hex(), "corruption": str(c)[:80]},
                          "calldata_hex": cd.hex(), "expected(model) [status, bytes]": bytes(pred[1:]).hex() + f" status={pred[0]}",
                          "observed": bytes(real[1:]).hex() + f" status={real[0]}", "caller_source": dsrc}
                # property oracle independent of the model
                bad = None
                static = fn[2] in ("v", "u")
                callee_fails = code and (mode in (1, 2) or (mode == 3 and static))
                stmt = fn[0].startswith("ds_")
                if stmt:
                    # statement position: nothing is returned; success / failure and the revert data must be those of the
                    # same call in expression position (model: same prediction; implementation: the sibling function)
                    if pred[0] == 1:
                        pred = [1]
                    r2 = ch.call(dcaller, dmi["d_" + fn[0][3:]] + cd[4:])
                    if r.ok != r2.ok or (not r.ok and r.out != r2.out):
                        bad = (f"the extcall in statement position {'succeeds' if r.ok else 'reverts'} where the same call in "
                               f"expression position ({'d_' + fn[0][3:]}) {'succeeds' if r2.ok else 'reverts'}")
                if r.ok and stmt:
                    if callee_fails:
                        bad = "callee failed but the caller did not revert"
                    elif not code and not fn[3]:
                        bad = "target has no code but the caller did not revert"
                    elif len(data) < 32 * len(D.DYN[fn[1]][2]) and not (fn[4] and len(data) == 0):
                        bad = "returndata shorter than the static size was accepted"
                elif r.ok:
                    if callee_fails:
                        bad = "callee failed but the caller did not revert"
                    elif not code and not fn[3]:
                        bad = "target has no code but the caller did not revert"
                    elif len(data) < 32 * len(D.DYN[fn[1]][2]) and not (fn[4] and len(data) == 0):
                        bad = "returndata shorter than the static size was accepted"
                    else:
                        bad = D.in_bounds(fn[1], r.out)
                        if bad is None and code and not (fn[4] and len(data) == 0):
                            bad = D.decodes_returndata(fn[1], data, r.out)
                elif callee_fails and r.out != (data if mode == 1 else b""):
                    bad = "revert data not propagated unchanged"
                if bad:
                    n_fail += 1
                    report("failing-input", f"{fn[0]}: {bad}", detail)
                elif real != pred:
                    n_mis += 1
                    report("correspondence-broken", "ExtCallDyn.v prediction differs from EVM observation", detail)
        # raw_call
        for (raw, beh), pred in zip(rcases, preds[len(cases):]):
            code, mode, data = beh
            set_target(code)
            L.install(ch, callee, mode, data)
            arg = bytes(rnd.randrange(256) for _ in range(10))
            cd = mi[raw[0]] + (32).to_bytes(32, "big") + len(arg).to_bytes(32, "big") + arg + bytes(22)
            r = ch.call(caller, cd)
            n_eval += 1
            n_nontriv += 1
            dist["raw_call"] = dist.get("raw_call", 0) + 1
            if r.ok:
                dec = L.decode_raw_output(raw, r.out)
                real = [1] + (dec if dec is not None else pred[1:])
                if dec is not None and raw[1] == 0:
                    real = [1] + dec[:1] + pred[2:]
            else:
                real = [0] + list(r.out)
            detail = {"config": cfg.name, "function": raw[0], "max_outsize": raw[1], "revert_on_failure": raw[2], "is_static_call": raw[3],
                      "callee": {"has_code": code, "mode": mode, "data_hex": data.hex()}, "calldata_hex": cd.hex(),
                      "expected(model) [status, flag, len, bytes...]": pred, "observed": real, "caller_source": src}
            if real != pred:
                # raw_call's documented behaviour = the model (truncation / flags); treat as failing input
                n_fail += 1
                report("failing-input", f"{raw[0]}: raw_call result differs from documented truncation/failure semantics", detail)
        # value / gas / calldata forwarding (python oracles)
        set_target(True)
        L.install(ch, callee, 6, b"")
        g1 = ch.call(caller, mi["c_u256_n_gas"] + bytes(32))
        g0 = ch.call(caller, mi["c_u256_n_00"] + bytes(32))
        n_eval += 2
        gv1 = int.from_bytes(g1.out, "big") if g1.ok else -1
        gv0 = int.from_bytes(g0.out, "big") if g0.ok else -1
        if not (L.GASKW - 60000 <= gv1 <= L.GASKW) or not (gv0 > 10**6):
            n_fail += 1
            report("failing-input", "gas= not forwarded as requested", {"config": cfg.name, "gas_kw": L.GASKW, "callee_saw_gas_with_kw": gv1,
                                                                       "callee_saw_gas_without_kw": gv0, "caller_source": src})
        L.install(ch, callee, 5, b"")
        x = rnd.randrange(2**256)
        c0 = ch.call(caller, mi["c_pair_n_00"] + x.to_bytes(32, "big"))
        n_eval += 1
        import hashlib  # noqa
        from vyper.utils import method_id_int
        want = [(method_id_int("f_pair_n(uint256)") << 224) | (x >> 32), 36]
        got = [int.from_bytes(c0.out[i:i + 32], "big") for i in range(0, len(c0.out), 32)] if c0.ok else None
        if got != want:
            n_fail += 1
            report("failing-input", "calldata seen by the callee is not selector ++ abi(args)", {"config": cfg.name, "want": want, "got": got, "caller_source": src})
    ctx.log(f'interface-call correspondence done at {_t.time() - ctx.t0:.0f}s')
    # ---- builtins: send / raw_revert / raw_call kinds / create_*
    bcases = BC.build_cases(rnd)
    cache = {}
    for cfg, bd in zip(cfgs, bbuilds):
        if not bd["ok"]:
            ctx.violation("correspondence-broken", f"builtins caller does not compile under {cfg.name}: {bd['error']}",
                          {"config": cfg.name, "error": bd["error"], "source": BC.B.SRC})
            continue
        results, caller_addr = BC.run_config(cfg, bd, bcases, rnd)
        exprs = BC.model_exprs(results)
        new = [e for e in dict.fromkeys(exprs) if e not in cache]
        if new:
            for e, v in zip(new, BC.eval_models(new, "c12b")):
                cache[e] = v
        for (c, obs, addr, cs, extra, tgt), e in zip(results, exprs):
            pred = cache[e]
            n_eval += 1
            n_nontriv += 1
            dist["builtin:" + c.fn.split("_")[0]] = dist.get("builtin:" + c.fn.split("_")[0], 0) + 1
            detail = {"config": cfg.name, "case": c.name, "function": c.fn, "target": c.target, "target_address": tgt,
                      "args_hex": c.args.hex(), "value": c.value, "prep": str(c.prep), "note": c.note,
                      "model_expr": e, "expected(model)": pred, "observed_ok": obs["ok"], "observed_out_hex": obs["out"].hex(),
                      "extra_checks_failed": extra, "caller_source": BC.B.SRC,
                      "how": "targets: see vlib.c12_builtins (echo_runtime, ACCEPT, REJECT, ERC5202+blueprint_initcode); "
                             "set_t(target); call function(args) with value"}
            if not BC.compare(c, obs, pred) or extra:
                n_fail += 1
                found = True
                reports.append(("failing-input", f"{c.name}: builtin does not follow its documented success/failure/truncation behaviour"
                                + (": " + extra[0] if extra else ""), detail))
    # ---- extension (session 3)
    ext_pending = ext_build(ctx)
    ctx.log(f'extension build done at {_t.time() - ctx.t0:.0f}s')
    try:
        xn, xreports = ext_corr(ctx, cfgs, rnd)
    except Exception as e:   # the Coq model files did not build: no predictions
        xn, xreports = 0, []
        if ext_pending is None:
            ext_pending = ("correspondence-broken", f"extension correspondence could not run: {type(e).__name__}: {e}", {"error": str(e)[:1500]})
    n_eval += xn
    n_nontriv += xn
    dist["ext:contexts/raw_create/precompiles"] = xn
    for kind, name, detail in xreports:
        if kind == "failing-input":
            n_fail += 1
            found = True
        reports.append((kind, name, detail))
    ctx.log(f'extension correspondence done at {_t.time() - ctx.t0:.0f}s')
    # ---- create_from_blueprint guard (session 3, seeded change C12_m6)
    bp_pending = bp_build(ctx)
    try:
        bn, bmust, breports = bp_corr(ctx, cfgs, ctx.rng("bp"))
    except Exception as e:
        bn, bmust, breports = 0, 0, []
        if bp_pending is None:
            bp_pending = ("correspondence-broken", f"create_from_blueprint sweep could not run: {type(e).__name__}: {e}", {"error": str(e)[:1500]})
    n_eval += bn
    n_nontriv += bmust
    dist["blueprint_guard_sweep"] = bn
    for kind, name, detail in breports:
        # (class "signed-difference-wraps" = code_offset > codesize + 2^255: finding C12:blueprint-code_offset-wraps, fixed in
        #  /repo 0e3d467 -- a regression is an ordinary failing input)
        if kind == "failing-input":
            n_fail += 1
            found = True
        reports.append((kind, name, detail))
    ctx.log(f'create_from_blueprint guard: {bn} runs, {bmust} must-revert cases, done at {_t.time() - ctx.t0:.0f}s')
    shown = 0
    by_fn = {}
    for kind, name, detail in reports:
        if kind == "failing-input":
            k = f"{detail.get('function')} [{detail.get('config')}]"
            by_fn[k] = by_fn.get(k, 0) + 1
    ctx.corr["failing_functions"] = dict(sorted(by_fn.items())[:80])
    seen_fn = set()
    for kind, name, detail in reports:
        # (one report per caller function first: different return types / positions are different shapes of a defect)
        if kind == "failing-input" and shown < MAX_REPORTS and detail.get("function") not in seen_fn:
            seen_fn.add(detail.get("function"))
            shown += 1
            ctx.violation("failing-input", name, detail, key=f"c12:{detail.get('config')}:{detail.get('function')}:{detail.get('case', '')}")
    if not found:
        for kind, name, detail in reports[:MAX_REPORTS]:
            ctx.violation(kind, name, detail)
        if pending is not None:
            ctx.violation(pending[0], pending[1], pending[2])
        if ext_pending is not None:
            ctx.violation(ext_pending[0], ext_pending[1], ext_pending[2])
        if bp_pending is not None:
            ctx.violation(bp_pending[0], bp_pending[1], bp_pending[2])
    ctx.corr["evaluations"] = n_eval
    ctx.corr["distinct_nontrivial"] = n_nontriv
    ctx.corr["rule"] = ("one evaluation = one (caller function, callee behaviour) pair executed under one configuration; non-trivial = "
                        "anything but a plain successful return of valid data (no code, revert, INVALID, static violation, short/dirty data, "
                        "default, echo, raw_call)")
    ctx.corr["distribution"] = dict(sorted(dist.items())[:60])
    ctx.corr["documented_behaviour_violations"] = n_fail
    ctx.corr["model_mismatches"] = n_mis
    ctx.samples.append({"function": "c_u8_n_00", "callee": "mode 0 data=word(256)", "expected": "revert with empty data"})
    ctx.samples.append({"function": "c_u256_v_01", "callee": "no code", "expected": "revert (extcodesize check inside the default branch)"})
    ctx.trusted += ["Coq 8.16.1 kernel + vm_compute", "pyrevm as EVM", "hand-assembled callee (tools/vlib/c12_lib.py)",
                    "python reference py_expected (used only to classify a mismatch as failing-input)"]
    ctx.assumptions += ["an account without code answers every call with success and empty returndata (precompiles excluded)"]
