"""C18: builds are deterministic and reproducible from bundles.
Logic half (proved in Coq, coq/C18): the integrity sum determines the whole import tree and the layout override,
given collision-free fixed-width digests; Settings.as_dict/from_dict round trip.  Tied to /repo by (a) running the
model's hashing *expression* with real sha256 against the real `_calculate_integrity_sum_r` (and recording which
strings the real code hashes, in which order), (b) an exhaustive differential of the Settings round trip.
Process-history half (exploration only): corpus programs compiled in fresh interpreters under several
PYTHONHASHSEEDs, compile orders, format orders; bundle export/re-import; mutation of sources / override."""
import collections
import hashlib
import json
import os
import re
import shutil
import subprocess
import sys
import tempfile
import warnings
from concurrent.futures import ThreadPoolExecutor
from pathlib import Path

from vlib import coqrun
from vlib.c18_corpus import CF_FIXED, CORPUS, gen_cf_program
from vlib.common import REPO, VERIF

LEVEL = "other"
META = {
    "category": "other",
    "text": "Two halves. Proved in Coq for all inputs: the integrity sum (with and without a storage-layout override) is "
            "injective on import trees and override texts given a collision-free 64-hex-digit hash, so any change to any "
            "imported source or to the override changes it; the settings part of both bundle formats round-trips "
            "(modulo the O2->gas / Os->codesize aliasing, which the theorem states). Explored, not proved: byte-identical "
            "outputs across fresh processes, hash seeds, compile histories and format orders on a corpus, and bundle "
            "export -> recompile reproducing bytecode and integrity.",
    "level_note": "A Gallina function is deterministic by construction, so process-history determinism cannot be a theorem "
                  "about a model; it is bounded exploration (corpus x seeds x histories). SHA-256 collision-freeness is an "
                  "explicit hypothesis of the theorems. zip/JSON syntax handling is the library's and is trusted.",
    "technique": "Coq proof over hand model + structural differential with real sha256 + history-enumeration exploration",
}

FORMATS = ["bytecode", "bytecode_runtime", "abi", "layout", "metadata", "method_identifiers", "asm", "ir", "integrity"]
CFGS = [{"venom": False, "level": "gas"}, {"venom": True, "level": "gas"}, {"venom": True, "level": "O3"},
        {"venom": False, "level": "codesize"}]


def sha(s):
    return hashlib.sha256(s.encode("utf-8")).hexdigest()


# --------------------------------------------------------------------------- corpus on disk
def materialize(root, corpus=CORPUS):
    for name, p in corpus.items():
        for rel, txt in p["files"].items():
            f = root / name / rel
            f.parent.mkdir(parents=True, exist_ok=True)
            f.write_text(txt)
        if "layout" in p:
            (root / name / "layout.json").write_text(json.dumps(p["layout"]))


# --------------------------------------------------------------------------- (a) integrity: model expression vs real code
def gen_dag(rnd, k):
    """Random import DAG: modules m0..m{k-1} (m0 = target), edges only to higher indices; plus JSON/.vyi leaves."""
    mods = {}
    for i in range(k):
        later = list(range(i + 1, k))
        imps = sorted(rnd.sample(later, min(len(later), rnd.randint(0, 3)))) if later else []
        leaves = []
        if rnd.random() < 0.4:
            leaves.append("j%d" % rnd.randint(0, 1))
        mods[i] = {"imports": imps, "json": leaves}
    # twin packages: byte-identical wrapper modules p<j>/tw.vy (`from . import leaf`) whose relative import resolves to
    # different files p<j>/leaf.vy; sometimes two leaves are byte-identical too
    mods[0]["twins"] = rnd.randint(2, 3) if rnd.random() < 0.5 else 0
    mods[0]["same_leaf"] = rnd.random() < 0.3
    return mods


def dag_files(mods, salt):
    files = {}
    for j in (0, 1):
        files[f"j{j}.json"] = json.dumps([{"type": "function", "name": f"p{j}", "stateMutability": "view", "inputs": [],
                                          "outputs": [{"name": "", "type": "uint256"}]}])
    for i, m in mods.items():
        lines = [f"# module {i} salt {salt}"]
        for t in m["imports"]:
            lines.append(f"import m{t}")
        for l in m["json"]:
            lines.append(f"import {l}")
        tw = m.get("twins", 0)
        for j in range(tw):
            lines.append(f"import p{j}.tw as t{j}")
        lines.append(f"\n@internal\n@pure\ndef f{i}() -> uint256:\n    return {i}\n")
        if i == 0:
            lines.append("@external\ndef go() -> uint256:\n    return self.f0()" + "".join(f" + t{j}.get()" for j in range(tw)) + "\n")
        files[f"m{i}.vy"] = "\n".join(lines)
        for j in range(tw):
            files[f"p{j}/tw.vy"] = "from . import leaf\n\n@internal\n@pure\ndef get() -> uint256:\n    return leaf.value() + 1\n"
            v = 100 if (m.get("same_leaf") and j < 2) else 100 + j
            files[f"p{j}/leaf.vy"] = f"@internal\n@pure\ndef value() -> uint256:\n    return {v}\n"
    return files


def coq_tree(mods, i, tok):
    """Coq term of the import tree (no sharing: the model is a tree; the code memoises the DAG)."""
    m = mods[i]
    kids = []
    # source order: module imports first, then json (as written by dag_files)
    for t in m["imports"]:
        kids.append(coq_tree(mods, t, tok))
    for l in m["json"]:
        kids.append(f'(Leaf "{tok(l + ".json")}")')
    for j in range(m.get("twins", 0)):   # written after the other imports by dag_files
        kids.append(f'(Node "{tok("p%d/tw.vy" % j)}" [(Node "{tok("p%d/leaf.vy" % j)}" [])])')
    return f'(Node "{tok("m%d.vy" % i)}" [' + "; ".join(kids) + "])"


def eval_expr(s, contents):
    """Evaluate a model expression: '`'..'~' = apply sha256 to the enclosed (evaluated) text, '$n;' = file n."""
    stack = [""]
    i = 0
    while i < len(s):
        c = s[i]
        if c == "`":
            stack.append("")
        elif c == "~":
            inner = stack.pop()
            stack[-1] += sha(inner)
        elif c == "$":
            j = s.index(";", i)
            stack[-1] += contents[int(s[i + 1:j])]
            i = j
        else:
            raise ValueError("unexpected char in model expression: " + c)
        i += 1
    assert len(stack) == 1
    return stack[0]


def part_integrity(ctx, tmp):
    import vyper.semantics.analysis.imports as imports_mod
    from vyper.cli.vyper_compile import compile_files
    rnd = ctx.rng("dag")
    n = 12 if ctx.tier == "quick" else 60
    cases = []
    for c in range(n):
        mods = gen_dag(rnd, rnd.randint(1, 7))
        files = dag_files(mods, c)
        names = sorted(files)
        tok = lambda fn: "$%d;" % names.index(fn)  # noqa
        layout = None
        if c % 3 == 0:
            layout = json.dumps({})  # an (empty-variable) override file: the contract has no storage
        cases.append({"mods": mods, "files": files, "names": names, "tree": coq_tree(mods, 0, tok), "layout": layout})
    imports = ('From Verif Require Import C18.Integrity.\nOpen Scope string_scope.\n'
               'Definition HH (s : string) : string := "`" ++ s ++ "~".\n'
               'Definition sep (l : list string) : string := fold_right (fun a b => a ++ "|" ++ b) "" l.\n')
    exprs = []
    for k in cases:
        lay = 'None' if k["layout"] is None else '(Some "$%d;")' % len(k["names"])
        exprs.append(f'compute_integrity HH {lay} {k["tree"]} ++ "#" ++ sep (hashed HH {k["tree"]})')
    outs = coqrun.eval_cases(imports, exprs, "c18integ", shard=40)
    bad = 0
    real_sha = imports_mod.sha256sum
    for ci, (k, o) in enumerate(zip(cases, outs)):
        o = o.strip().strip('"').replace(" ", "")
        final_e, hashed_e = o.split("#")
        contents = [k["files"][nm] for nm in k["names"]] + ([k["layout"]] if k["layout"] is not None else [])
        want = eval_expr(final_e, contents)
        want_hashed = [eval_expr(x, contents) for x in hashed_e.split("|") if x]
        leafs = {k["files"][nm] for nm in k["names"] if nm.endswith(".json")}
        want_nodes = [x for x in want_hashed if x not in leafs]
        d = tmp / f"dag{ci}"
        for nm, txt in k["files"].items():
            (d / nm).parent.mkdir(parents=True, exist_ok=True)
            (d / nm).write_text(txt)
        lay = None
        if k["layout"] is not None:
            (d / "layout.json").write_text(k["layout"])
            lay = [str(d / "layout.json")]
        rec = []

        def recording(s, _rec=rec):
            _rec.append(s)
            return real_sha(s)
        imports_mod.sha256sum = recording
        try:
            with warnings.catch_warnings():
                warnings.simplefilter("ignore")
                r = compile_files([str(d / "m0.vy")], ["integrity"], paths=[str(d)], include_sys_path=False,
                                  storage_layout_paths=lay)
            got = list(r.values())[0]["integrity"]
        finally:
            imports_mod.sha256sum = real_sha

        def dedup(xs):
            seen, out = set(), []
            for x in xs:
                if x not in seen:
                    seen.add(x)
                    out.append(x)
            return out
        if got != want or dedup(rec) != dedup(want_nodes):
            bad += 1
            if bad <= 2:
                # Search: does the property's own oracle fail?  mutate one imported file and see whether the sum changes
                ctx.violation("correspondence-broken", "integrity model (Integrity.v, real sha256 plugged in) differs from the compiler",
                              {"files": k["files"], "layout": k["layout"], "model_integrity": want, "real_integrity": got,
                               "model_hashed_first_occurrences": [x[:80] for x in dedup(want_nodes)],
                               "real_hashed_first_occurrences": [x[:80] for x in dedup(rec)]})
    ctx.corr["integrity_dags"] = len(cases)
    ctx.samples.append({"integrity_expr": outs[0][:200]})
    return len(cases), bad


# --------------------------------------------------------------------------- anonymize: model vs code + end-to-end replay
def part_anonymize(ctx, tmp):
    from vyper.cli.vyper_compile import compile_files
    from vyper.compiler.output_bundle import _anonymize
    from vyper.exceptions import VyperException
    rnd = ctx.rng("anon")
    pool = ["..", "..", "a", "lib.vy", "0", "1", "01", "x1", "2", "b_c", "10"]
    cases = [[".."], ["..", "lib.vy"], ["0", "lib.vy"], ["..", "..", "2"], ["a", ".."]]
    for _ in range(40 if ctx.tier == "quick" else 400):
        cases.append([rnd.choice(pool) for _ in range(rnd.randint(1, 5))])
    q = lambda x: '"' + x + '"'  # noqa
    exprs = ['String.concat "/" (anonymize [' + "; ".join(q(x) for x in c) + '])' for c in cases]
    outs = coqrun.eval_cases("From Verif Require Import C18.Anonymize.\nOpen Scope string_scope.\n", exprs, "c18anon", shard=50)
    bad = 0
    for c, o in zip(cases, outs):
        real = _anonymize("/".join(c))
        if o.strip().strip('"') != real:
            bad += 1
            ctx.violation("correspondence-broken", "Anonymize.v differs from output_bundle._anonymize", {"segments": c, "model": o, "real": real})
            break
    # end-to-end replay of the refutation witness: ../lib.vy and 0/lib.vy
    proj = tmp / "anon" / "proj"
    (proj / "0").mkdir(parents=True)
    (tmp / "anon" / "lib.vy").write_text("@internal\n@pure\ndef tag() -> uint256:\n    return 222\n")
    (proj / "0" / "lib.vy").write_text("@internal\n@pure\ndef tag() -> uint256:\n    return 111\n")
    (proj / "0" / "helper.vy").write_text("from . import lib\n\n@internal\n@pure\ndef h() -> uint256:\n    return lib.tag()\n")
    (proj / "main.vy").write_text("import lib\nimport helper\n\n@external\ndef f() -> uint256:\n    return lib.tag() * 1000 + helper.h()\n")
    cwd = os.getcwd()
    os.chdir(str(proj))
    try:
        with warnings.catch_warnings():
            warnings.simplefilter("ignore")
            base = list(compile_files(["main.vy"], ["bytecode", "integrity"], paths=["0", ".."], include_sys_path=False).values())[0]
            try:
                import contextlib
                import io
                with contextlib.redirect_stdout(io.StringIO()), contextlib.redirect_stderr(io.StringIO()):
                    arch = list(compile_files(["main.vy"], ["archive"], paths=["0", ".."], include_sys_path=False).values())[0]["archive"]
            except VyperException:
                arch = None   # refusing to write an ambiguous bundle is fine
            (tmp / "anon" / "a.zip").write_bytes(arch or b"")
            try:
                again = base if arch is None else list(compile_files([str(tmp / "anon" / "a.zip")], ["bytecode", "integrity"], include_sys_path=False).values())[0]
            except Exception as e:  # noqa
                again = {"error": f"{type(e).__name__}: {str(e)[:200]}"}
    finally:
        os.chdir(cwd)
    if again != base:
        import zipfile
        names = zipfile.ZipFile(str(tmp / "anon" / "a.zip")).namelist()
        ctx.violation("failing-input", "two different sources get the same anonymised bundle path: one is dropped and the bundle does not reproduce the build",
                      {"files": {"../lib.vy": "tag() -> 222", "0/lib.vy": "tag() -> 111", "0/helper.vy": "from . import lib", "main.vy": "import lib; import helper"},
                       "cmd": "cd proj; vyper -f archive main.vy -p 0 -p .. -o a.zip; vyper -f bytecode,integrity a.zip",
                       "archive_members": names, "original": base, "from_bundle": again}, key="C18:anonymize-collision")
    ctx.corr["anonymize_cases"] = len(cases)
    return len(cases), bad


# --------------------------------------------------------------------------- (b) settings round trip: exhaustive differential
def part_settings(ctx):
    from vyper.cli.vyper_json import get_settings
    from vyper.compiler.output_bundle import SolcJSONWriter
    from vyper.compiler.settings import OptimizationLevel, Settings, VenomOptimizationFlags
    imports = ("From Verif Require Import C18.SettingsModel.\n"
               "Definition obsets := [[None;None;None;None;None]; [Some true;Some false;None;Some true;Some false];"
               " [Some false;Some true;Some true;None;Some true]; [None;Some true;Some false;Some false;None];"
               + (" [Some true;Some true;Some true;Some true;Some true]; [Some false;None;Some false;Some true;Some false]]"
                  if ctx.tier == "thorough" else " [Some true;Some true;Some true;Some true;Some true]]") +
               " : list (list (option bool)).\n"
               "Definition nthb (l : list (option bool)) n := nth n l None.\n"
               "Definition settings_for cv o : list settings :=\n"
               "  flat_map (fun e => flat_map (fun b => map (fun v =>\n"
               "    mks cv o e (nthb b 0) (nthb b 1) (nthb b 2) (nthb b 3) (nthb b 4) v) vfs) obsets) evms.\n"
               "Definition pack (l : list Z) : Z := fold_left (fun acc d => acc * 2048 + d)%Z l 1%Z.\n"
               "From Verif Require Import C18.BundleSettings.\n"
               "Definition row s := pack (enc s ++ enc_res (from_dict (as_dict s)) ++ enc_res (Some (norm s))"
               " ++ enc_res (json_read_settings false (json_write_settings s)) ++ enc_res (json_read_settings true (json_write_settings s)))%list.\n")
    exprs = []
    for cv in ("None", '(Some "0.4.3"%string)'):
        for o in ["None"] + [f"(Some {l})" for l in ("NONE", "GAS", "CODESIZE", "O2", "O3", "Os")]:
            if ctx.tier == "quick" and cv != "None" and o not in ("None", "(Some O3)", "(Some CODESIZE)"):
                continue        # quick: every level without a version, three levels with one; thorough: exhaustive
            exprs.append(f"map row (settings_for {cv} {o})")
    chunks = [exprs[k::3] for k in range(3)]      # three coqc processes side by side
    with ThreadPoolExecutor(max_workers=3) as ex:
        parts = list(ex.map(lambda kc: coqrun.eval_zlists(imports, kc[1], f"c18settings{kc[0]}", shard=5, timeout=300),
                            enumerate(chunks)))
    packed = [z for part in parts for l in part for z in l]
    out = []
    for z in packed:
        digits = []
        while z > 1:
            digits.append(z % 2048)
            z //= 2048
        assert z == 1
        digits.reverse()
        out += digits
    LV = [None, OptimizationLevel.NONE, OptimizationLevel.GAS, OptimizationLevel.CODESIZE, OptimizationLevel.O2,
          OptimizationLevel.O3, OptimizationLevel.Os]
    OB = [None, False, True]
    EV = [None, "cancun", "london"]

    def dec_vf(z):
        if z == 0:
            return None
        z -= 1
        lvl = LV[z % 8]
        z //= 8
        a, z = z % 2, z // 2
        b, thr = z % 2, z // 2
        return VenomOptimizationFlags(level=lvl, disable_inlining=bool(a), disable_simplify_cfg=bool(b), inline_threshold=thr)

    def enc_vf(v):
        if v is None:
            return 0
        return 1 + LV.index(v.level) + 8 * (int(v.disable_inlining) + 2 * (int(v.disable_simplify_cfg) + 2 * v.inline_threshold))

    def dec(e):
        return Settings(compiler_version="0.4.3" if e[0] else None, optimize=LV[e[1]], evm_version=EV[e[2]],
                        experimental_codegen=OB[e[3]], debug=OB[e[4]], enable_decimals=OB[e[5]],
                        nonreentrancy_by_default=OB[e[6]], disable_static_exceptions=OB[e[7]], venom_flags=dec_vf(e[8]))

    def enc(s):
        return [1 if s.compiler_version else 0, LV.index(s.optimize), EV.index(s.evm_version), OB.index(s.experimental_codegen),
                OB.index(s.debug), OB.index(s.enable_decimals), OB.index(s.nonreentrancy_by_default),
                OB.index(s.disable_static_exceptions), enc_vf(s.venom_flags)]
    W = 9 + 10 + 10 + 10 + 10
    reader_matches = {"snapshot": 0, "repaired": 0, "neither": 0}
    assert len(out) % W == 0 and len(out) > 0, len(out)
    n = len(out) // W
    bad = 0
    other_flags = ["disable_cse", "disable_sccp", "disable_load_elimination", "disable_dead_store_elimination",
                   "disable_algebraic_optimization", "disable_branch_optimization", "disable_assert_elimination",
                   "disable_mem2var", "disable_remove_unused_variables"]
    for i in range(n):
        row = out[i * W:(i + 1) * W]
        e, model_rt, model_norm, model_json, model_json_fixed = row[:9], row[9:19], row[19:29], row[29:39], row[39:]
        s = dec(e)
        if enc(s) != e:
            raise AssertionError(("harness encoding", e, enc(s)))
        try:
            d = s.as_dict()
            d = json.loads(json.dumps(d))  # through JSON text as in both bundle formats
            r = Settings.from_dict(d)
            real = [1] + enc(r)
            if r.venom_flags is not None and any(getattr(r.venom_flags, f) for f in other_flags):
                real = [2]
        except Exception as ex:  # noqa
            real = [0] + [0] * 9
        # solc_json: real SolcJSONWriter.write_settings -> json text -> vyper_json.get_settings
        try:
            w = SolcJSONWriter.__new__(SolcJSONWriter)
            w._output = {"language": "Vyper", "sources": {}, "settings": {"outputSelection": {}}}
            w.write_settings(s)
            with warnings.catch_warnings():
                warnings.simplefilter("ignore")
                rj = get_settings(json.loads(json.dumps(w._output)))
            real_json = [1] + enc(rj)
            if rj.venom_flags is not None and any(getattr(rj.venom_flags, f) for f in other_flags):
                real_json = [2]
        except Exception as ex:  # noqa
            real_json = [0] + [0] * 9
        if model_json != model_json_fixed:   # rows on which the two reader models differ decide which one /repo implements
            reader_matches["snapshot" if real_json == model_json else "repaired" if real_json == model_json_fixed else "neither"] += 1
        if real_json != model_json and real_json != model_json_fixed:
            bad += 1
            if bad <= 2:
                ctx.violation("correspondence-broken", "solc_json settings write/read: BundleSettings.v differs from output_bundle/vyper_json",
                              {"settings_enc": e, "model_snapshot_reader": model_json, "model_repaired_reader": model_json_fixed, "real": real_json})
        if real != model_rt or model_rt != model_norm:
            bad += 1
            if bad <= 2:
                ctx.violation("correspondence-broken", "Settings round trip: model differs from vyper.compiler.settings",
                              {"settings_enc": e, "model_roundtrip": model_rt, "model_norm": model_norm, "real_roundtrip": real})
    ctx.corr["settings_cases"] = n
    ctx.corr["solc_json_reader_matches"] = reader_matches
    if reader_matches["snapshot"] and reader_matches["repaired"]:
        ctx.violation("correspondence-broken", "vyper_json.get_settings matches neither reader model consistently", reader_matches)
    return n, bad


# --------------------------------------------------------------------------- exploration: histories
def run_session(root, jobs, hashseed, tag):
    f = root / f"session_{tag}.json"
    f.write_text(json.dumps({"root": str(root), "jobs": jobs}))
    env = dict(os.environ)
    env["PYTHONHASHSEED"] = str(hashseed)
    env["PYTHONPATH"] = str(REPO)
    env["PYTHONDONTWRITEBYTECODE"] = "1"
    p = subprocess.run([sys.executable, str(VERIF / "tools" / "vlib" / "c18_worker.py"), str(f)], env=env,
                       capture_output=True, text=True, timeout=900, cwd=str(root))
    for line in p.stdout.splitlines():
        if line.startswith("C18RESULT"):
            return json.loads(line[len("C18RESULT"):])
    raise RuntimeError(f"worker {tag} failed: {p.stdout[-500:]} {p.stderr[-1500:]}")


def part_histories(ctx, root):
    rnd = ctx.rng("hist")
    progs = list(CORPUS)
    cfgs = CFGS[:2] if ctx.tier == "quick" else CFGS

    def job(p, c, fmts):
        return {"prog": p, "target": CORPUS[p]["target"], "layout": "layout.json" if "layout" in CORPUS[p] else None,
                "paths": CORPUS[p].get("paths"), "cfg": c, "formats": fmts}
    sessions = []
    # S0 baseline: seed 0, corpus order, all formats
    sessions.append(("s0", 0, [job(p, c, FORMATS) for p in progs for c in cfgs]))
    # S1: seed 1, reversed program order, reversed format order
    sessions.append(("s1", 1, [job(p, c, FORMATS[::-1]) for p in reversed(progs) for c in reversed(cfgs)]))
    # S2: seed 2, shuffled; first a subset of formats, then everything (same process)
    sh = progs[:]
    rnd.shuffle(sh)
    j2 = []
    for p in sh:
        for c in cfgs:
            sub = rnd.sample(FORMATS, 3)
            j2.append(job(p, c, sub))
            j2.append(job(p, c, FORMATS))
    sessions.append(("s2", 2, j2))
    # S3: random seed, each program compiled after two random others, configs interleaved
    j3 = []
    for p in progs:
        for q in rnd.sample(progs, 2):
            j3.append(job(q, rnd.choice(cfgs), ["bytecode"]))
        for c in cfgs:
            j3.append(job(p, c, FORMATS))
    sessions.append(("s3", rnd.randrange(1, 2 ** 32), j3))
    # S4: every format requested alone (fresh CompilerData each), seed 3
    s4progs = progs if ctx.tier == "thorough" else ["token", "exports", "iface_json", "structs", "many_internal"]
    sessions.append(("s4", 3, [job(p, c, [f]) for p in s4progs for c in cfgs for f in FORMATS]))
    # S5/S6: the EVM target varies between compilations inside one process, in opposite orders: anything cached per
    # process from the first target compiled (e.g. the re-entrancy lock location) shows as a difference
    evs = ["prague", "shanghai", "cancun", "london"]
    efmts = ["bytecode", "bytecode_runtime", "layout", "abi"]
    eprogs = progs if ctx.tier == "thorough" else ["locked", "token", "diamond", "structs"]
    sessions.append(("s5", 4, [job(p, dict(c, evm=e), efmts) for p in eprogs for c in cfgs for e in evs]))
    sessions.append(("s6", 5, [job(p, dict(c, evm=e), efmts) for p in reversed(eprogs) for c in cfgs for e in reversed(evs)]))
    # S7: every ordered pair of output formats (what is computed first must not influence what comes second)
    pf = ["bytecode", "bytecode_runtime", "ir", "asm", "metadata", "layout", "abi"] if ctx.tier == "thorough" else \
         ["bytecode", "ir", "asm", "metadata", "layout"]
    pprogs = progs if ctx.tier == "thorough" else ["token", "iface_vyi"]
    sessions.append(("s7", 6, [job(p, c, [f, g]) for p in pprogs for c in cfgs for f in pf for g in pf if f != g]))
    if ctx.tier == "thorough":
        for k in range(4):
            sh = progs[:]
            rnd.shuffle(sh)
            sessions.append((f"s{8 + k}", rnd.randrange(1, 2 ** 32), [job(p, c, rnd.sample(FORMATS, len(FORMATS))) for p in sh for c in cfgs]))
    with ThreadPoolExecutor(max_workers=3) as ex:
        results = list(ex.map(lambda s: run_session(root, s[2], s[1], s[0]), sessions))
    ref = {}
    mismatches = collections.Counter()
    compared = 0
    compilations = 0
    for (tag, hs, jobs), res in zip(sessions, results):
        for i, jb in enumerate(jobs):
            r = res[str(i)]
            compilations += 1
            if "error" in r:
                ctx.violation("correspondence-broken", "corpus program failed to compile in a worker",
                              {"session": tag, "hashseed": hs, "job": jb, "error": r["error"]})
                return compilations, compared
            key = (jb["prog"], json.dumps(jb["cfg"], sort_keys=True))
            for fmt, val in r.items():
                if (key, fmt) not in ref:
                    ref[(key, fmt)] = (val, tag, hs, i)
                else:
                    compared += 1
                    if ref[(key, fmt)][0] != val:
                        mismatches[fmt] += 1
                        if mismatches[fmt] > 1:
                            continue
                        v0, tag0, hs0, i0 = ref[(key, fmt)]
                        files = CORPUS[jb["prog"]]["files"]
                        ctx.violation("failing-input", f"output `{fmt}` of the same input differs between two process histories",
                                      {"program": jb["prog"], "files": files, "config": jb["cfg"], "format": fmt,
                                       "run_a": {"session": tag0, "PYTHONHASHSEED": hs0, "job_index": i0, "value": v0,
                                                 "formats_requested": sessions[[s[0] for s in sessions].index(tag0)][2][i0]["formats"]},
                                       "run_b": {"session": tag, "PYTHONHASHSEED": hs, "job_index": i, "value": val,
                                                 "formats_requested": jb["formats"], "jobs_before": jobs[:i][-4:]},
                                       "note": "known minimal replay for `metadata`: compile_code(src_with___init__, output_formats=['metadata'], "
                                               "settings=Settings(experimental_codegen=True)) vs output_formats=['bytecode','metadata']: "
                                               "function_id of __init__ is 1 vs 0"},
                                      key=f"C18:nondeterministic:{fmt}")
    ctx.corr["history_mismatches"] = dict(mismatches)
    ctx.corr["history_sessions"] = len(sessions)
    ctx.corr["history_compilations"] = compilations
    ctx.corr["history_comparisons"] = compared
    ctx.corr["hash_seeds"] = [s[1] for s in sessions]
    return compilations, compared


# --------------------------------------------------------------------------- exploration: hash-seed sweep on control flow
HS_CFGS = [{"venom": False, "level": "gas"}, {"venom": True, "level": "none"}, {"venom": True, "level": "gas"},
           {"venom": True, "level": "O3"}, {"venom": True, "level": "codesize"}]
HS_FORMATS = ["bytecode", "bytecode_runtime", "asm", "metadata", "layout", "method_identifiers"]


def part_hashseeds(ctx, root):
    """the same control-flow heavy programs (several loop-carried / branch-merged locals; hand-written + seeded generator)
    under legacy and every venom level, each in fresh processes which differ ONLY in PYTHONHASHSEED (same job order)."""
    rnd = ctx.rng("hashseeds")
    progs = {k: {"target": "c.vy", "files": {"c.vy": v}} for k, v in CF_FIXED.items()}
    for i in range(4 if ctx.tier == "quick" else 40):
        progs[f"cf_gen{i}"] = {"target": "c.vy", "files": {"c.vy": gen_cf_program(rnd)}}
    # memory-heavy programs (arrays / bytestrings / DynArray in branches and loops, internal calls with memory arguments): the
    # venom memory passes (allocation order, dead-store / load elimination, mem2var) iterate over sets of variables / allocas
    from vlib.c20_cf_gen import gen_cf_mem_program
    for i in range(3 if ctx.tier == "quick" else 20):
        progs[f"cf_mem{i}"] = {"target": "c.vy", "files": {"c.vy": gen_cf_mem_program(rnd)}}
    materialize(root, progs)
    seeds = [0, 1, 2, 3] if ctx.tier == "quick" else [0, 1, 2, 3, 4, 5, 6, 7]
    jobs = [{"prog": p, "target": "c.vy", "layout": None, "paths": None, "cfg": c,
             "formats": HS_FORMATS + (["cfg_runtime"] if c["venom"] else ["ir_runtime"])} for p in progs for c in HS_CFGS]
    with ThreadPoolExecutor(max_workers=3) as ex:
        results = list(ex.map(lambda hs: run_session(root, jobs, hs, f"hs{hs}"), seeds))
    compared = 0
    reported = set()
    for i, jb in enumerate(jobs):
        r0 = results[0][str(i)]
        if "error" in r0:
            ctx.violation("correspondence-broken", "control-flow program failed to compile in a worker",
                          {"job": jb, "source": progs[jb["prog"]]["files"]["c.vy"], "error": r0["error"]})
            return len(jobs) * len(seeds), compared
        for hs, res in zip(seeds[1:], results[1:]):
            r = res[str(i)]
            for fmt in r0:
                compared += 1
                if r.get(fmt) != r0[fmt]:
                    pipeline = "venom" if jb["cfg"]["venom"] else "legacy"
                    if (fmt, pipeline) in reported:
                        continue
                    reported.add((fmt, pipeline))
                    distinct = len({json.dumps(x[str(i)].get(fmt)) for x in results})
                    ctx.violation("failing-input", f"output `{fmt}` of the same input depends on PYTHONHASHSEED of the compiler process",
                                  {"program": jb["prog"], "source": progs[jb["prog"]]["files"]["c.vy"], "config": jb["cfg"], "format": fmt,
                                   "PYTHONHASHSEED_a": seeds[0], "value_a": r0[fmt], "PYTHONHASHSEED_b": hs, "value_b": r.get(fmt),
                                   "distinct_values_over_seeds": distinct, "seeds": seeds,
                                   "replay": "PYTHONHASHSEED=<n> vyper -f " + fmt + " c.vy" + (" --experimental-codegen" if jb["cfg"]["venom"] else "")
                                             + " --optimize " + jb["cfg"]["level"]},
                                  key=f"C18:hashseed-dependent:{pipeline}:{fmt}")
    ctx.corr["hashseed_programs"] = len(progs)
    ctx.corr["hashseed_seeds"] = seeds
    ctx.corr["hashseed_compilations"] = len(jobs) * len(seeds)
    ctx.corr["hashseed_comparisons"] = compared
    return len(jobs) * len(seeds), compared


# --------------------------------------------------------------------------- exploration: the CLI entry points
def part_cli(ctx, root):
    """`vyper -f <subset/order>` and `vyper-json` in fresh processes: same bytes for the same format whatever else is requested."""
    rnd = ctx.rng("cli")
    progs = ["token", "diamond", "shadowed_paths", "iface_json"] if ctx.tier == "quick" else list(CORPUS)
    orders = ["bytecode,abi,layout", "layout,abi,bytecode", "abi", "bytecode", "bytecode_runtime,bytecode", "method_identifiers,layout"]
    env0 = dict(os.environ, PYTHONPATH=str(REPO), PYTHONDONTWRITEBYTECODE="1")
    jobs = []
    for p in progs:
        if "layout" in CORPUS[p]:
            continue
        for o in orders:
            jobs.append((p, o, rnd.choice([0, 1, rnd.randrange(2 ** 32)])))

    def run_cli(job):
        p, o, hs = job
        pr = root / p
        cmd = [sys.executable, "-m", "vyper.cli.vyper_compile", "-f", o, str(pr / CORPUS[p]["target"])]
        for sp in CORPUS[p].get("paths", ["."]):
            cmd += ["-p", str(pr / sp)]
        r = subprocess.run(cmd, env=dict(env0, PYTHONHASHSEED=str(hs)), capture_output=True, text=True, timeout=300, cwd=str(root))
        lines = [l for l in r.stdout.splitlines() if l.strip()]
        return r.returncode, lines, r.stderr[-300:]

    def run_json(p):
        pr = root / p
        srcs = {}
        for rel, txt in CORPUS[p]["files"].items():
            if rel.endswith(".json"):
                continue
            srcs[rel] = {"content": txt}
        ifaces = {rel: {"abi": json.loads(txt)} for rel, txt in CORPUS[p]["files"].items() if rel.endswith(".json")}
        target = CORPUS[p]["target"]
        inp = {"language": "Vyper", "sources": srcs, "interfaces": ifaces,
               "settings": {"outputSelection": {target: ["evm.bytecode.object", "abi"]},
                            "search_paths": ["."] + [sp for sp in CORPUS[p].get("paths", []) if sp != "."]}}
        f = root / f"stdjson_{p}.json"
        f.write_text(json.dumps(inp))
        r = subprocess.run([sys.executable, "-c", "from vyper.cli.vyper_json import _parse_cli_args; _parse_cli_args()", str(f)],
                           env=dict(env0, PYTHONHASHSEED="7"),
                           capture_output=True, text=True, timeout=300, cwd=str(root))
        try:
            out = json.loads(r.stdout)
            c = out["contracts"][target]
            c = list(c.values())[0]
            return "0x" + c["evm"]["bytecode"]["object"].removeprefix("0x"), json.dumps(c["abi"]), None
        except Exception as e:  # noqa
            return None, None, f"{type(e).__name__}: {r.stdout[-300:]} {r.stderr[-300:]}"
    with ThreadPoolExecutor(max_workers=3) as ex:
        res = list(ex.map(run_cli, jobs))
        jres = list(ex.map(run_json, [p for p in progs if "layout" not in CORPUS[p]]))
    ref = {}
    n = 0
    for (p, o, hs), (rc, lines, err) in zip(jobs, res):
        fmts = o.split(",")
        if rc != 0 or len(lines) != len(fmts):
            ctx.violation("correspondence-broken", "CLI run failed or printed an unexpected number of outputs",
                          {"program": p, "formats": o, "returncode": rc, "lines": len(lines), "stderr": err})
            return n
        for fm, val in zip(fmts, lines):
            n += 1
            if (p, fm) not in ref:
                ref[(p, fm)] = (val, o, hs)
            elif ref[(p, fm)][0] != val:
                ctx.violation("failing-input", f"`vyper -f` prints a different `{fm}` for the same input depending on the formats requested / hash seed",
                              {"program": p, "files": CORPUS[p]["files"], "format": fm,
                               "run_a": {"-f": ref[(p, fm)][1], "PYTHONHASHSEED": ref[(p, fm)][2], "value": ref[(p, fm)][0][:300]},
                               "run_b": {"-f": o, "PYTHONHASHSEED": hs, "value": val[:300]}}, key=f"C18:cli-nondeterministic:{fm}")
                return n
    for p, (bc, abi, err) in zip([p for p in progs if "layout" not in CORPUS[p]], jres):
        n += 1
        if err is not None:
            ctx.violation("correspondence-broken", "vyper-json run failed on a corpus program", {"program": p, "error": err})
            return n
        has_json = any(rel.endswith(".json") for rel in CORPUS[p]["files"])   # re-serialised by the std-json input: other integrity sum
        if (p, "bytecode") in ref and ref[(p, "bytecode")][0] != bc and not has_json:
            ctx.violation("failing-input", "vyper-json and `vyper -f bytecode` produce different bytecode for the same sources and settings",
                          {"program": p, "files": CORPUS[p]["files"], "cli": ref[(p, "bytecode")][0][:200], "vyper_json": bc[:200]},
                          key="C18:cli-vs-json-bytecode")
            return n
        if (p, "abi") in ref and json.loads(ref[(p, "abi")][0]) != json.loads(abi):
            ctx.violation("failing-input", "vyper-json and `vyper -f abi` produce different ABIs", {"program": p}, key="C18:cli-vs-json-abi")
            return n
    ctx.corr["cli_comparisons"] = n
    ctx.corr["cli_runs"] = len(jobs) + len(jres)
    return n


# --------------------------------------------------------------------------- exploration: bundles + mutation
def part_bundles(ctx, root, tmp):
    from vyper.cli.vyper_compile import compile_files
    from vyper.cli.vyper_json import compile_from_input_dict, compile_json
    from vyper.compiler.settings import OptimizationLevel, Settings
    from vyper.exceptions import JSONError
    stats = collections.Counter()
    cfgs = CFGS[:2] if ctx.tier == "quick" else CFGS

    def comp(pr, p, fmts, st, layout=True):
        lay = [str(pr / "layout.json")] if ("layout" in p and layout) else None
        with warnings.catch_warnings():
            warnings.simplefilter("ignore")
            r = compile_files([str(pr / p["target"])], fmts, paths=[str(pr / x) for x in p.get("paths", ["."])],
                              include_sys_path=False, settings=st, storage_layout_paths=lay)
        return list(r.values())[0]
    cwd = os.getcwd()
    os.chdir(str(root))
    try:
        for name, p in CORPUS.items():
            pr = root / name
            for c in cfgs:
                st = lambda: Settings(optimize=OptimizationLevel.from_string(c["level"]), experimental_codegen=c["venom"])  # noqa
                base = comp(pr, p, ["bytecode", "bytecode_runtime", "integrity"], st())
                info = {"program": name, "files": p["files"], "layout": p.get("layout"), "config": c}
                # archive
                z = tmp / f"{name}.zip"
                z.write_bytes(comp(pr, p, ["archive"], st())["archive"])
                with warnings.catch_warnings(record=True) as w:
                    warnings.simplefilter("always")
                    r2 = list(compile_files([str(z)], ["bytecode", "bytecode_runtime", "integrity"], include_sys_path=False).values())[0]
                stats["archive_roundtrips"] += 1
                if r2 != base or any("Mismatched integrity" in str(x.message) for x in w):
                    ctx.violation("failing-input", "recompiling the exported archive does not reproduce bytecode/integrity",
                                  dict(info, expected=base, got=r2), key="C18:archive-roundtrip")
                    return stats
                # solc_json
                sj = comp(pr, p, ["solc_json"], st())["solc_json"]
                sj = sj if isinstance(sj, dict) else json.loads(sj)
                sj = json.loads(json.dumps(sj))
                try:
                    with warnings.catch_warnings():
                        warnings.simplefilter("ignore")
                        res, warns = compile_from_input_dict(json.loads(json.dumps(sj)))
                except JSONError as ex:
                    stats["solc_json_rejected"] += 1
                    if stats["solc_json_rejected"] == 1:
                        ctx.violation("failing-input", "the exported solc_json bundle is rejected by vyper-json: " + str(ex)[:120],
                                      dict(info, error=str(ex), sources=list(sj["sources"]),
                                           replay="vyper -f solc_json main.vy -p libs/zvendor -p libs/avendor > b.json; vyper-json b.json"),
                                      key="C18:solc-json-stem-collision" if "namespace collision" in str(ex) else "C18:solc-json-rejected")
                    continue
                stats["solc_json_roundtrips"] += 1
                data = list(res.values())[0]
                wtxt = [str(x.message) for ws in warns.values() for x in ws]
                if data.get("bytecode") != base["bytecode"] or data.get("bytecode_runtime") != base["bytecode_runtime"] \
                        or any("Mismatched integrity" in t for t in wtxt) or sj.get("integrity") != base["integrity"]:
                    ctx.violation("failing-input", "recompiling the exported solc_json does not reproduce bytecode/integrity",
                                  dict(info, expected=base, got={k: data.get(k) for k in ("bytecode", "bytecode_runtime")},
                                       warnings=wtxt), key="C18:solc-json-roundtrip")
                    return stats
                # a tampered bundle must be noticed (integrity mismatch warning)
                if c is cfgs[0]:
                    srcs = [k for k in sj["sources"] if not k.endswith(".json") or True]
                    for victim in srcs:
                        t = json.loads(json.dumps(sj))
                        ent = t["sources"][victim]
                        if "content" in ent:
                            ent["content"] = ent["content"] + ("\n# tampered\n" if not victim.endswith(".json") else " ")
                        else:
                            continue
                        ent.pop("sha256sum", None)
                        with warnings.catch_warnings():
                            warnings.simplefilter("ignore")
                            try:
                                _, tw = compile_from_input_dict(t)
                            except Exception:
                                stats["tampered_rejected"] += 1
                                continue
                        stats["tampered_bundles"] += 1
                        if not any("Mismatched integrity" in str(x.message) for ws in tw.values() for x in ws):
                            ctx.violation("failing-input", "a bundle with a modified source recompiles without an integrity mismatch",
                                          dict(info, modified=victim), key="C18:tamper-unnoticed")
                            return stats
            # mutation on disk: every file, and the override
            st0 = Settings(optimize=OptimizationLevel.GAS, experimental_codegen=False)
            base_i = comp(pr, p, ["integrity"], st0)["integrity"]
            seen = {base_i: "original"}
            base_rt = None
            for rel in p["files"]:
                f = pr / rel
                orig = f.read_text()
                f.write_text(orig + ("\n# changed\n" if not rel.endswith(".json") else "\n"))
                try:
                    i2 = comp(pr, p, ["integrity"], Settings(optimize=OptimizationLevel.GAS, experimental_codegen=False))["integrity"]
                finally:
                    f.write_text(orig)
                stats["source_mutations"] += 1
                if i2 in seen:
                    ctx.violation("failing-input", "integrity sum unchanged after changing an imported source",
                                  {"program": name, "files": p["files"], "changed": rel, "same_as": seen[i2], "integrity": i2},
                                  key="C18:integrity-insensitive")
                    return stats
                seen[i2] = rel
                # a change of MEANING (an integer literal in a `return`): if the runtime code changes, the integrity sum must
                # differ from the original and from every other version seen
                m = re.search(r"return (\d+)\n", orig)
                if m and rel.endswith(".vy"):
                    f.write_text(orig[:m.start(1)] + str(int(m.group(1)) + 1) + orig[m.end(1):])
                    try:
                        r3 = comp(pr, p, ["integrity", "bytecode_runtime"], Settings(optimize=OptimizationLevel.GAS, experimental_codegen=False))
                    finally:
                        f.write_text(orig)
                    stats["source_mutations"] += 1
                    if base_rt is None:
                        base_rt = comp(pr, p, ["bytecode_runtime"], st0)["bytecode_runtime"]
                    if r3["bytecode_runtime"] != base_rt and r3["integrity"] in seen:
                        ctx.violation("failing-input", "runtime bytecode changed after editing an imported source but the integrity sum did not",
                                      {"program": name, "files": p["files"], "changed": rel, "edit": f"{m.group(0).strip()} -> +1",
                                       "same_integrity_as": seen[r3["integrity"]], "integrity": r3["integrity"]},
                                      key="C18:integrity-insensitive")
                        return stats
                    seen[r3["integrity"]] = rel + " (literal)"
            if "layout" in p:
                f = pr / "layout.json"
                orig = f.read_text()
                lay2 = json.loads(orig)
                k0 = sorted(lay2)[0]
                lay2[k0]["slot"] += 100
                f.write_text(json.dumps(lay2))
                try:
                    i3 = comp(pr, p, ["integrity"], Settings(optimize=OptimizationLevel.GAS, experimental_codegen=False))["integrity"]
                finally:
                    f.write_text(orig)
                i4 = comp(pr, p, ["integrity"], Settings(optimize=OptimizationLevel.GAS, experimental_codegen=False), layout=False)["integrity"]
                stats["override_mutations"] += 2
                if i3 in seen or i4 in seen or i3 == i4:
                    ctx.violation("failing-input", "integrity sum unchanged after changing / removing the layout override",
                                  {"program": name, "files": p["files"], "layout": p["layout"], "with_changed": i3, "without": i4,
                                   "original": base_i}, key="C18:integrity-insensitive-override")
                    return stats
    finally:
        os.chdir(cwd)
    # settings that change the build must survive both bundle formats (replay of bundle_roundtrip_solc_json_settings_refuted)
    from vyper.compiler.settings import VenomOptimizationFlags
    vdir = tmp / "settings_variants"
    vdir.mkdir()
    (vdir / "d.vy").write_text("x: public(uint256)\n@internal\ndef _h(a: uint256) -> uint256:\n    return a * 2 + self.x\n"
                               "@external\ndef f(a: uint256) -> uint256:\n    self.x = self._h(a) + self._h(a + 1)\n"
                               "    b: uint256 = a * 3\n    c: uint256 = a * 3\n    return self.x + b + c\n")
    (vdir / "c.vy").write_text("@external\ndef f(a: uint256) -> uint256:\n    assert 1 == 2\n    return a\n")
    G = OptimizationLevel.GAS
    variants = [
        ("venom_flags(disable_inlining, disable_cse)", "d.vy", lambda: Settings(experimental_codegen=True, optimize=G, venom_flags=VenomOptimizationFlags(level=G, disable_inlining=True, disable_cse=True)), lambda: Settings(experimental_codegen=True, optimize=G)),
        ("venom_flags(disable_sccp, disable_mem2var)", "d.vy", lambda: Settings(experimental_codegen=True, optimize=G, venom_flags=VenomOptimizationFlags(level=G, disable_sccp=True, disable_mem2var=True)), lambda: Settings(experimental_codegen=True, optimize=G)),
        ("disable_static_exceptions", "c.vy", lambda: Settings(disable_static_exceptions=True), lambda: Settings()),
        ("debug", "d.vy", lambda: Settings(debug=True), lambda: Settings()),
        ("evm_version=london", "d.vy", lambda: Settings(evm_version="london"), lambda: Settings()),
        ("optimize=none", "d.vy", lambda: Settings(optimize=OptimizationLevel.NONE), lambda: Settings()),
    ]

    def one(src, st, fmts):
        import contextlib
        import io
        with warnings.catch_warnings(), contextlib.redirect_stdout(io.StringIO()), contextlib.redirect_stderr(io.StringIO()):
            warnings.simplefilter("ignore")
            return list(compile_files([str(vdir / src)], fmts, paths=[str(vdir)], include_sys_path=False, settings=st).values())[0]
    os.chdir(str(vdir))
    try:
        for name, src, mk, mk0 in variants:
            try:
                base, plain = one(src, mk(), ["bytecode"])["bytecode"], None
                try:
                    plain = one(src, mk0(), ["bytecode"])["bytecode"]
                except Exception:  # noqa
                    plain = "rejected"
            except Exception as ex:  # noqa
                ctx.violation("correspondence-broken", "settings-variant program does not compile", {"variant": name, "error": str(ex)[:200]})
                continue
            if base == plain:
                stats["settings_variant_without_effect"] += 1
                continue
            z = tmp / "variant.zip"
            z.write_bytes(one(src, mk(), ["archive"])["archive"])
            try:
                ba = one(str(z), None, ["bytecode"])["bytecode"]
            except Exception as ex:  # noqa
                ba = f"rejected: {type(ex).__name__}"
            # the same archive through the real command line (`vyper -f bytecode variant.zip`, a fresh process): the CLI builds its
            # own Settings object from its (absent) flags and merges it with the bundle's settings -- the defaults of the command
            # line must not override what the bundle recorded
            try:
                rc = subprocess.run([sys.executable, "-m", "vyper.cli.vyper_compile", "-f", "bytecode", str(z)], capture_output=True, text=True,
                                    timeout=300, cwd=str(vdir), env=dict(os.environ, PYTHONPATH=str(REPO), PYTHONDONTWRITEBYTECODE="1"))
                bc = ([l.strip() for l in rc.stdout.splitlines() if l.strip().startswith("0x")] or [f"rejected: rc={rc.returncode} {rc.stderr[-120:]}"])[-1]
            except Exception as ex:  # noqa
                bc = f"rejected: {type(ex).__name__}"
            stats["settings_variant_roundtrips"] += 1
            if bc != base:
                ctx.violation("failing-input", f"`vyper variant.zip` (command line) does not reproduce a build made with {name}",
                              {"variant": name, "source": (vdir / src).read_text(), "original": base[:120], "from_bundle_via_cli": str(bc)[:160],
                               "replay": "vyper -f archive <flags> d.vy > variant.zip (base64-decoded); vyper -f bytecode variant.zip"},
                              key="C18:archive-drops-settings:cli")
            sj = one(src, mk(), ["solc_json"])["solc_json"]
            sj = sj if isinstance(sj, dict) else json.loads(sj)
            try:
                import contextlib
                import io
                with warnings.catch_warnings(), contextlib.redirect_stdout(io.StringIO()), contextlib.redirect_stderr(io.StringIO()):
                    warnings.simplefilter("ignore")
                    res, _ = compile_from_input_dict(json.loads(json.dumps(sj)))
                bj = list(res.values())[0].get("bytecode")
            except Exception as ex:  # noqa
                bj = f"rejected: {type(ex).__name__}: {str(ex)[:80]}"
            stats["settings_variant_roundtrips"] += 2
            if ba != base:
                ctx.violation("failing-input", f"archive bundle does not reproduce a build made with {name}",
                              {"variant": name, "source": (vdir / src).read_text(), "original": base[:120], "from_bundle": str(ba)[:120]},
                              key="C18:archive-drops-settings")
            if bj != base:
                stats["solc_json_drops_settings"] += 1
                if stats["solc_json_drops_settings"] == 1:
                    ctx.violation("failing-input", f"solc_json bundle does not reproduce a build made with {name}: the setting is lost on re-import",
                                  {"variant": name, "source": (vdir / src).read_text(), "exported_settings": sj.get("settings"),
                                   "original": base[:120], "from_bundle": str(bj)[:160],
                                   "replay": "vyper -f solc_json (with the setting) > b.json; vyper-json b.json: different bytecode"},
                                  key="C18:solc-json-drops-settings")
    finally:
        os.chdir(cwd)
    # the collision shape forced by the missing domain separation (override_vs_none_separated): a module whose text
    # is the override JSON -- must not be a compilable module
    from vyper.compiler import compile_code
    from vyper.exceptions import VyperException
    try:
        with warnings.catch_warnings():
            warnings.simplefilter("ignore")
            compile_code(json.dumps(CORPUS["with_layout"]["layout"]), output_formats=["bytecode"])
        stats["override_text_is_a_module"] += 1
    except VyperException:
        stats["override_text_rejected_as_module"] += 1
    return stats


def run(ctx):
    b = ctx.coq_build(["C18/Integrity.v", "C18/IntegrityProofs.v", "C18/SettingsModel.v", "C18/SettingsProofs.v", "C18/Anonymize.v",
                       "C18/BundleSettings.v", "C18/BundleSettingsProofs.v", "C18/PropsC18.v"])
    tmp = Path(tempfile.mkdtemp(prefix="c18_"))
    found_before = len(ctx.violations)
    try:
        root = tmp / "root"
        materialize(root)
        n_i = n_s = bad = 0
        if (coqrun.COQ / "C18" / "Integrity.vo").exists():
            n_i, b1 = part_integrity(ctx, tmp)
            bad += b1
        if (coqrun.COQ / "C18" / "SettingsModel.vo").exists():
            n_s, b2 = part_settings(ctx)
            bad += b2
        n_a = 0
        if (coqrun.COQ / "C18" / "Anonymize.vo").exists():
            n_a, b3 = part_anonymize(ctx, tmp)
            bad += b3
        comps, compared = part_histories(ctx, root)
        c2, cmp2 = part_hashseeds(ctx, root)
        comps += c2
        compared += cmp2
        stats = part_bundles(ctx, root, tmp)
        n_cli = part_cli(ctx, root)
    finally:
        shutil.rmtree(tmp, ignore_errors=True)
    if not b["ok"] and len(ctx.violations) == found_before:
        ctx.violation("theorem-broken", f"{b.get('failed_lemma')} in {b['file']}",
                      {"theorem": b.get("failed_lemma"), "file": b["file"], "coq_output": b["out"][-1500:]})
    ctx.corr.update({k: int(v) for k, v in stats.items()})
    ctx.corr["evaluations"] = n_i + n_s + n_a + compared + sum(stats.values()) + n_cli
    ctx.corr["distinct_nontrivial"] = n_i + n_s + n_a + comps + sum(stats.values())
    ctx.corr["rule"] = ("integrity DAGs + settings values compared model-vs-code (distinct inputs); history compilations = distinct "
                        "(program, config, session position); comparisons = per output format against the first occurrence")
    ctx.extra["explanation"] = (
        "PROVED (Coq, all inputs, under the stated SHA-256 hypotheses): integrity_injective, override_changes_hash, "
        "override_vs_none_separated, settings_roundtrip(+_exact,+_stable); anonymize_injective_on_inputs is REFUTED (witness replayed on "
        "the compiler) and proved only for paths without all-digit segments; tied to the code by evaluating the model's hashing "
        f"expression with real sha256 on {n_i} generated import DAGs (also comparing which strings the real code hashes, in order) "
        f"and by a{'n exhaustive' if ctx.tier == 'thorough' else ' (quick tier: level-stratified)'} differential of {n_s} Settings values. EXPLORED ONLY (no theorem possible about interpreter state): "
        f"{comps} compilations of {len(CORPUS)} corpus programs in {ctx.corr.get('history_sessions')} fresh processes under "
        f"PYTHONHASHSEED {ctx.corr.get('hash_seeds')}, different compile histories and output-format orders/subsets, "
        f"{compared} byte comparisons (of which a hash-seed sweep: {ctx.corr.get('hashseed_programs')} control-flow heavy programs "
        f"with several loop-carried / branch-merged locals, legacy + venom at every level, identical job lists in fresh processes "
        f"under PYTHONHASHSEED {ctx.corr.get('hashseed_seeds')}); {stats.get('archive_roundtrips', 0)} archive and {stats.get('solc_json_roundtrips', 0)} "
        f"solc_json export->recompile round trips; {stats.get('source_mutations', 0)} source and {stats.get('override_mutations', 0)} "
        f"override mutations each changing the integrity sum; {stats.get('tampered_bundles', 0)} tampered bundles flagged; "
        f"{ctx.corr.get('cli_runs')} runs of the CLI entry points (`vyper -f` with different subsets/orders under different hash seeds, "
        f"vyper-json on the same sources), {n_cli} output comparisons.")
    ctx.extra["exploration_counts"] = {"compilations": comps, "comparisons": compared, **{k: int(v) for k, v in stats.items()}}
    ctx.trusted += ["Coq 8.16.1 kernel + vm_compute", "hashlib.sha256", "zipfile / json libraries (bundle syntax)",
                    "hand models coq/C18/Integrity.v, SettingsModel.v tied by differential each run"]
    ctx.assumptions += ["H_inj: SHA-256 is collision-free (Section hypothesis of integrity_injective / override_*; false of any real hash "
                        "by pigeonhole, the usual idealisation)", "H_len: digests are 64 characters; H_hex: digests start with a hex digit "
                        "(both checked on every digest the harness computes)",
                        "wf: JSON ABI inputs do not start with a hex digit ('[' or '{')"]
