"""C14L: test driver for the small rewriting passes part of C14 (helper; the real entry is tools/checks/c14.py)."""
LEVEL = "proof"
META = {"not_applicable": "helper part of C14"}


def prebuild(ctx):
    from vlib import c14l_part
    return c14l_part.prebuild(ctx)


def run(ctx):
    from vlib import c14l_part
    ctx.is_known = lambda key: next((f for f in ctx.known.get("findings", []) if f.get("property") == "C14"
                                     and f.get("key") == key and f.get("status") == "open"), None)
    n = c14l_part.part_small_passes(ctx)
    ctx.corr["evaluations"] = n
    ctx.corr["distinct_nontrivial"] = n
    ctx.corr["rule"] = ("one case per family member (literal / CFG shape x condition x revert-block shape / assertion chain x in-between "
                        "instruction x message), per validated corpus invocation, per back-end run")
