"""C08: side effects exactly once, in source order (VyCore trace laws + position x effect matrix differential)."""
import time

from vlib import c01_driver as D
from vlib import c01_harness as H
from vlib.c08_gen import build_one, build_group, Builder
from vlib.configs import compile_src
from vlib.configs import configs, Config, USABLE_FLAGS

LEVEL = "proof"
META = {
    "category": "proof",
    "text": "Theorems about the reference source semantics VyCore (coq/C01/VyCore.v) whose every evaluation returns its ordered "
            "effect trace: the trace of each compound form is the concatenation of the traces of its evaluated sub-expressions "
            "in source order, each exactly once (operands, call arguments, RHS before target, iterable once), short-circuited "
            "operands contribute nothing, callees run on fresh by-value locals and cannot change the caller's. The compiler is "
            "tied to this per program: a position x effect-kind matrix (every sub-expression logs a unique tag) is compiled under "
            "every configuration incl. each --disable flag and the ordered logs / return data / final state are compared with "
            "the model. Partial: the compiler is checked on the matrix, not proved.",
    "level_note": "Trusted: Coq kernel + vm_compute; VyCore.v as the reading of the documented evaluation order; pyrevm. "
                  "For builtin/log arguments (order documented as unspecified) only exactly-once (multiset of tags) is required.",
    "technique": "Coq proofs over the reference semantics' effect trace + differential on a position x effect matrix under all configurations",
}

COQ_FILES = ["C01/VyCore.v", "C01/VyWf.v", "C01/VyShow.v", "C01/VyLaws.v", "C08/PropsC08.v"]


def c08_configs(tier):
    cfgs = list(configs(tier))
    names = {c.name for c in cfgs}
    extra = [Config(True, "gas", "prague", flags=[f]) for f in USABLE_FLAGS]
    if tier == "thorough":
        extra += [Config(True, "O3", "cancun", flags=[f]) for f in USABLE_FLAGS]
        extra += [Config(True, "codesize", "prague", flags=[f]) for f in USABLE_FLAGS]
    for c in extra:
        if c.name not in names:
            cfgs.append(c)
            names.add(c.name)
    return cfgs


def run(ctx):
    b = ctx.coq_build(COQ_FILES)
    if not b["ok"]:
        ctx.violation("theorem-broken", f"{b.get('failed_lemma')} in {b['file']}",
                      {"theorem": b.get("failed_lemma"), "file": b["file"], "coq_output": b["out"][-1500:]})
        if "PropsC08" not in b["file"] and "VyLaws" not in b["file"]:
            return
    t0 = time.time()
    rounds = 2 if ctx.tier == "quick" else 12
    mk = lambda salt: ctx.rng("matrix:" + salt)
    # classify every (position, round) by which front end accepts it (a rejection is a compile-time outcome, not an effect-order
    # violation; it is recorded in the evidence)
    ref = {"legacy": Config(False, "gas", "prague"), "venom": Config(True, "gas", "prague")}
    classes = {}
    rejected_positions = {}
    for rnd in range(rounds):
        for pos in Builder.POSITIONS:
            src = build_one(mk, pos, rnd).p.vy()
            acc = []
            for pipe, cfg in ref.items():
                try:
                    compile_src(src, cfg, formats=("bytecode",))
                    acc.append(pipe)
                except Exception as e:
                    rejected_positions.setdefault(pos, {})[pipe] = f"{type(e).__name__}: {str(e).strip().splitlines()[0][:120]}"
            if acc:
                classes.setdefault(tuple(acc), []).append((pos, rnd))
    items = []
    for acc, lst in sorted(classes.items()):
        for k in range(0, len(lst), 10):
            p, unordered, labels = build_group(mk, lst[k:k + 10])
            calls = [H.Call(i, []) for i in range(len(p.exts))]
            items.append({"prog": p, "calls": calls, "unordered": {i for i, u in unordered.items() if u}, "labels": labels,
                          "applicable": (lambda c, acc=acc: ("venom" if c.venom else "legacy") in acc)})
    models = H.model_eval([(it["prog"], it["calls"]) for it in items], "c08", full=True)
    n_events = 0
    n_model_reverts = 0
    for it, m in zip(items, models):
        it["model"] = m
        for r in m[0]:
            if r[0] == "ok":
                n_events += len(r[2])
            elif r[0] == "revert":
                n_model_reverts += 1
            else:
                ctx.violation("correspondence-broken", "VyCore does not evaluate a matrix program to a value",
                              {"result": str(r), "source": it["prog"].vy()[:3000]})
                return
    cfgs = c08_configs(ctx.tier)
    obs = D.observe_all(items, cfgs, procs=3)
    n_cmp = 0
    rejected = {}
    reported = 0
    per_position = {}
    for i, it in enumerate(items):
        for j, cfg in enumerate(cfgs):
            if (i, j) not in obs:
                continue
            st, o = obs[(i, j)]
            if st == "exc":
                rejected[o[0]] = rejected.get(o[0], 0) + 1
                if reported < 3:
                    reported += 1
                    ctx.violation("correspondence-broken", f"matrix program does not compile under {cfg.name}: {o[0]}",
                                  {"config": cfg.name, "exception": o[0], "message": o[1], "source": it["prog"].vy()})
                continue
            n_cmp += len(it["calls"])
            d = H.compare(it["prog"], it["calls"], it["model"], o, unordered=it["unordered"])
            for lab in it["labels"]:
                key = lab.split("_", 1)[1]
                per_position[key] = per_position.get(key, 0) + 1
            if d is not None and reported < 3:
                reported += 1
                fname = it["labels"][d["call"]] if "call" in d else None
                # isolate the failing test function for the report
                src = it["prog"].vy()
                mres = it["model"][0][d["call"]] if "call" in d else None
                detail = {"config": cfg.name, "difference": d, "function": fname,
                          "model_trace": str(mres[2]) if mres and mres[0] == "ok" else str(mres),
                          "source": src,
                          "calls": [f.abi_sig() for f in it["prog"].exts[:(d.get("call", 0) + 1)]],
                          "rule": "VyCore evaluation order (theorem eval_once_in_order): each tagged sub-expression exactly once, "
                                  "in source order; expected = model, observed = EVM"}
                ctx.violation("failing-input", f"effect order/count differs from source order in {fname} under {cfg.name}",
                              detail, key=f"C08:{(fname or '').split('_', 1)[-1]}:{cfg.name}")
    ctx.corr["evaluations"] = n_cmp
    ctx.corr["distinct_nontrivial"] = sum(len(it["calls"]) for it in items) * len(cfgs)
    ctx.corr["rule"] = ("one evaluation = one matrix test function executed under one configuration and compared (ordered logs, "
                        "return data, final storage); distinct = distinct (test function, configuration) pairs")
    ctx.corr["positions"] = Builder.POSITIONS
    ctx.corr["per_position_runs"] = per_position
    ctx.corr["model_trace_events"] = n_events
    ctx.corr["model_reverts"] = n_model_reverts
    ctx.corr["configs"] = [c.name for c in cfgs]
    ctx.corr["compile_rejections"] = rejected
    ctx.corr["positions_rejected_by_a_front_end"] = rejected_positions
    ctx.corr["not_in_matrix"] = ["keyword defaults", "slice bounds", "external calls", "revert reason arguments",
                                 "aug-assignment to an array element with an effectful RHS (rejected by the compiler)"]
    ctx.corr["seconds"] = round(time.time() - t0, 1)
    it = items[0]
    ctx.samples.append({"function": it["labels"][0], "model": str(it["model"][0][0])[:300]})
    ctx.trusted += ["Coq 8.16.1 kernel + vm_compute", "coq/C01/VyCore.v as the reading of the documented evaluation order",
                    "pyrevm (EVM)", "eth_abi"]
    ctx.assumptions += ["theorems are about the reference semantics; the compiler is tied to it on the matrix programs only"]
