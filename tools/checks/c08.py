"""C08: side effects exactly once, in source order (VyCore trace laws + position x effect matrix differential)."""
import time

from vlib import c01_driver as D
from vlib import c01_harness as H
from vlib.c08_gen import build_one, build_group, Builder, RVE_POSITIONS, uses_tra
from vlib.configs import compile_src
from vlib.configs import configs, Config, USABLE_FLAGS

LEVEL = "proof"
META = {
    "category": "proof",
    "text": "Theorems about the reference source semantics VyCore (coq/C01/VyCore.v) whose every evaluation returns its ordered "
            "effect trace: the trace of each compound form is the concatenation of the traces of its evaluated sub-expressions "
            "in source order, each exactly once (operands, call arguments, RHS before target, iterable once), short-circuited "
            "operands contribute nothing, callees run on fresh by-value locals and cannot change the caller's. The compiler is "
            "tied to this per program: a position x effect-kind matrix (every sub-expression logs a unique tag) is compiled under "
            "every configuration incl. each --disable flag and the ordered logs / return data / final state are compared with "
            "the model. Partial: the compiler is checked on the matrix, not proved.",
    "level_note": "Trusted: Coq kernel + vm_compute; VyCore.v as the reading of the documented evaluation order; pyrevm. "
                  "For builtin/log arguments (order documented as unspecified) only exactly-once (multiset of tags) is required.",
    "technique": "Coq proofs over the reference semantics' effect trace + differential on a position x effect matrix under all configurations",
}

COQ_FILES = ["C01/VyCore.v", "C01/VyWf.v", "C01/VyShow.v", "C01/VyLaws.v", "C08/PropsC08.v"]


VALUE_ORDER_FREE = {"aug_scalar", "aug_scalar_bit"}


def finding_key(fname, cfg):
    """stable key per root cause (pipeline x position class), independent of level / EVM target / seed"""
    pipe = "venom" if cfg.venom else "legacy"
    lab = fname.split("_", 1)[1] if "_" in fname else fname
    if lab.startswith("cmp_") or lab == "if_cond":
        cls = "compare-operands"
    elif lab in ("binop_BOr", "binop_BAnd", "binop_BXor"):
        cls = "bitwise-operands"
    elif lab.startswith("binop_") or lab == "binop_nested":
        cls = "arithmetic-operands"
    elif lab.startswith("bool"):
        cls = "boolop"
    elif lab.startswith("append_arg"):
        cls = "append-argument-changes-length"
    elif lab.startswith("callarg_"):
        cls = "callarg-literal-or-nested-calls"
    elif lab.startswith("rve_"):
        # left operand reads mutable state (storage / transient / len / map / array / struct field / self.balance), the right
        # operand is a call changing it: one key per kind of compound form
        cx = lab[4:].rsplit("_", 1)[0]
        cls = "read-vs-effect:" + {"add": "arithmetic", "sub": "arithmetic", "mul": "arithmetic", "div": "arithmetic",
                                   "mod": "arithmetic", "aug": "arithmetic", "cmp": "compare", "bit": "bitwise", "and": "boolop",
                                   "or": "boolop", "max": "builtin", "min": "builtin", "list": "constructor",
                                   "struct": "constructor"}.get(cx, cx)
    else:
        cls = lab
    return f"C08:{pipe}:{cls}"


def c08_configs(tier):
    cfgs = list(configs(tier))
    names = {c.name for c in cfgs}
    extra = [Config(True, "gas", "prague", flags=[f]) for f in USABLE_FLAGS]
    if tier == "thorough":
        extra += [Config(True, "O3", "cancun", flags=[f]) for f in USABLE_FLAGS]
        extra += [Config(True, "codesize", "prague", flags=[f]) for f in USABLE_FLAGS]
    for c in extra:
        if c.name not in names:
            cfgs.append(c)
            names.add(c.name)
    return cfgs


def handle_diff(ctx, it, cfg, d, mk, seen_keys, aug_value_diffs):
    if it["value_order_free"] and d["what"] in ("return-data", "final-storage"):
        # aug-assignment: only exactly-once is demanded (the ordered logs matched); the value order is C02's subject
        aug_value_diffs[cfg.name] = aug_value_diffs.get(cfg.name, 0) + 1
        return
    if "call" not in d:
        # final storage differs although every call's status/return/logs matched (or were reported): report once per pipeline
        fname = "(final storage)"
    else:
        fname = it["labels"][d["call"]]
    key = finding_key(fname, cfg)
    if key in seen_keys:
        seen_keys[key] += 1
        return
    seen_keys[key] = 1
    if len(seen_keys) > 10:
        return
    detail = {"config": cfg.name, "difference": d, "function": fname,
              "rule": "VyCore evaluation order (theorem eval_once_in_order / pass_by_value): each tagged sub-expression exactly "
                      "once, in source order; expected = model, observed = EVM"}
    try:
        pos, rnd = it["group"][d["call"]]
        single = build_one(mk, pos, rnd).p
        calls1 = [H.Call(0, [], value=single.c08_values.get(0, 0))]
        m1 = H.model_eval([(single, calls1)], "c08s", full=True, procs=1)[0]
        o1 = H.observe(single, cfg, calls1, single.vy(prune=True))
        d1 = H.compare(single, calls1, m1, o1, unordered={0} if d["call"] in it["unordered"] else ())
        if d1 is not None:
            out = []
            single.exts[0].vy(out)
            detail.update({"source": single.vy(prune=True), "test_function": "\n".join(out), "difference": d1,
                           "call": single.exts[0].abi_sig(), "model_trace": str(m1[0][0][2]) if m1[0][0][0] == "ok" else str(m1[0][0])})
    except Exception as e:
        detail["isolation_failed"] = f"{type(e).__name__}: {e}"
    if "source" not in detail:
        detail["source"] = it["prog"].vy()
        detail["calls"] = [f.abi_sig() for f in it["prog"].exts[:(d.get("call", 0) + 1)]]
    ctx.violation("failing-input", f"effect order/count differs from source order in {fname} under {cfg.name}", detail, key=key)


_CLS = None


def _classify(job):
    """which reference front end accepts this (position, round) built alone"""
    pos, rnd = job
    mk, ref = _CLS
    src = build_one(mk, pos, rnd).p.vy()
    acc, rej = [], {}
    for pipe, cfg in ref.items():
        try:
            compile_src(src, cfg, formats=("bytecode",))
            acc.append(pipe)
        except Exception as e:
            rej[pipe] = f"{type(e).__name__}: {str(e).strip().splitlines()[0][:120]}"
    return pos, rnd, acc, rej


def run(ctx):
    from vlib.c01_replay import replay
    if replay(ctx):
        return
    b = ctx.coq_build_cached(COQ_FILES)
    if not b["ok"]:
        ctx.violation("theorem-broken", f"{b.get('failed_lemma')} in {b['file']}",
                      {"theorem": b.get("failed_lemma"), "file": b["file"], "coq_output": b["out"][-1500:]})
        if "PropsC08" not in b["file"] and "VyLaws" not in b["file"]:
            return
    t0 = time.time()
    rounds = 1 if ctx.tier == "quick" else 8
    mk = lambda salt: ctx.rng("matrix:" + salt)
    # classify every (position, round) by which front end accepts it (a rejection is a compile-time outcome, not an effect-order
    # violation; it is recorded in the evidence)
    ref = {"legacy": Config(False, "gas", "prague"), "venom": Config(True, "gas", "prague")}
    classes = {}
    rejected_positions = {}
    # read-vs-effect matrix (compound form x kind of state read): complete in the thorough tier; the quick tier takes one
    # third of it, rotating with the seed (every compound form and every read kind is present in every run)
    nr = len(Builder.RVE_READS)
    rve = [p for k, p in enumerate(RVE_POSITIONS) if ctx.tier != "quick" or (k // nr + k % nr + ctx.seed) % 3 == 0]
    positions = list(Builder.POSITIONS) + rve + list(Builder.RVE_CPLX)
    jobs = [(pos, rnd) for rnd in range(rounds) for pos in positions
            if not (pos.startswith("rve_") and rnd >= 2)]     # the read-vs-effect tests have (almost) no random choices
    global _CLS
    _CLS = (mk, ref)
    import multiprocessing as mp
    with mp.get_context("fork").Pool(4) as pool:
        done = pool.map(_classify, jobs, chunksize=4)
    for pos, rnd, acc, rej in done:
        if rej:
            rejected_positions.setdefault(pos, {}).update(rej)
        if acc:
            classes.setdefault((tuple(acc), pos in VALUE_ORDER_FREE, uses_tra(pos)), []).append((pos, rnd))
    items = []
    for (acc, vfree, tra), lst in sorted(classes.items()):
        for k in range(0, len(lst), 10):
            p, unordered, labels = build_group(mk, lst[k:k + 10])
            calls = [H.Call(i, [], value=p.c08_values.get(i, 0)) for i in range(len(p.exts))]
            items.append({"prog": p, "calls": calls, "group": lst[k:k + 10], "unordered": {i for i, u in unordered.items() if u}, "labels": labels, "value_order_free": vfree,
                          "applicable": (lambda c, acc=acc, p=p: ("venom" if c.venom else "legacy") in acc and D.cfg_applicable(p, c))})
    models = H.model_eval([(it["prog"], it["calls"]) for it in items], "c08", full=True)
    n_events = 0
    n_model_reverts = 0
    for it, m in zip(items, models):
        it["model"] = m
        for r in m[0]:
            if r[0] == "ok":
                n_events += len(r[2])
            elif r[0] == "revert":
                n_model_reverts += 1
            else:
                ctx.violation("correspondence-broken", "VyCore does not evaluate a matrix program to a value",
                              {"result": str(r), "source": it["prog"].vy()[:3000]})
                return
    cfgs = c08_configs(ctx.tier)
    if ctx.tier == "quick":
        # time budget: every bundle under the base configurations plus 3 of the single-flag ones (rotating with bundle and seed)
        n_base = len(configs(ctx.tier))
        n_extra = len(cfgs) - n_base
        for bi, it in enumerate(items):
            keep = {cfgs[n_base + (bi * 3 + ctx.seed + k) % n_extra].name for k in range(3)} if n_extra else set()
            base_names = {c.name for c in cfgs[:n_base]}
            prev = it["applicable"]
            it["applicable"] = (lambda c, prev=prev, keep=keep, base_names=base_names: prev(c) and (c.name in base_names or c.name in keep))
    obs = D.observe_all(items, cfgs, procs=4)
    n_cmp = 0
    rejected = {}
    rejected_src = {}
    per_position = {}
    seen_keys = {}
    aug_value_diffs = {}
    for i, it in enumerate(items):
        for j, cfg in enumerate(cfgs):
            if (i, j) not in obs:
                continue
            st, o = obs[(i, j)]
            if st == "exc":
                # the reference configuration of this pipeline accepted the program: a crash under another level / flag is a
                # configuration-dependent outcome (reported by C02), not an effect-order observation
                rk = f"{o[0]}: {(o[1].strip().splitlines() or [''])[0][:80]}"
                rejected.setdefault(rk, []).append(cfg.name)
                rejected_src.setdefault(rk, it["prog"].vy(prune=True))
                continue
            n_cmp += len(it["calls"])
            for lab in it["labels"]:
                key = lab.split("_", 1)[1]
                per_position[key] = per_position.get(key, 0) + 1
            diffs = H.compare_all(it["prog"], it["calls"], it["model"], o, unordered=it["unordered"])
            # every differing test function is looked at (a known finding must not mask another test in the same bundle)
            for d in diffs:
                handle_diff(ctx, it, cfg, d, mk, seen_keys, aug_value_diffs)
    # contract creation whose constructor re-enters the creator (source-order oracle, every configuration, not sampled)
    from vlib.c08_create import run_family
    n_create, create_rej = run_family(ctx, list(configs(ctx.tier)) if ctx.tier == "quick" else cfgs)
    n_cmp += n_create
    ctx.corr["create_family"] = {"comparisons": n_create, "compile_rejections": create_rej,
                                 "tests": "store/aug/loop-store/read around create_from_blueprint x scalar, transient, array element, "
                                          "map element, struct field; constructor staticcalls back (and pokes)"}
    # plain assignment whose TARGET index / key expression mutates the value being assigned (right-hand side first)
    from vlib.c08_target import run_family as run_target_family
    n_target, target_rej = run_target_family(ctx, list(configs(ctx.tier)) if ctx.tier == "quick" else cfgs)
    n_cmp += n_target
    ctx.corr["assign_target_family"] = {"comparisons": n_target, "compile_rejections": target_rej}
    ctx.corr["distinct_findings"] = seen_keys
    ctx.corr["aug_assign_value_order_differences_by_config"] = aug_value_diffs
    ctx.corr["evaluations"] = n_cmp
    ctx.corr["distinct_nontrivial"] = sum(len(it["calls"]) for it in items) * len(cfgs)
    ctx.corr["rule"] = ("one evaluation = one matrix test function executed under one configuration and compared (ordered logs, "
                        "return data, final storage); distinct = distinct (test function, configuration) pairs")
    ctx.corr["positions"] = positions
    ctx.corr["per_position_runs"] = per_position
    ctx.corr["model_trace_events"] = n_events
    ctx.corr["model_reverts"] = n_model_reverts
    ctx.corr["configs"] = [c.name for c in cfgs]
    ctx.corr["compile_rejections"] = rejected
    ctx.corr["positions_rejected_by_a_front_end"] = rejected_positions
    ctx.corr["not_in_matrix"] = ["keyword defaults", "slice bounds", "external calls", "revert reason arguments",
                                 "aug-assignment to an array element with an effectful RHS (rejected by the compiler)"]
    ctx.corr["seconds"] = round(time.time() - t0, 1)
    it = items[0]
    ctx.samples.append({"function": it["labels"][0], "model": str(it["model"][0][0])[:300]})
    ctx.trusted += ["Coq 8.16.1 kernel + vm_compute", "coq/C01/VyCore.v as the reading of the documented evaluation order",
                    "pyrevm (EVM)", "eth_abi"]
    ctx.assumptions += ["theorems are about the reference semantics; the compiler is tied to it on the matrix programs only"]


def prebuild(ctx):
    """Called by setup_cmd: compile the static development once (content-keyed reuse afterwards)."""
    ctx.coq_build_cached(COQ_FILES)
