"""C01VS: helper part of C01 (statement lowering of the Venom front end: model, O-tie, theorem); runnable on its own:
python3 tools/check.py C01VS --tier quick.  Not registered (the coordinator calls vlib.c01v_stmt.part_vstmt from c01.py)."""
from vlib import c01v_stmt

LEVEL = "proof"
META = {"not_applicable": "helper part of C01"}


def prebuild(ctx):
    c01v_stmt.prebuild(ctx)


def run(ctx):
    n = c01v_stmt.part_vstmt(ctx)
    ctx.corr["evaluations"] = n
    ctx.corr["distinct_nontrivial"] = n
    ctx.corr["rule"] = "random function bodies compiled by the real Venom front end and compared with the model (vm_compute) + EVM runs"
