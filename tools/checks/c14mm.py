"""C14MM: test driver for the MemMergePass part of C14 (helper; the real entry is tools/checks/c14.py)."""
LEVEL = "proof"
META = {"not_applicable": "helper part of C14"}


def prebuild(ctx):
    from vlib import c14mm_part
    return c14mm_part.prebuild(ctx)


def run(ctx):
    from vlib import c14mm_part
    ctx.is_known = lambda key: next((f for f in ctx.known.get("findings", []) if f.get("property") == "C14"
                                     and f.get("key") == key and f.get("status") == "open"), None)
    n = c14mm_part.part_memmerge(ctx)
    ctx.corr["evaluations"] = n
    ctx.corr["distinct_nontrivial"] = n
    ctx.corr["rule"] = "one case per family member (search) + one per accepted changed block (validator)"
