"""C07: calls are dispatched to exactly the function whose selector they carry.

1. Coq: model of jumptable_utils (C07/Jumptable.v) with theorems (perfect hash, partition), spec_dispatch and
   models of the six emitted dispatchers (C07/Dispatch.v) proved equal to the spec for all tables/calldata/values.
2. Tie (tables): model vs the real jumptable_utils functions, exact output, on exhaustive small + seeded random id sets.
3. Tie (dispatcher): real compiler + pyrevm on generated contracts vs spec_dispatch evaluated in Coq (vm_compute);
   call values: boundary-biased family (vlib/c07_pay.py value_family), not just 0/1.
4. Payability guard: Coq templates of the emitted entry checks (C07/PayGuard.v; C07_nonpayable_refuses_any_value in
   C07/PropsPay.v) matched syntactically against the IR of the six real selector-section generators (vlib/c07_pay.py).
5. Mutability: every entry point (incl. __default__, constructor) draws its decorator from payable / nonpayable / none /
   view / pure; expected payability comes from the decorator TEXT (c07_gen.deco_payable / check_source_payability) and,
   for the __default__ / constructor template, from C07/Mutability.v mut_payable (theorems in C07/PropsMut.v).
"""
import itertools
import time

from vlib import c07_gen as G
from vlib import c07_pay as P
from vlib import configs, coqrun, evm
from vlib.common import COQ

LEVEL = "proof"
META = {
    "category": "proof",
    "text": "Coq theorems: the selector-table builders of jumptable_utils return perfect hashes / partitions whenever "
            "they return (kernels regenerated from the source on every run and proved equal to the model), and executable "
            "models of the linear, sparse and dense dispatchers of both code generators equal a two-line specification "
            "(spec_dispatch) for every table, calldata (incl. < 4 bytes) and call value; EVM word arithmetic of the dense "
            "dispatcher is proved equal to the builder's integer arithmetic. The emitted dispatchers are tied to the "
            "specification by executing real compiler output (3 strategies x 2 pipelines) on pyrevm, every entry point / "
            "default-argument variant / __default__ with a boundary-biased family of call values (both parities, 2**k, "
            "gwei/ether, 2**128, 2**255, 2**256-1). The payable / non-payable + calldatasize entry checks are Coq templates "
            "(PayGuard.v) proved to refuse EVERY non-zero call value for a non-payable entry before the body "
            "(C07_nonpayable_refuses_any_value) and to equal the entry checks of the dispatcher models; the templates are "
            "matched syntactically, on every run, against the IR the six real selector-section generators emit for every "
            "entry point (and the dense function-info metadata against `metadata e`). Every entry point of the generated "
            "contracts, __default__ included, carries a mutability decorator drawn from payable / nonpayable / none / view / "
            "pure (the constructor: payable / nonpayable / none); its expected payability is read from the decorator text of "
            "the generated source (only @payable accepts value) and the __default__ / constructor guard template is "
            "instantiated by decorator in Coq (Mutability.v mut_payable; C07_default_guard_refuses_unless_payable, "
            "C07_unmatched_call_with_value_reverts: @view and @pure are non-payable); every unmatched-call path (empty, 1-3 "
            "bytes, unknown selector, truncated real selector) is probed with the call-value family in all six strategies.",
    "level_note": "Trusted: Coq kernel + vm_compute; c07_jt2coq translator (4 kernels; bridged + diffed against CPython); "
                  "hand models of the two generate_* loops and of the dispatchers are tied by correspondence, not translation "
                  "(their entry checks: syntactically, via the guard templates; extractor tools/vlib/c07_pay.py is trusted to "
                  "read the emitted IR, unknown constructs become GBad = never equal to a template); "
                  "keccak/method_id and label resolution (assembler) are outside the model; builder theorems are conditional "
                  "on the builder returning (RuntimeError on adversarial id sets is C20).",
    "technique": "Coq proof over translated kernels + hand-written models, differential correspondence (real functions, real compiler + pyrevm)",
}

IMPORTS = "From Verif Require Import Base.Word256 C07.Jumptable C07.Dispatch C07.Harness.\n"
# GenConsts.v / GenJumptable.v are regenerated from /repo on every run (T-tie); Bridge.v proves the generated
# kernels equal to the hand model; PropsSrc.v restates the table theorems about the generated definitions
MODEL_FILES = ["C07/GenConsts.v", "C07/Jumptable.v", "C07/Dispatch.v", "C07/Harness.v"]
PROOF_FILES = ["C07/JumptableProofs.v", "C07/DispatchProofs.v", "C07/DenseProofs.v", "C07/PropsC07.v"]
TTIE_FILES = ["C07/JtSupport.v", "C07/GenJumptable.v", "C07/Bridge.v", "C07/PropsSrc.v"]
# payability guard: templates of the emitted entry checks (model), theorems (nonpayable_refuses_any_value), tied
# syntactically to the IR of the six real selector-section generators by vlib/c07_pay.py
# Mutability.v: decorator (payable / nonpayable / view / pure) -> payability; the __default__ / constructor template is
# instantiated through it (a @view / @pure arm is a NON-payable arm); theorems in PropsMut.v
PAY_MODEL_FILES = ["C07/PayGuard.v", "C07/Mutability.v"]
PAY_PROOF_FILES = ["C07/PayGuardProofs.v", "C07/PropsPay.v", "C07/MutabilityProofs.v", "C07/PropsMut.v"]
PAY_IMPORTS = "From Verif Require Import Base.Word256 C07.Jumptable C07.Dispatch C07.PayGuard C07.Mutability.\n"

ERR = {"_HasEmptyBuckets": 1, "_FindMagicFailure": 2, "RuntimeError": 3, "ZeroDivisionError": 4, "ValueError": 6}


# ----------------------------------------------------------------------------------------------
# part 1: tables
# ----------------------------------------------------------------------------------------------
class RealJT:
    """The real jumptable_utils functions, fed with method ids directly (method_id_int patched to identity)."""

    def __enter__(self):
        from vyper.codegen import jumptable_utils as ju
        self.ju = ju
        self.saved = ju.method_id_int
        ju.method_id_int = lambda x: x
        return self

    def __exit__(self, *a):
        self.ju.method_id_int = self.saved

    @staticmethod
    def guard(f):
        try:
            return f()
        except Exception as e:  # noqa
            return [0, ERR.get(type(e).__name__, 99)]

    @staticmethod
    def enc_buckets(bk):
        out = []
        for k, l in bk.items():
            out += [k, len(l)] + list(l)
        return out

    @staticmethod
    def enc_sol(sol):
        out = []
        for _k, b in sol.items():
            out += [b.bucket_id, b.magic, b.bucket_size] + list(b.method_ids) + list(b.method_ids_image_order)
        return out

    def magic(self, xs):
        def f():
            m = self.ju.find_magic_for(list(xs))
            return [1, m] + self.ju._image_of(list(xs), m)
        return self.guard(f)

    def image(self, xs, m):
        return self.guard(lambda: self.ju._image_of(list(xs), m))

    def mk(self, ids, n):
        return self.guard(lambda: [1] + self.enc_buckets(self.ju._mk_buckets(list(ids), n)))

    def dji(self, ids, n):
        return self.guard(lambda: [1] + self.enc_sol(self.ju._dense_jumptable_info(list(ids), n)))

    def dense(self, ids):
        def f():
            r = self.ju.generate_dense_jumptable_info(list(ids))
            if r is None:
                return [2]
            return [1, r[0]] + self.enc_sol(r[1])
        return self.guard(f)

    def sparse(self, ids):
        def f():
            n, bk = self.ju.generate_sparse_jumptable_buckets(list(ids))
            return [1, n] + self.enc_buckets(bk)
        return self.guard(f)


def table_oracle(jt, ids):
    """The property's own oracle on the real builders (Search; also run on every id set used):
    returns (description of what is wrong or None, encoded dense result, encoded sparse result)."""
    ju = jt.ju
    ids = list(ids)
    try:
        r = ju.generate_dense_jumptable_info(ids)
        enc_d = [2] if r is None else [1, r[0]] + jt.enc_sol(r[1])
    except Exception as e:  # noqa
        r = None
        enc_d = [0, ERR.get(type(e).__name__, 99)]
    bad = _dense_oracle(ju, ids, r)
    try:
        n, bk = ju.generate_sparse_jumptable_buckets(ids)
        enc_s = [1, n] + jt.enc_buckets(bk)
        if bad is None and (n < 1 or sorted(x for l in bk.values() for x in l) != sorted(ids) or
                            any(x % n != k for k, l in bk.items() for x in l) or any(len(l) == 0 for l in bk.values())):
            bad = f"sparse: buckets (n={n}) do not partition the ids by residue"
    except Exception as e:  # noqa
        enc_s = [0, ERR.get(type(e).__name__, 99)]
        if ids and bad is None:
            bad = f"sparse: raised {type(e).__name__} on a non-empty id set"
    return bad, enc_d, enc_s


def _dense_oracle(ju, ids, r):
    if r is not None:
        n, info = r
        if n != len(info) or sorted(info) != list(range(n)):
            return f"dense: bucket ids {sorted(info)} are not 0..{n - 1}"
        allids = []
        for k, b in info.items():
            if not b.method_ids or any(x % n != k for x in b.method_ids):
                return f"dense: bucket {k} empty or holds an id of another residue"
            if not (0 <= b.magic < 2**16):
                return f"dense: magic {b.magic} does not fit two bytes"
            img = [((x * b.magic) >> ju.BITS_MAGIC) % len(b.method_ids) for x in b.method_ids]
            if len(set(img)) != len(img):
                return f"dense: magic {b.magic} of bucket {k} is not injective on {b.method_ids}"
            order = b.method_ids_image_order
            if [((x * b.magic) >> ju.BITS_MAGIC) % len(order) for x in order] != list(range(len(order))):
                return f"dense: image order of bucket {k} is not 0..size-1"
            allids += b.method_ids
        if sorted(allids) != sorted(ids):
            return "dense: buckets do not partition the ids"
    return None


def id_sets(ctx):
    rnd = ctx.rng("idsets")
    small_u = [0, 1, 0x01000000, 0xFFFFFFFF, 0xA9059CBB, 0xA9059C00, 0x12340000, 0x80000000]
    sets = [()]
    for k in (1, 2, 3):
        sets += list(itertools.combinations(small_u, k))
    if ctx.tier == "thorough":
        sets += list(itertools.combinations(small_u, 4))
    # adversarial: no magic exists (RuntimeError path), and near-adversarial
    c = rnd.randrange(2**31)
    sets += [tuple(c + 60 * k for k in range(5)), tuple(c + 60 * k for k in range(4)), (0, 5, 0x100)]
    # model evaluation cost (vm_compute) is dominated by failing magic searches: ~10-20 s CPU per set above ~10 ids
    if ctx.tier == "quick":
        sizes = list(range(1, 9)) * 2 + [9, 12, rnd.randrange(15, 30), rnd.randrange(30, 60), rnd.randrange(60, 81)]
    else:
        sizes = list(range(1, 10)) * 6 + list(range(10, 81, 2)) + [80]
    for n in sizes:
        s = set()
        while len(s) < n:
            r = rnd.random()
            if r < 0.15:
                s.add(rnd.randrange(2**32) & 0xFFFFFF00)
            elif r < 0.25:
                s.add(rnd.randrange(2**24))
            else:
                s.add(rnd.randrange(2**32))
        l = list(s)
        rnd.shuffle(l)
        sets.append(tuple(l))
    return sets


def part_tables(ctx, model_ok):
    sets = id_sets(ctx)
    rnd = ctx.rng("tables")
    exprs, expect, names = [], [], []
    found = False
    with RealJT() as jt:
        for ids in sets:
            bad, enc_d, enc_s = table_oracle(jt, ids)
            if bad:
                found = True
                ctx.violation("failing-input", "jumptable_utils builds a table that is not a perfect hash / partition",
                              {"method_ids": list(ids), "problem": bad,
                               "call": "vyper.codegen.jumptable_utils.generate_dense_jumptable_info / "
                                       "generate_sparse_jumptable_buckets (method_id_int patched to identity)"},
                              key="tables:" + bad.split(":")[0])
                break
            zl = coqrun.zlist(ids)
            exprs.append(f"enc_dense {zl}"); expect.append(enc_d); names.append(("generate_dense_jumptable_info", ids))
            exprs.append(f"enc_sparse {zl}"); expect.append(enc_s); names.append(("generate_sparse_jumptable_buckets", ids))
            if len(ids) <= 9:
                exprs.append(f"enc_magic {zl}"); expect.append(jt.magic(ids)); names.append(("find_magic_for", ids))
                for n in sorted({0, 1, len(ids), rnd.randrange(1, 9)}):
                    exprs.append(f"enc_mk {zl} {n}"); expect.append(jt.mk(ids, n)); names.append((f"_mk_buckets n={n}", ids))
                    if n > 1 or (n == 1 and len(ids) > 3):
                        exprs.append(f"enc_dji {zl} {n}"); expect.append(jt.dji(ids, n)); names.append((f"_dense_jumptable_info n={n}", ids))
                m = rnd.randrange(2**16)
                exprs.append(f"enc_image {zl} {m}"); expect.append(jt.image(ids, m)); names.append((f"_image_of magic={m}", ids))
        # float window of generate_sparse_jumptable_buckets vs the integer form used by the model
        import math
        for n in range(0, 4097):
            if max(1, math.floor(n * 0.85)) != max(1, 17 * n // 20) or max(1, math.ceil(n * 1.15)) != max(1, -((-23 * n) // 20)):
                ctx.violation("correspondence-broken", "sparse window: float expression differs from integer model", {"n": n})
                break
    ctx.corr["table_id_sets"] = len(sets)
    ctx.corr["table_cases"] = len(exprs)
    if found or not model_ok:
        return len(exprs), found
    # vm_compute cost is dominated by (failing) magic searches on sets above ~10 ids: one coqc per heavy case
    heavy = [i for i in range(len(exprs)) if len(names[i][1]) >= 10 and not names[i][0].startswith("generate_sparse")]
    light = [i for i in range(len(exprs)) if i not in set(heavy)]
    outs = [None] * len(exprs)
    from concurrent.futures import ThreadPoolExecutor
    with ThreadPoolExecutor(max_workers=2) as ex:
        fh = ex.submit(coqrun.eval_zlists, IMPORTS, [exprs[i] for i in heavy], "c07tabh", shard=1, timeout=600)
        fl = ex.submit(coqrun.eval_zlists, IMPORTS, [exprs[i] for i in light], "c07tabl",
                       shard=max(1, (len(light) + 5) // 6), timeout=600)
        for i, g in zip(heavy, fh.result()):
            outs[i] = g
        for i, g in zip(light, fl.result()):
            outs[i] = g
    for (fn, ids), e, g in zip(names, expect, outs):
        if e != g:
            ctx.violation("correspondence-broken", f"model of {fn} disagrees with jumptable_utils",
                          {"function": fn, "method_ids": list(ids), "implementation": e[:60], "model": g[:60]})
            return len(exprs), False
    ctx.samples.append({"generate_dense_jumptable_info(ids)": list(sets[-1][:6]) + ["..."], "n_buckets": expect[-2][1] if len(expect[-2]) > 1 else None})
    return len(exprs), False


# ----------------------------------------------------------------------------------------------
# part 2: emitted dispatchers
# ----------------------------------------------------------------------------------------------
def strategy_configs(tier):
    C = configs.Config
    base = [C(False, "none", "cancun"), C(False, "gas", "prague"), C(False, "codesize", "london"),
            C(True, "none", "shanghai"), C(True, "gas", "prague"), C(True, "codesize", "cancun"),
            C(False, "codesize", "paris", debug=True), C(True, "O3", "prague")]
    if tier == "thorough":
        base += [C(False, "gas", "london"), C(True, "gas", "london"), C(True, "codesize", "paris"),
                 C(False, "none", "prague"), C(True, "O3", "cancun"), C(False, "gas", "paris", debug=True),
                 C(True, "gas", "prague", flags=configs.USABLE_FLAGS[:5]),
                 C(True, "codesize", "prague", flags=configs.USABLE_FLAGS[5:])]
    return base


def expected_strategy_expr(cfg, nfn):
    b = lambda x: "true" if x else "false"  # noqa
    none = cfg.level == "none"
    cs = cfg.level == "codesize"
    if cfg.venom:
        return f"[enc_strategy (select_venom {b(none)} {b(cs)} {nfn})]"
    return f"[enc_strategy (select_legacy {b(none)} {b(cs)} {b(cfg.debug)} {nfn})]"


class StrategySpy:
    """Records which selector-section generator the compiler calls (wraps the six anchored functions)."""
    NAMES = [("vyper.codegen.module", "_selector_section_linear", 0), ("vyper.codegen.module", "_selector_section_sparse", 1),
             ("vyper.codegen.module", "_selector_section_dense", 2),
             ("vyper.codegen_venom.module", "_generate_selector_section_linear", 0),
             ("vyper.codegen_venom.module", "_generate_selector_section_sparse", 1),
             ("vyper.codegen_venom.module", "_generate_selector_section_dense", 2)]

    def __enter__(self):
        import importlib
        self.calls = []
        self.saved = []
        for modname, fn, code in self.NAMES:
            mod = importlib.import_module(modname)
            orig = getattr(mod, fn)
            self.saved.append((mod, fn, orig))

            def wrap(*a, _orig=orig, _code=code, _venom=modname.endswith("venom.module"), **kw):
                self.calls.append((_venom, _code))
                return _orig(*a, **kw)
            setattr(mod, fn, wrap)
        return self

    def __exit__(self, *a):
        for mod, fn, orig in self.saved:
            setattr(mod, fn, orig)


def coq_entry(e, idx):
    mid, payable, mincds, _t, _s = e
    return f"mkEntry {hex(mid)} {'true' if payable else 'false'} {mincds} {idx}"


def coq_call(c):
    prefix, length, value = c
    return f"([{'; '.join(str(b) for b in prefix)}], {length}, {hex(value) if value > 2**31 else value})"


def part_dispatch(ctx, model_ok, tie=None):
    """tie: list collecting (coq expr, description) guard-tie items / extraction errors of every compilation"""
    tie = tie if tie is not None else []
    rnd = ctx.rng("dispatch")
    pools = G.mine(120000 if ctx.tier == "quick" else 400000)
    ctx.corr["mined"] = {k: len(v) for k, v in pools.items()}
    if ctx.tier == "quick":
        sizes = [0, 1, 2, 3, 4, 5, 6, 9, 17, 33, 64]
    else:
        sizes = list(range(0, 13)) + [15, 20, 25, 33, 40, 50, 64, 64, 70]
    cfgs = strategy_configs(ctx.tier)
    contracts = []
    # mutability of every entry point incl. __default__ is drawn from payable / nonpayable / undecorated / view / pure
    # (the constructor: payable / nonpayable / undecorated); expected payability = G.deco_payable(decorator text)
    mrnd = ctx.rng("mutability")
    for n in sizes:
        fns = G.build_functions(rnd, n, pools)
        fb = rnd.choice([None, False, True]) if n else rnd.choice([False, True])
        if fb is not None:
            fb = G.Fallback("payable" if fb else mrnd.choice(["nonpayable", "", "view", "pure"]))
        contracts.append((fns, fb))
    # also: the same function set (5 functions: sparse / dense in both generators, linear at -O none) without and
    # with __default__ of EVERY mutability
    fns = G.build_functions(rnd, 5, pools)
    for fb in (None, G.Fallback(mrnd.choice(["nonpayable", ""])), G.Fallback("payable"), G.Fallback("view"), G.Fallback("pure")):
        contracts.append((fns, fb))
    # no other entry point at all / fewer than the linear threshold: __default__ view and pure
    small = [G.Fallback("view"), G.Fallback("pure")]
    mrnd.shuffle(small)
    contracts.append(([], small[0]))
    contracts.append((G.build_functions(rnd, 2, pools), small[1]))
    ctors = [mrnd.choice([None, None] + list(G.CTOR_MUTS)) for _ in contracts]
    for want in G.CTOR_MUTS:       # every legal constructor mutability occurs
        if want not in ctors:
            ctors[mrnd.randrange(len(ctors))] = want

    # --- expected outcomes from the Coq specification
    exprs, metas = [], []
    n_value_calls = 0
    from vyper.codegen import jumptable_utils as ju
    for ci, (fns, fb) in enumerate(contracts):
        es = G.entries(fns)
        hints = set()
        if es:
            try:
                hints.add(ju.generate_sparse_jumptable_buckets([e[4] for e in es])[0])
                hints.add(ju.generate_dense_jumptable_info([e[4] for e in es])[0])
            except Exception:  # noqa
                pass
        calls = G.call_matrix(rnd, es, ctx.tier, sorted(hints))
        # payability guard: boundary-biased call values (both parities, single bits, decimal units, largest words) on
        # every entry point / default-argument variant / fallback path (own random stream: the matrix above is unchanged)
        vcalls = P.value_calls(ctx.rng(f"values:{ci}"), es, ctx.tier)
        n_value_calls += len(set(vcalls) - set(calls))
        calls = sorted(set(calls) | set(vcalls))
        fns_c = "[" + "; ".join(coq_entry(e, i) for i, e in enumerate(es)) + "]"
        fb_c = "None" if fb is None else f"(Some {'true' if fb else 'false'})"
        calls_c = "[" + "; ".join(coq_call(c) for c in calls) + "]"
        exprs.append(f"run_spec {fns_c} {fb_c} {calls_c}")
        metas.append((ci, es, calls))
    sub = []  # model dispatchers on a subset (they are proved equal to the spec; this exercises the executable models)
    for ci, es, calls in metas:
        if 0 < len(es) <= 9:
            fns, fb = contracts[ci]
            fns_c = "[" + "; ".join(coq_entry(e, i) for i, e in enumerate(es)) + "]"
            fb_c = "None" if fb is None else f"(Some {'true' if fb else 'false'})"
            pick = calls[:: max(1, len(calls) // 60)]
            sub.append((ci, pick, f"run_models {fns_c} {fb_c} [{'; '.join(coq_call(c) for c in pick)}]"))
    strat = []
    for ci, (fns, fb) in enumerate(contracts):
        for cfg in cfgs:
            strat.append(expected_strategy_expr(cfg, len(fns)))
    if not model_ok:
        return 0, False
    allx = exprs + [s[2] for s in sub] + ["(" + " ++ ".join(strat) + ")"]
    outs = coqrun.eval_zlists(IMPORTS, allx, "c07disp", shard=max(1, (len(allx) + 11) // 12), timeout=600)
    spec_out = outs[:len(exprs)]
    model_out = outs[len(exprs):len(exprs) + len(sub)]
    strat_out = outs[-1]
    for (ci, pick, _x), mo in zip(sub, model_out):
        exp = dict(zip(metas[ci][2], spec_out[ci]))
        for k, c in enumerate(pick):
            six = mo[6 * k:6 * k + 6]
            if any(x != exp[c] for x in six if x != -2):  # -2: table not built (builder raised)
                ctx.violation("theorem-broken", "executable dispatcher models disagree with spec_dispatch (vm_compute)",
                              {"call": str(c), "spec": exp[c], "models(lin_l,lin_v,sp_l,sp_v,de_l,de_v)": six})
                return 0, False

    # --- the real compiler + EVM
    n_calls = 0
    distinct = set()
    dist = {}
    vdist = {}
    found = False
    si = 0
    t0 = time.time()
    fbcov = {}
    for ci, (fns, fb) in enumerate(contracts):
        src = G.source(fns, fb, ctors[ci])
        _ci, es, calls = metas[ci]
        exp = spec_out[ci]
        assert len(exp) == len(calls)
        bad = G.check_source_payability(src, es, fb, ctors[ci])
        if bad:
            ctx.violation("gate", "harness: expected payability differs from the decorator text of the generated source",
                          {"problem": bad, "source": src})
            return n_calls, found
        for cfg in cfgs:
            exp_strat = strat_out[si]
            si += 1
            try:
                with StrategySpy() as spy, P.GuardSpy() as gspy:
                    out = configs.compile_src(src, cfg, formats=("bytecode",))
            except Exception as e:  # noqa
                ctx.violation("correspondence-broken", f"generated contract does not compile under {cfg.name}: {type(e).__name__}: {e}",
                              {"source": src, "config": cfg.name})
                return n_calls, found
            collect_tie(tie, gspy, cfg, es, fb, src, ctors[ci])
            if len(spy.calls) != 1 or spy.calls[0][0] != cfg.venom:
                ctx.violation("correspondence-broken", "expected exactly one selector-section generator call of the configured pipeline",
                              {"config": cfg.name, "calls": spy.calls})
                return n_calls, found
            obs_strat = spy.calls[0][1]
            if obs_strat != exp_strat:
                ctx.violation("correspondence-broken", "dispatcher strategy selected by the compiler differs from select_legacy/select_venom",
                              {"config": cfg.name, "n_functions": len(fns), "model": exp_strat, "observed": obs_strat,
                               "legend": "0 linear, 1 sparse, 2 dense"})
                return n_calls, found
            sname = f"{'venom' if cfg.venom else 'legacy'}-{['linear', 'sparse', 'dense'][obs_strat]}"
            ch = evm.Chain(cfg.evm)
            addr = ch.deploy(bytes.fromhex(out["bytecode"][2:]))
            if addr is None:
                ctx.violation("correspondence-broken", "deployment failed", {"source": src, "config": cfg.name})
                return n_calls, found
            if ctors[ci] is not None:
                # the constructor is an entry point too: creation carrying value succeeds iff it is @payable
                for v in (1, 2, 10**18):
                    ch2 = evm.Chain(cfg.evm)
                    a2 = ch2.deploy(bytes.fromhex(out["bytecode"][2:]), value=v)
                    n_calls += 1
                    if (a2 is not None) != G.deco_payable(ctors[ci]):
                        found = True
                        ctx.violation(
                            "failing-input", "constructor payability: creation with value does not follow the decorator of __init__",
                            {"source": src, "config": cfg.name, "creation_value": v, "constructor_decorator": "@" + (ctors[ci] or "<none>"),
                             "expected": "created" if G.deco_payable(ctors[ci]) else "creation reverts",
                             "observed": "created" if a2 is not None else "creation reverts"},
                            key=f"ctor-payability:{'venom' if cfg.venom else 'legacy'}")
                        break
                if found:
                    break
            for c, e in zip(calls, exp):
                prefix, length, value = c
                data = G.calldata_for(prefix, length)
                P.fund(ch, addr, value)
                r = ch.call(addr, data, value=value)
                if P.halted(r):
                    ctx.violation("gate", "harness could not fund a call (pyrevm halt, not a revert of the contract)",
                                  {"config": cfg.name, "value": value, "halt": str(r.logs[0][1])})
                    return n_calls, found
                o = G.observe(r, fns)
                n_calls += 1
                if value > 1:
                    vdist[(sname, "even" if value % 2 == 0 else "odd")] = vdist.get((sname, "even" if value % 2 == 0 else "odd"), 0) + 1
                if e == 0:
                    want, ok = ("revert",), o == ("revert",)
                    if fb is not None and value and (len(prefix) < 4 or all(x[0] != int.from_bytes(prefix, "big") for x in es)):
                        fbcov[(sname, fb.mut)] = fbcov.get((sname, fb.mut), 0) + 1
                elif e == 1:
                    want = G.expected_default(data, value, fb, evm.DEPLOYER)
                    ok = o == want
                    if value:
                        fbcov[(sname, fb.mut)] = fbcov.get((sname, fb.mut), 0) + 1
                else:
                    tgt = es[e - 2]
                    want = ("enter", G.expected_output(fns, tgt[3]))
                    ok = o == want
                kind = ["revert", "default", "enter"][min(e, 2)]
                dist[(sname, kind)] = dist.get((sname, kind), 0) + 1
                distinct.add((ci, sname, cfg.evm, c))
                if not ok:
                    found = True
                    ctx.violation(
                        "failing-input", "emitted dispatcher disagrees with spec_dispatch",
                        {"source": src, "config": cfg.name, "strategy": sname, "calldata": data.hex(), "value": value,
                         "expected": [want[0]] + ([tgt[4], want[1].hex()] if e >= 2 else [w.hex() for w in want[1:]]),
                         "observed": [o[0]] + ([x.hex() if isinstance(x, bytes) else x for x in o[1:]]),
                         "entry_points": [[hex(x[0]), x[4], "payable" if x[1] else "nonpayable", x[2]] for x in es],
                         "default_decorator": None if fb is None else "@" + (fb.mut or "<none>"),
                         "expected_payability": "from the decorator text of the source: only @payable accepts value"},
                        key=f"dispatch:{sname}:{kind}")
                    break
            if found:
                break
        if found:
            break
    ctx.corr["dispatch_calls"] = n_calls
    ctx.corr["dispatch_distribution"] = {f"{k[0]}/{k[1]}": v for k, v in sorted(dist.items())}
    ctx.corr["dispatch_value_family_calls_per_config"] = n_value_calls
    ctx.corr["dispatch_calls_value_gt_1"] = {f"{k[0]}/{k[1]}": v for k, v in sorted(vdist.items())}
    ctx.corr["contracts"] = len(contracts)
    ctx.corr["unmatched_calls_with_value_by_strategy_and_default_decorator"] = {
        f"{k[0]}/@{k[1] or 'undecorated'}": v for k, v in sorted(fbcov.items())}
    ctx.corr["constructor_decorators"] = sorted({"@" + (c or "undecorated") for c in ctors if c is not None})
    if not found:
        # coverage gate: a non-payable-by-omission (@view, @pure) __default__ must have been probed with value on
        # every unmatched-call path family in all six strategies
        miss = [f"{g}-{st}/@{m}" for g in ("legacy", "venom") for st in ("linear", "sparse", "dense") for m in ("view", "pure")
                if fbcov.get((f"{g}-{st}", m), 0) < 10]
        if miss:
            ctx.violation("gate", "harness: @view/@pure __default__ not probed with value in every dispatcher strategy", {"missing": miss})
    ctx.corr["configs"] = [c.name for c in cfgs]
    ctx.corr["evm_seconds"] = round(time.time() - t0, 1)
    if contracts and metas:
        ci = min(len(metas) - 1, 5)
        ctx.samples.append({"contract_functions": [e[4] for e in metas[ci][1]][:8],
                            "call": str(metas[ci][2][len(metas[ci][2]) // 2]), "spec": spec_out[ci][len(metas[ci][2]) // 2]})
    return len(distinct), found


def collect_tie(tie, gspy, cfg, es, fb, src, ctor=None):
    """Guard arms of every entry point of one compilation -> tie items (evaluated in Coq by part_guard_tie)."""
    where = {"config": cfg.name, "source": src}
    try:
        tie += P.tie_items(gspy, cfg.venom, es, fb, where, ctor)
    except Exception as e:  # noqa  (fail closed: an arm that cannot be extracted is a broken tie)
        tie.append((None, dict(where, error=f"{type(e).__name__}: {e}")))


def part_guard_tie(ctx, tie, guard_model_ok, found):
    """Syntactic tie of the guard templates (C07/PayGuard.v) to the emitted IR: every extracted arm must be the template
    instantiated with the entry's payability / min_calldatasize (arm_eqb, sound by C07_guard_tie_sound), and the dense
    function-info metadata must be `metadata e`.  A mismatch after the EVM value-family search found nothing is
    reported as correspondence-broken naming the theorem that no longer applies."""
    errors = [d for x, d in tie if x is None]
    uniq = {}
    for x, d in tie:
        if x is not None:
            uniq.setdefault(x, d)
    ctx.corr["guard_tie_arms"] = len([1 for x, _d in tie if x is not None])
    ctx.corr["guard_tie_distinct"] = len(uniq)
    kinds = {}
    for x, d in uniq.items():
        kinds[d["kind"]] = kinds.get(d["kind"], 0) + 1
    names = {0: "legacy-linear", 1: "legacy-sparse", 2: "venom-linear/sparse", 3: "dense(shared arm)", 4: "__default__", 5: "dense-metadata"}
    ctx.corr["guard_tie_distinct_by_kind"] = {names[k]: v for k, v in sorted(kinds.items())}
    bad = None
    if errors:
        bad = ("the guard arm of an entry point cannot be extracted from the emitted selector section", errors[0])
    elif not guard_model_ok:
        return 0
    elif uniq:
        xs = list(uniq)
        # decorator code -> payability of the Coq model (mut_payable) must be the harness' reading of the decorator text
        codes = sorted(set(P.MUT_CODE.values()))
        outs = coqrun.eval_zlists(PAY_IMPORTS, xs + [f"payable_codes {coqrun.zlist(codes)}"], "c07tie", shard=max(1, len(xs) + 1), timeout=300)
        want = [1 if any(G.deco_payable(m) for m, c in P.MUT_CODE.items() if c == code) else 0 for code in codes]
        if outs[-1] != want or any(len({G.deco_payable(m) for m, c in P.MUT_CODE.items() if c == code}) != 1 for code in codes):
            ctx.violation("gate", "harness: payability by decorator differs between Mutability.v (mut_payable) and c07_gen.deco_payable",
                          {"codes": codes, "coq": outs[-1], "harness": want})
        outs = outs[:-1]
        for x, o in zip(xs, outs):
            if o != [1]:
                d = dict(uniq[x])
                if d["kind"] != 5:
                    # directed hint: which call values the extracted arm of a non-payable entry lets through (model)
                    vals = [0, 1, 2, 3, 4, 10**9, 10**18, 2**128, 2**255, 2**256 - 1]
                    env = "36 (info_word %d (mkEntry 0xa9059cbb false 36 7)) 0xa9059cbb" % max(1, d["F"])
                    try:
                        rv = coqrun.eval_zlists(PAY_IMPORTS, [f"run_arm_values {d['extracted_arm']} {env} {coqrun.zlist(vals)}"], "c07tieh", timeout=120)[0]
                        d["extracted_arm_on_values(0 revert,1 fallback,2 enter,-1 stuck)"] = {hex(v): r for v, r in zip(vals, rv)}
                    except Exception:  # noqa
                        pass
                bad = ("the entry checks emitted for an entry point are not the template of C07/PayGuard.v "
                       "(C07_nonpayable_refuses_any_value / C07_guard_templates_model no longer describe the emitted code)", d)
                break
    if bad and not found:
        d = bad[1]
        ctx.violation("correspondence-broken", bad[0], d, key=f"guard-tie:{d.get('config', '?').split('-')[0]}")
    if uniq:
        ctx.samples.append({"guard_tie": next(iter(uniq))[:300]})
    return len(uniq)


def part_corpus(ctx):
    """Permanent scenario (fixed defect venom-sparse-empty-bucket-fallback-stack): __default__ observes
    len(msg.data) >= 4; selectors falling in every bucket index incl. empty buckets, 0..5-byte calldata."""
    from vlib.common import VERIF
    from vyper.utils import method_id_int
    path = VERIF / "corpus" / "fallback_selectors.vy"
    if not path.exists():
        return 0
    src = path.read_text()
    ids = {method_id_int(f"f{i}()") for i in range(4)}
    datas = [bytes([0, 0, 0, s, 0]) for s in range(16)] + [bytes(n) for n in range(6)]
    datas += [r.to_bytes(4, "big") + bytes(k) for r in range(16) for k in (0, 1)]
    datas = [d for d in datas if not (len(d) >= 4 and int.from_bytes(d[:4], "big") in ids)]
    n = 0
    for cfg in strategy_configs(ctx.tier):
        out = configs.compile_src(src, cfg, formats=("bytecode",))
        ch = evm.Chain(cfg.evm)
        addr = ch.deploy(bytes.fromhex(out["bytecode"][2:]))
        for d in datas:
            r = ch.call(addr, d, value=0)
            n += 1
            want = (1 if len(d) >= 4 else 0).to_bytes(32, "big")
            got = evm.log_tuple(r.logs[0])[2] if (r.ok and len(r.logs) == 1) else None
            if got != want:
                ctx.violation("failing-input", "__default__ reached through the dispatcher observes a wrong len(msg.data) >= 4",
                              {"source_file": str(path), "source": src, "config": cfg.name, "calldata": d.hex(), "value": 0,
                               "expected": ["default", "x=" + str(len(d) >= 4)],
                               "observed": ["ok" if r.ok else "revert", got.hex() if got else None]},
                              key="venom-sparse-empty-bucket-fallback-stack")
                return n
    ctx.corr["corpus_fallback_selectors_calls"] = n
    return n


def part_entry_points(ctx, tie=None):
    """Default-argument entry points x parameter head shapes (see vlib/c07_entry.py): the variant selected by the
    selector of a prefix signature receives exactly the supplied values and the declared defaults for the rest."""
    from vlib import c07_entry as E
    from vyper.utils import method_id_int
    tie = tie if tie is not None else []
    vrnd = ctx.rng("entry-values")
    fam = [v for v in P.value_family(vrnd, ctx.tier) if v]
    nval = 0
    rnd = ctx.rng("entry")
    fns = E.family(rnd, ctx.tier)
    C = configs.Config
    cfgs = [C(False, "none", "cancun"), C(False, "gas", "prague"), C(False, "codesize", "london"),
            C(True, "none", "shanghai"), C(True, "gas", "prague"), C(True, "codesize", "cancun")]
    if ctx.tier == "thorough":
        cfgs += [C(True, "O3", "prague"), C(True, "gas", "paris"), C(False, "gas", "paris", debug=True)]
    n = ntrunc = 0
    shapes = set()
    mutcov = set()
    for src, chunk, base in E.contracts(fns):
        for cfg in cfgs:
            try:
                with P.GuardSpy() as gspy:
                    out = configs.compile_src(src, cfg, formats=("bytecode",))
            except Exception as e:  # noqa
                ctx.violation("correspondence-broken", f"entry-point family contract does not compile under {cfg.name}: "
                              f"{type(e).__name__}: {e}", {"source": src, "config": cfg.name})
                return n
            es = [(method_id_int(sig), f.payable, E.head_size(types, vals), (j, k), sig)
                  for j, f in enumerate(chunk) for k, (sig, types, vals, _e) in enumerate(f.variants())]
            bad = G.check_source_payability(src, es, None)
            if bad:
                ctx.violation("gate", "harness: expected payability differs from the decorator text of the generated source",
                              {"problem": bad, "source": src})
                return n
            collect_tie(tie, gspy, cfg, es, None, src)
            ch = evm.Chain(cfg.evm)
            addr = ch.deploy(bytes.fromhex(out["bytecode"][2:]))
            if addr is None:
                ctx.violation("correspondence-broken", "deployment failed", {"source": src, "config": cfg.name})
                return n
            for j, f in enumerate(chunk):
                for sig, types, vals, exp in f.variants():
                    data = E.calldata(sig, types, vals)
                    r = ch.call(addr, data)
                    n += 1
                    shapes.add((tuple(f.params), f.nd, len(types)))
                    want = b"".join(x.to_bytes(32, "big") for x in [base + j] + exp)
                    if not r.ok or r.out != want:
                        got = [int.from_bytes(r.out[i:i + 32], "big") for i in range(0, len(r.out), 32)] if r.ok else "revert"
                        ctx.violation(
                            "failing-input", "default-argument entry point does not receive the supplied arguments / declared defaults",
                            {"source": src, "config": cfg.name, "function": f.source(base + j), "called_signature": sig,
                             "calldata": data.hex(), "supplied_values": repr(vals),
                             "expected_fingerprints[id, per parameter]": [base + j] + exp, "observed": got,
                             "note": "fingerprint of a parameter = value (uint), a*3+b (static struct), x0*5+x1 (static array), len (String/Bytes), "
                                     "len*1000+sum (DynArray), len(label)*1000+weight (dynamic struct), ...; supplied and default values differ"},
                            key=f"entry-points:{'venom' if cfg.venom else 'legacy'}")
                        return n
                    # any non-zero value (both parities, boundary-biased): a variant that is not @payable (undecorated,
                    # @nonpayable, @view, @pure -- from the decorator text) must revert, a @payable one answers as without value
                    for v in (2, vrnd.choice(fam) & ~1 or 4, vrnd.choice(fam)):
                        P.fund(ch, addr, v)
                        r = ch.call(addr, data, value=v)
                        n += 1
                        nval += 1
                        mutcov.add((cfg.venom, f.mut))
                        if P.halted(r) or (r.ok != f.payable) or (r.ok and r.out != want):
                            got = [int.from_bytes(r.out[i:i + 32], "big") for i in range(0, len(r.out), 32)] if r.ok else \
                                (str(r.logs) if P.halted(r) else "revert")
                            ctx.violation(
                                "failing-input", "entry point (default-argument variant) called with value does not follow its mutability decorator",
                                {"source": src, "config": cfg.name, "function": f.source(base + j), "called_signature": sig,
                                 "decorator": "@" + (f.mut or "<none>"),
                                 "calldata": data.hex(), "value": v, "expected": "enters the function" if f.payable else "revert",
                                 "observed": ["ok", got] if r.ok else got},
                                key=f"entry-points:value:{'venom' if cfg.venom else 'legacy'}")
                            return n
                    # calldata shorter than the head of the argument tuple (selector intact) must revert
                    head = E.head_size(types, vals)
                    for ln in E.truncation_lengths(head, ctx.tier):
                        r = ch.call(addr, data[:ln])
                        n += 1
                        ntrunc += 1
                        if r.ok:
                            got = [int.from_bytes(r.out[i:i + 32], "big") for i in range(0, len(r.out), 32)]
                            ctx.violation(
                                "failing-input", "entry point accepts calldata shorter than its static argument size (min_calldatasize)",
                                {"source": src, "config": cfg.name, "function": f.source(base + j), "called_signature": sig,
                                 "calldata": data[:ln].hex(), "calldata_length": ln, "min_calldatasize(4 + head of the argument tuple)": head,
                                 "expected": "revert", "observed": ["ok", got]},
                                key=f"entry-points:mincds:{'venom' if cfg.venom else 'legacy'}")
                            return n
    ctx.corr["entry_point_truncated_calls"] = ntrunc
    ctx.corr["entry_point_value_calls"] = nval
    ctx.corr["entry_point_value_decorators"] = sorted({"@" + (m or "undecorated") for _v, m in mutcov})
    ctx.corr["entry_point_calls"] = n
    ctx.corr["entry_point_shapes"] = len(shapes)
    return n


def replay(ctx):
    """Re-execute one recorded failing dispatch case on the current tree."""
    import json
    rec = json.load(open(ctx.replay))
    d = rec.get("detail", {})
    if "source" in d and "creation_value" in d:
        cfg = next((c for c in strategy_configs("thorough") if c.name == d["config"]), None)
        out = configs.compile_src(d["source"], cfg, formats=("bytecode",))
        a2 = evm.Chain(cfg.evm).deploy(bytes.fromhex(out["bytecode"][2:]), value=d["creation_value"])
        obs = "created" if a2 is not None else "creation reverts"
        ctx.log(f"replay: expected {d['expected']} observed {obs}")
        if obs != d["expected"]:
            ctx.violation("failing-input", "constructor payability (replay)", d, key=rec.get("key"))
        return
    if "source" not in d or "calldata" not in d:
        ctx.log("replay: nothing executable in this record (kind=%s)" % rec.get("kind"))
        return
    cfg = next((c for c in strategy_configs("thorough") if c.name == d["config"]), None)
    out = configs.compile_src(d["source"], cfg, formats=("bytecode",))
    ch = evm.Chain(cfg.evm)
    addr = ch.deploy(bytes.fromhex(out["bytecode"][2:]))
    P.fund(ch, addr, d["value"])
    r = ch.call(addr, bytes.fromhex(d["calldata"]), value=d["value"])
    o = G.observe(r, None)
    obs = [o[0]] + ([o[1].hex()] if o[0] in ("enter", "default") else list(o[1:]))
    exp = [d["expected"][0]] + ([d["expected"][2]] if d["expected"][0] == "enter" else
                                [d["expected"][1]] if d["expected"][0] == "default" else [])
    ctx.log(f"replay: expected {d['expected']} observed {obs}")
    if obs != exp:
        ctx.violation("failing-input", "emitted dispatcher disagrees with spec_dispatch (replay)", d, key=rec.get("key"))


def run(ctx):
    if ctx.replay:
        return replay(ctx)
    from vlib import c07_jt2coq as T
    t = time.time()
    rejected = None
    try:
        (COQ / "C07" / "GenConsts.v").write_text(T.generate_consts())
    except Exception as e:  # noqa  (fail closed; keep the model runnable for Search)
        rejected = f"module constants: {e}"
        (COQ / "C07" / "GenConsts.v").write_text(T.generate_consts(fallback=True))
    gen_ok = False
    try:
        (COQ / "C07" / "GenJumptable.v").write_text(T.generate())
        gen_ok = True
    except Exception as e:  # noqa
        rejected = rejected or f"{type(e).__name__}: {e}"
    bm = ctx.coq_build(MODEL_FILES)
    model_ok = bm["ok"]
    b = bm
    guard_model_ok = False
    if model_ok:
        bg = ctx.coq_build(PAY_MODEL_FILES)
        guard_model_ok = bg["ok"]
        b = ctx.coq_build(PROOF_FILES)
        if b["ok"]:
            b = ctx.coq_build(PAY_PROOF_FILES) if guard_model_ok else bg
        if b["ok"] and gen_ok:
            b = ctx.coq_build(TTIE_FILES)
    ctx.log(f"coq build: {time.time() - t:.1f}s ok={b['ok']} generated={gen_ok}")
    # the table part (coqc-bound) and the dispatcher parts (compiler + pyrevm) are independent: two forked workers
    def g_tables(c):
        t1 = time.time()
        n, _f = part_tables(c, model_ok)
        c.corr["_n1"] = n
        c.log(f"tables: {n} cases in {time.time() - t1:.1f}s")
        return 0

    def g_dispatch(c):
        t1 = time.time()
        tie = []
        n2, found = part_dispatch(c, model_ok, tie)
        c.corr["_n2"] = n2
        c.log(f"dispatch: {n2} distinct calls in {time.time() - t1:.1f}s (evm part {c.corr.get('evm_seconds')}s)")
        n3 = part_corpus(c)
        t1 = time.time()
        n3 += part_entry_points(c, tie)
        c.corr["_n3"] = n3
        c.log(f"entry points: {c.corr.get('entry_point_calls')} calls, {c.corr.get('entry_point_shapes')} (params, defaults, arity) shapes in {time.time() - t1:.1f}s")
        found = found or any(v.get("kind") == "failing-input" for v in c.violations)
        t1 = time.time()
        n4 = part_guard_tie(c, tie, guard_model_ok, found)
        c.log(f"guard tie: {c.corr.get('guard_tie_arms')} extracted arms, {n4} distinct, in {time.time() - t1:.1f}s")
        return 0

    ctx.run_groups([[("tables", g_tables)], [("dispatch/entry points/guard tie", g_dispatch)]])
    n1, n2, n3 = (ctx.corr.pop(k, 0) for k in ("_n1", "_n2", "_n3"))
    found1 = any((v.get("key") or "").startswith("tables:") for v in ctx.violations)
    found2 = any(v.get("kind") == "failing-input" and not (v.get("key") or "").startswith("tables:") for v in ctx.violations)
    if rejected and not (found1 or found2):
        ctx.violation("translator-rejected", "c07_jt2coq cannot translate jumptable_utils.py: " + rejected, {"error": rejected})
    if not b["ok"] and not (found1 or found2):
        ctx.violation("theorem-broken", f"{b.get('failed_lemma')} in {b['file']}",
                      {"theorem": b.get("failed_lemma"), "file": b["file"], "coq_output": b["out"][-1500:]})
    ctx.corr["evaluations"] = n1 + ctx.corr.get("dispatch_calls", 0) + n3
    ctx.corr["distinct_nontrivial"] = n1 + n2
    ctx.corr["rule"] = ("tables: one case per (function, id set[, n]); dispatch: distinct (contract, strategy, evm, selector "
                        "prefix, calldata length, value) tuples; every call's expected outcome comes from spec_dispatch in Coq")
    ctx.trusted += ["Coq 8.16.1 kernel + vm_compute",
                    "tools/vlib/c07_jt2coq.py (translator for the four jumptable_utils kernels; output proved equal to the hand model in Bridge.v, "
                    "and both compared with CPython on every run)",
                    "hand-written models: Jumptable.v generate_dense/generate_sparse loops and Dispatch.v (tied by correspondence each run)",
                    "pyrevm as EVM; vyper.utils.method_id_int (keccak) for selectors; assembler label resolution (C16)"]
    ctx.assumptions += ["builder theorems hold under 'builder returned Ok' (RuntimeError for adversarial id sets: C20)",
                        "dense model: bucket locations and entry labels are abstract 16-bit identifiers",
                        "function bodies/argument decoding beyond min_calldatasize are outside C07 (C05)"]
