"""C01LS: helper part of C01 (statement lowering of the LEGACY code generator: model, O-tie, theorem, bridge to the Venom
model); runnable on its own: python3 tools/check.py C01LS --tier quick.  Not registered (the coordinator calls
vlib.c01l_stmt.part_lstmt from c01.py)."""
from vlib import c01l_stmt

LEVEL = "proof"
META = {"not_applicable": "helper part of C01"}


def prebuild(ctx):
    c01l_stmt.prebuild(ctx)


def run(ctx):
    n = c01l_stmt.part_lstmt(ctx)
    ctx.corr["evaluations"] = n
    ctx.corr["distinct_nontrivial"] = n
    ctx.corr["rule"] = "random function bodies: legacy IR compared with the model (vm_compute), same body vs the Venom blocks, EVM runs"
