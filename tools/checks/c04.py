"""C04: container accesses in bounds or revert; writes touch only their target.

Coq: C04/GenChecks.v (bounds-check IR exported from the real vyper/codegen/core.py for the whole index-type x
array-kind x location family), Checks.v (parametric templates + exact meaning), AllocModel.v / AllocProofs.v
(both memory allocators), PropsC04.v.  Tie: syntactic equality of every observed template (kernel-checked),
exact-output differential of both allocator models, canary contracts on the EVM under several configurations."""
import warnings

from vlib import coqrun
from vlib.common import COQ

LEVEL = "proof"
META = {
    "category": "proof",
    "text": "Coq theorems: the index check emitted by _get_element_ptr_array passes iff 0 <= ix < bound (signed and unsigned "
            "index types, literal or loaded bound) and check_buffer_overflow_ir passes iff start+length <= src_len without "
            "wrap-around, transferred to the real generator's output for the whole type/location family by kernel-checked "
            "syntactic equality; the Venom allocator's first fit avoids every reserved interval; one legacy allocation step "
            "is safe under the free-list invariant.  Canary contracts in every data location tie the compiled code.  "
            "Session 3: every store of the legacy slice() copy (word loop for storage / transient sources, bulk copy, single word) and "
            "its length store lie inside the buffer the generator allocated, for all start / length, transferred to the real "
            "Slice.build_IR + copy_bytes + MemoryAllocator for the whole location x type x capacity x literal/run-time-length family "
            "(observed_slice_writes_in_buffer); builtins that materialise a byte string run as the topmost allocation of an internal "
            "function while every local of the caller is compared with the source-level expectation.  "
            "Seed m6: staging the argument of x.append(arg) is the source semantics for every argument, the unstaged code of append_dyn_array "
            "only for arguments that keep the length (staged_append_is_spec, lazy_append_is_spec_if_len_kept, lazy_append_refuted), and every "
            "element expression the real Expr.parse_Call hands to append_dyn_array over the append family is a leaf or free of external calls / "
            "stores next to the array's variables (observed_append_sites_ordered); append / subscript-assignment whose argument, index or value "
            "mutates the same DynArray are run on the EVM against a python model of the source.",
    "level_note": "Trusted: Coq kernel + vm_compute, C03/LIR.v evaluator and Base/Word256.v (tied to pyrevm elsewhere), exporter "
                  "tools/vlib/c04_export.py (replaces the length load by a variable), hand models of both allocators (exact-output "
                  "differential).  NOT proved: preservation of the legacy free-list invariant by deallocate (differential + "
                  "executable invariant only), Venom liveness analysis / concretize loop, slice/extract32/concat, Venom front-end "
                  "subscript lowering (canary differential only).  Session 3 (slice buffer): trusted exporter tools/vlib/c04_slicebuf.py "
                  "(keeps the with-bindings an exported expression depends on, renames the loop index to ix), the semantics of `repeat` "
                  "(count asserted <= bound before the first iteration), `length <= dst_maxlen` for byte-addressed sources (given by the "
                  "bounds check and len(src) <= maxlen); concat / abi_encode / convert buffers and all Venom copy loops: canaries only.  "
                  "Seed m6 (append sites): trusted observer tools/vlib/c04_selfmut.py (hooks vyper.codegen.expr.append_dyn_array; opcode walk through "
                  "self-call bodies; the compiler's _referenced_variables annotations), assumption that an element expression without external call "
                  "/ shared store keeps the array's length; legacy generator only -- the Venom append lowering and all subscript-assignment orders "
                  "are covered by the EVM canaries only.",
    "technique": "Coq proof over observed IR templates (O-tie) + allocator models with exact-output differential + EVM canary contracts",
}

COQ_FILES = ["C04/GenChecks.v", "C04/GenLegacy.v", "C04/GenVenomAlloc.v", "C04/AllocModel.v", "C04/AllocProofs.v", "C04/VenomAllocSeq.v", "C04/LegacyProofs.v", "C04/LegacyTie.v",
             "C04/Frames.v", "C04/Concretize.v", "C04/MemLiveness.v", "C04/Fmp.v", "C04/Checks.v", "C04/PropsC04.v"]
# session 3: buffer arithmetic of the legacy slice() generator (GenSliceBuf.v regenerated from the real Slice.build_IR)
SLICEBUF_FILES = ["C04/SliceBufModel.v", "C04/GenSliceBuf.v", "C04/PropsSliceBuf.v"]
# session 3 (seed m6): x.append(<arg>) whose argument may change x (GenSelfMut.v regenerated from the real Expr.parse_Call)
SELFMUT_FILES = ["C04/SelfMutModel.v", "C04/SelfMutProofs.v", "C04/GenSelfMut.v", "C04/PropsSelfMut.v"]
IMPORTS = "From Verif Require Import C04.AllocModel.\n"


# ------------------------------------------------------------------ allocator differentials
class FakeAlloca:
    def __init__(self, size):
        self.alloca_size = size


def part_venom_alloc(ctx, model_ok, n):
    from vyper.venom.memory_allocator import MemoryAllocator
    rnd = ctx.rng("venomalloc")
    cases = []
    for _ in range(n):
        k = rnd.randint(0, 7)
        res = []
        for _ in range(k):
            style = rnd.random()
            if style < 0.6:
                res.append((32 * rnd.randint(0, 12), 32 * rnd.randint(0, 4)))
            elif style < 0.9:
                res.append((rnd.randint(0, 400), rnd.randint(0, 100)))
            else:
                res.append((rnd.choice([0, 2**64, 2**255]), rnd.choice([0, 1, 2**64])))
        size = rnd.choice([0, 32, 32, 64, 96, 1, 100, 2**64])
        cases.append((res, size))
    exprs = ["[" + "; ".join(f"venom_allocate [{'; '.join(f'({coqrun.hexlit(a)}, {coqrun.hexlit(b)})' for a, b in res)}] {coqrun.hexlit(size)}"
                            for res, size in cases) + "]"] if (model_ok and cases) else []
    outs = coqrun.eval_zlists(IMPORTS, exprs, "c04venom")[0] if exprs else None
    for k, (res, size) in enumerate(cases):
        ma = MemoryAllocator()
        ma.reserved = set(res)
        ptr = ma.allocate(FakeAlloca(size))
        call = f"m = vyper.venom.memory_allocator.MemoryAllocator(); m.reserved = set({res}); m.allocate(<alloca of size {size}>)"
        # the property's own oracle: no byte shared with a reserved interval
        for (rp, rs) in res:
            if max(ptr, rp) < min(ptr + size, rp + rs):
                ctx.violation("failing-input", "Venom MemoryAllocator.allocate returned a block overlapping a reserved interval",
                              {"call": call, "returned": ptr, "overlaps": [rp, rs]})
                return k, True
        if outs is not None and outs[k] != ptr:
            ctx.violation("correspondence-broken", "venom_allocate model differs from MemoryAllocator.allocate",
                          {"call": call, "python": ptr, "model": str(outs[k])})
            return k, True
    ctx.corr["venom_allocate_cases"] = len(cases)
    return len({(tuple(sorted(set(r))), s) for r, s in cases}), False


def part_legacy_alloc(ctx, model_ok, n):
    from vyper.codegen.memory_allocator import MemoryAllocator
    from vyper.utils import MemoryPositions
    rnd = ctx.rng("legacyalloc")
    start = MemoryPositions.RESERVED_MEMORY
    seqs = []
    for _ in range(n):
        ops, nlive = [], 0
        for _ in range(rnd.randint(1, 14)):
            if nlive and rnd.random() < 0.45:
                ops.append((1, rnd.randrange(nlive)))
                nlive -= 1
            else:
                ops.append((0, 32 * rnd.choice([1, 1, 2, 3, 4, 8, 33])))
                nlive += 1
        seqs.append(ops)
    exprs = [f"run_ops [{'; '.join(f'({a}, {b})' for a, b in ops)}] (mkL {start} {start} []) []" for ops in seqs] if model_ok else []
    outs = coqrun.eval_zlists(IMPORTS, exprs, "c04legacy", shard=max(8, len(exprs) // 4 + 1)) if exprs else None
    for k, ops in enumerate(seqs):
        ma = MemoryAllocator()
        live, trace = [], []
        detail = {"ops": ops, "how": "m = vyper.codegen.memory_allocator.MemoryAllocator(); (0, size) -> m.allocate_memory(size); "
                                     "(1, k) -> m.deallocate_memory(*live.pop(k))"}
        for (kind, arg) in ops:
            if kind == 0:
                p = ma.allocate_memory(arg)
                trace.append(p)
                # oracle: the new block is disjoint from every live block and inside allocated memory
                for (q, s) in live:
                    if max(p, q) < min(p + arg, q + s):
                        ctx.violation("failing-input", "legacy MemoryAllocator returned a block overlapping a live block",
                                      dict(detail, returned=[p, arg], live=live))
                        return k, True
                if p < start or p + arg > ma.size_of_mem:
                    ctx.violation("failing-input", "legacy MemoryAllocator returned a block outside [start, size_of_mem]",
                                  dict(detail, returned=[p, arg], size_of_mem=ma.size_of_mem))
                    return k, True
                live.append((p, arg))
            else:
                p, s = live.pop(arg)
                ma.deallocate_memory(p, s)
                trace.append(ma.next_mem)
            # executable invariant (the unproved half of legacy_alloc_inv), checked on the real state
            fl = [(f.position, f.size) for f in ma.deallocated_mem]
            ok = all(a[0] + a[1] < b[0] for a, b in zip(fl, fl[1:])) and all(f[1] > 0 and f[0] + f[1] < ma.next_mem + (0 if fl else 1) for f in fl)
            ok = ok and all(q + s <= ma.next_mem for q, s in live)
            ok = ok and all(not (max(f[0], q) < min(f[0] + f[1], q + s)) for f in fl for q, s in live)
            if not ok:
                ctx.violation("failing-input", "legacy MemoryAllocator state invariant broken (free list unsorted/adjacent, or overlapping a live block)",
                              dict(detail, free=fl, live=live, next_mem=ma.next_mem))
                return k, True
        trace += [ma.next_mem, ma.size_of_mem] + [x for f in ma.deallocated_mem for x in (f.position, f.size)]
        if outs is not None and outs[k] != trace:
            ctx.violation("correspondence-broken", "legacy allocator model differs from MemoryAllocator",
                          dict(detail, python=trace, model=[str(x) for x in outs[k]]))
            return k, True
    ctx.corr["legacy_alloc_sequences"] = len(seqs)
    return len({tuple(o) for o in seqs}), False


# ------------------------------------------------------------------ legacy call frames
def gen_frame_contract(rnd, idx):
    n = rnd.randint(2, 6)
    arg_len = [rnd.randint(1, 4) for _ in range(n)]
    lines = []
    calls = {}
    for i in range(n):
        cs = [j for j in range(i) if rnd.random() < 0.45]
        calls[i] = cs
        lines.append(f"@internal\ndef f{i}(a: uint256[{arg_len[i]}]) -> uint256:")
        for k in range(rnd.randint(0, 3)):
            kind = rnd.random()
            if kind < 0.6:
                m = rnd.randint(1, 12)
                lines.append(f"    x{k}: uint256[{m}] = empty(uint256[{m}])")
            elif kind < 0.8:
                m = rnd.choice([1, 31, 32, 33, 100])
                lines.append(f"    x{k}: Bytes[{m}] = b\"\"")
            else:
                m = rnd.randint(1, 5)
                lines.append(f"    x{k}: DynArray[uint256, {m}] = []")
        lines.append("    r: uint256 = a[0]")
        for j in cs:
            lines.append(f"    r += self.f{j}(empty(uint256[{arg_len[j]}]))")
        lines.append("    return r")
    tops = [j for j in range(n) if rnd.random() < 0.5] or [n - 1]
    lines.append("@external\ndef top(q: uint256) -> uint256:\n    t: uint256[2] = [q, q]\n    r: uint256 = t[0]")
    for j in tops:
        lines.append(f"    r += self.f{j}(empty(uint256[{arg_len[j]}]))")
    lines.append("    return r")
    return "\n".join(lines) + "\n"


def part_frames(ctx, model_ok, n):
    from pathlib import PurePath
    from vyper.compiler.input_bundle import FileInput
    from vyper.compiler.phases import CompilerData
    from vyper.compiler.settings import OptimizationLevel, Settings
    from vyper.utils import MemoryPositions
    R = MemoryPositions.RESERVED_MEMORY
    rnd = ctx.rng("frames")
    exprs, meta = [], []
    n_fn = 0
    for idx in range(n):
        src = gen_frame_contract(rnd, idx)
        fi = FileInput(contents=src, source_id=0, path=PurePath("t.vy"), resolved_path=PurePath("t.vy"))
        with warnings.catch_warnings():
            warnings.simplefilter("ignore")
            cd = CompilerData(fi, settings=Settings(optimize=rnd.choice([OptimizationLevel.NONE, OptimizationLevel.GAS, OptimizationLevel.CODESIZE]),
                                                    experimental_codegen=False))
            _ = cd.ir_nodes
        mt = cd.annotated_vyper_module._metadata["type"]
        fts = [fd._metadata["func_type"] for fd in mt.function_defs]
        ids = {id(ft): k for k, ft in enumerate(fts)}
        info = {}
        for ft in fts:
            fr = ft._ir_info.frame_info
            mv = [(v.pos, v.size) for v in fr.frame_vars.values() if getattr(v.location, "name", "") == "memory" and isinstance(v.pos, int)]
            info[id(ft)] = (fr.frame_start, fr.frame_size, mv, [ids[id(c)] for c in ft.reachable_internal_functions],
                            [c for c in ft.called_functions])
        detail = {"source": src, "how": "CompilerData(..., experimental_codegen=False).ir_nodes; func_t._ir_info.frame_info of every function",
                  "frames": {ft.name: list(info[id(ft)][:4]) for ft in fts}}
        # ---- the property's own oracle on the real table
        for ft in fts:
            st, sz, mv, reach, _ = info[id(ft)]
            for k in reach:
                gst, gsz, gmv, _, _ = info[id(fts[k])]
                for (p, s_) in mv:
                    for (q, t) in gmv:
                        if max(p, q) < min(p + s_, q + t):
                            ctx.violation("failing-input", f"memory variable of {ft.name} overlaps a variable of its (transitive) callee {fts[k].name}",
                                          dict(detail, caller_var=[p, s_], callee_var=[q, t]))
                            return n_fn, True
                if R + gsz > st:
                    ctx.violation("failing-input", f"frame of callee {fts[k].name} reaches into the variables of caller {ft.name}", detail)
                    return n_fn, True

        def tree(ft):
            st, sz, _, _, called = info[id(ft)]
            own = sz - (st - R)
            return f"(Fn {coqrun.hexlit(own)} [{'; '.join(tree(c) for c in called)}])"
        rows = "; ".join(f"mkRow {st} {sz} [{'; '.join(f'({p}, {q})' for p, q in mv)}] [{'; '.join(f'{k}%nat' for k in reach)}]"
                         for (st, sz, mv, reach, _) in (info[id(ft)] for ft in fts))
        for ft in fts:
            exprs.append(f"frame_out {R} {tree(ft)}")
            meta.append((detail, ft.name, [info[id(ft)][0], info[id(ft)][1]]))
            n_fn += 1
        exprs.append(f"[if frames_check {R} [{rows}] then 1 else 0]")
        meta.append((detail, "<table>", [1]))
    if model_ok and exprs:
        outs = coqrun.eval_zlists("From Verif Require Import C04.Frames.\n", exprs, "c04frames", shard=max(8, len(exprs) // 4 + 1))
        for (detail, name, want), got in zip(meta, outs):
            if got != want:
                ctx.violation("correspondence-broken", "frame model / verified frame checker disagrees with the real frame table" + f" ({name})",
                              dict(detail, function=name, real=want, model=[str(x) for x in got]))
                return n_fn, True
    ctx.corr["frames"] = {"contracts": n, "functions": n_fn}
    return n_fn, False


# ------------------------------------------------------------------ canary contracts
C0, C1 = 0xC0FFEE0000000000000000000000000000000000000000000000000000000001, 0xBADC0DE000000000000000000000000000000000000000000000000000000002
IDX_TYPES = [("uint256", False, 256), ("int128", True, 128), ("int256", True, 256), ("uint8", False, 8)]


def canary_source(ityp, dyn, transient):
    arr_t = "DynArray[uint256, 3]" if dyn else "uint256[3]"
    wrap = (lambda t: f"transient({t})") if transient else (lambda t: t)
    init3 = "[11, 22, 33]"
    src = f"""
c0: {wrap('uint256')}
arr: {wrap(arr_t)}
c1: {wrap('uint256')}
IM0: immutable(uint256)
IM: immutable(uint256[3])
IM1: immutable(uint256)

@deploy
def __init__():
    IM0 = {C0}
    IM = [101, 102, 103]
    IM1 = {C1}

@external
def setup():
    self.c0 = {C0}
    self.arr = {init3}
    self.c1 = {C1}

@external
def set_(i: {ityp}, v: uint256):
    self.arr[i] = v

@external
@view
def get(i: {ityp}) -> uint256:
    return self.arr[i]

@external
@view
def dump() -> (uint256, {arr_t}, uint256):
    return self.c0, self.arr, self.c1

@external
def setup_set_dump(i: {ityp}, v: uint256) -> (uint256, {arr_t}, uint256):
    self.c0 = {C0}
    self.arr = {init3}
    self.c1 = {C1}
    self.arr[i] = v
    return self.c0, self.arr, self.c1

@external
def mem(i: {ityp}, v: uint256) -> (uint256, {arr_t}, uint256):
    a: uint256 = {C0}
    m: {arr_t} = {init3}
    b: uint256 = {C1}
    m[i] = v
    return a, m, b

@external
@view
def cd(a: uint256, x: {arr_t}, b: uint256, i: {ityp}) -> (uint256, uint256, uint256):
    return a, x[i], b

@external
@view
def imm(i: {ityp}) -> (uint256, uint256, uint256):
    return IM0, IM[i], IM1

@external
@view
def sl(a: uint256, b: Bytes[40], c: uint256, start: uint256, length: uint256) -> (uint256, Bytes[40], uint256):
    x: uint256 = a
    m: Bytes[40] = b
    y: uint256 = c
    r: Bytes[40] = slice(m, start, length)
    return x, r, y
"""
    if dyn:
        src += f"""
@external
def push(v: uint256):
    self.arr.append(v)

@external
def pop_() -> uint256:
    return self.arr.pop()

@external
def setup_short(n: uint256):
    self.c0 = {C0}
    self.arr = []
    self.c1 = {C1}
    for j: uint256 in range(3):
        if j >= n:
            break
        self.arr.append(11 * (j + 1))

@external
def mem_short(n: uint256, i: {ityp}, v: uint256) -> (uint256, {arr_t}, uint256):
    a: uint256 = {C0}
    m: {arr_t} = []
    b: uint256 = {C1}
    for j: uint256 in range(3):
        if j >= n:
            break
        m.append(11 * (j + 1))
    m[i] = v
    return a, m, b
"""
    return src


def w(x):
    return (x % 2**256).to_bytes(32, "big")


def in_type(x, signed, bits):
    """the ABI word x (0..2^256-1) is a valid encoding of the index type; returns the value or None"""
    if signed:
        v = x - 2**256 if x >= 2**255 else x
        return v if -(2**(bits - 1)) <= v < 2**(bits - 1) else None
    return x if x < 2**bits else None


def enc_arr(dyn, vals):
    if dyn:
        return w(len(vals)) + b"".join(w(v) for v in vals)
    return b"".join(w(v) for v in vals)


def part_canaries(ctx, cfgs):
    from vyper.utils import method_id
    from vlib.configs import compile_src
    from vlib.evm import Chain
    rnd = ctx.rng("canary")
    n_cases = 0
    stats = {"revert": 0, "ok": 0}
    for cfg in cfgs:
        cancun = cfg.evm in ("cancun", "prague")
        for (ityp, signed, bits) in IDX_TYPES:
            for dyn in (False, True):
                for transient in ((False, True) if cancun else (False,)):
                    src = canary_source(ityp, dyn, transient)
                    with warnings.catch_warnings():
                        warnings.simplefilter("ignore")
                        out = compile_src(src, cfg, formats=("bytecode",))
                    ch = Chain(cfg.evm)
                    addr = ch.deploy(bytes.fromhex(out["bytecode"][2:]))
                    base = {"source": src, "config": cfg.name}
                    if addr is None:
                        ctx.violation("correspondence-broken", "canary contract failed to deploy", base)
                        return n_cases, True
                    arr_abi = "uint256[]" if dyn else "uint256[3]"
                    sig_i = ityp
                    idxs = sorted({0, 1, 2, 3, 4, 2**255, 2**256 - 1, 2**256 - 2, 2**255 - 1, 2**127, 2**128, 255, 256,
                                   2**256 - 2**127, 2**256 - 2**127 - 1, rnd.randrange(2**256), rnd.randrange(5)})
                    lens = [3] if not dyn else [0, 1, 2, 3]
                    for ln in lens:
                        cur = [11, 22, 33][:ln]
                        for x in idxs:
                            v = in_type(x, signed, bits)
                            ok_idx = v is not None and 0 <= v < ln
                            val = rnd.randrange(1, 2**256)
                            want_arr = list(cur)
                            if ok_idx:
                                want_arr[v] = val
                            n_cases += 1

                            def fail(what, call, got):
                                ctx.violation("failing-input", what,
                                              dict(base, call=call, index_word=hex(x), length=ln, expected="revert" if not ok_idx else
                                                   [hex(C0), want_arr, hex(C1)], observed=got))

                            def tuple_ret(vals):
                                if dyn:   # (uint256, uint256[], uint256): head = c0, offset, c1 ; tail = len, elems
                                    return w(C0) + w(96) + w(C1) + enc_arr(True, vals)
                                return w(C0) + enc_arr(False, vals) + w(C1)
                            # --- storage / transient write + read-back in one transaction
                            if not dyn or ln == 3:
                                r = ch.call(addr, method_id(f"setup_set_dump({sig_i},uint256)") + w(x) + w(val))
                                call = f"setup_set_dump({hex(x)}, {val})"
                                if r.ok != ok_idx or (r.ok and r.out != tuple_ret(want_arr)):
                                    fail("storage/transient subscript write: wrong effect or missing revert", call, r.out.hex() if r.ok else "revert")
                                    return n_cases, True
                                # --- memory
                                r = ch.call(addr, method_id(f"mem({sig_i},uint256)") + w(x) + w(val))
                                if r.ok != ok_idx or (r.ok and r.out != tuple_ret(want_arr)):
                                    fail("memory subscript write: wrong effect or missing revert", f"mem({hex(x)}, {val})", r.out.hex() if r.ok else "revert")
                                    return n_cases, True
                            else:
                                r = ch.call(addr, method_id(f"mem_short(uint256,{sig_i},uint256)") + w(ln) + w(x) + w(val))
                                if r.ok != ok_idx or (r.ok and r.out != tuple_ret(want_arr)):
                                    fail("memory DynArray subscript write (short array): wrong effect or missing revert",
                                         f"mem_short({ln}, {hex(x)}, {val})", r.out.hex() if r.ok else "revert")
                                    return n_cases, True
                                if not transient:
                                    ch.call(addr, method_id("setup_short(uint256)") + w(ln))
                                    r = ch.call(addr, method_id(f"set_({sig_i},uint256)") + w(x) + w(val))
                                    d = ch.call(addr, method_id("dump()"))
                                    if r.ok != ok_idx or not d.ok or d.out != tuple_ret(want_arr):
                                        fail("storage DynArray subscript write (short array): wrong effect or missing revert",
                                             f"setup_short({ln}); set_({hex(x)}, {val}); dump()", (r.ok, d.out.hex()))
                                        return n_cases, True
                                    g = ch.call(addr, method_id(f"get({sig_i})") + w(x))
                                    if g.ok != ok_idx or (g.ok and g.out != w(want_arr[v])):
                                        fail("storage DynArray subscript read: wrong value or missing revert", f"get({hex(x)})", g.out.hex() if g.ok else "revert")
                                        return n_cases, True
                            # --- calldata read
                            if dyn:
                                data = w(C0) + w(128) + w(C1) + w(x) + enc_arr(True, cur)
                            else:
                                data = w(C0) + enc_arr(False, cur) + w(C1) + w(x)
                            r = ch.call(addr, method_id(f"cd(uint256,{arr_abi},uint256,{sig_i})") + data)
                            if r.ok != ok_idx or (r.ok and r.out != w(C0) + w(cur[v]) + w(C1)):
                                fail("calldata subscript read: wrong value or missing revert", f"cd(.., {cur}, .., {hex(x)})", r.out.hex() if r.ok else "revert")
                                return n_cases, True
                            # --- immutables read (static array of 3)
                            if ln == 3:
                                r = ch.call(addr, method_id(f"imm({sig_i})") + w(x))
                                if r.ok != ok_idx or (r.ok and r.out != w(C0) + w([101, 102, 103][v]) + w(C1)):
                                    fail("immutable subscript read: wrong value or missing revert", f"imm({hex(x)})", r.out.hex() if r.ok else "revert")
                                    return n_cases, True
                            stats["ok" if ok_idx else "revert"] += 1
                    # --- slice: start + length <= len(b) or revert (check_buffer_overflow_ir)
                    if (ityp, dyn, transient) == ("uint256", False, False):
                        for blen in (0, 1, 31, 32, 33, 40):
                            body = bytes(rnd.randrange(1, 256) for _ in range(blen))
                            grid = sorted(g for g in {0, 1, blen - 1, blen, blen + 1, 32, 40, 41, 2**255, 2**256 - 1, 2**256 - blen} if 0 <= g < 2**256)
                            for st_ in grid:
                                for ln_ in grid:
                                    pad = body + b"\0" * (-blen % 32)
                                    data = w(C0) + w(160) + w(C1) + w(st_) + w(ln_) + w(blen) + pad
                                    r = ch.call(addr, method_id("sl(uint256,bytes,uint256,uint256,uint256)") + data)
                                    exp_ok = st_ + ln_ <= blen
                                    n_cases += 1
                                    if exp_ok:
                                        res = body[st_:st_ + ln_]
                                        want = w(C0) + w(96) + w(C1) + w(len(res)) + res + b"\0" * (-len(res) % 32)
                                    if r.ok != exp_ok or (r.ok and r.out != want):
                                        ctx.violation("failing-input", "slice: out-of-bounds start/length accepted, in-bounds rejected, or wrong bytes",
                                                      dict(base, call=f"sl(.., 0x{body.hex()}, .., {st_}, {ln_})", expected="ok" if exp_ok else "revert",
                                                           observed=r.out.hex() if r.ok else "revert"))
                                        return n_cases, True
                    # --- append / pop at the bound (storage, non-transient)
                    if dyn and not transient:
                        ch.call(addr, method_id("setup_short(uint256)") + w(0))
                        model = []
                        for step in range(9):
                            if rnd.random() < 0.6:
                                val = rnd.randrange(1, 2**256)
                                r = ch.call(addr, method_id("push(uint256)") + w(val))
                                exp_ok = len(model) < 3
                                if exp_ok:
                                    model.append(val)
                                what = f"push({val})"
                            else:
                                r = ch.call(addr, method_id("pop_()"))
                                exp_ok = len(model) > 0
                                popped = model.pop() if exp_ok else None
                                what = "pop_()"
                                if r.ok and exp_ok and r.out != w(popped):
                                    ctx.violation("failing-input", "pop returned the wrong element", dict(base, call=what, observed=r.out.hex(), expected=popped))
                                    return n_cases, True
                            d = ch.call(addr, method_id("dump()"))
                            n_cases += 1
                            if r.ok != exp_ok or not d.ok or d.out != w(C0) + w(96) + w(C1) + enc_arr(True, model):
                                ctx.violation("failing-input", "append/pop at the bound: wrong effect, missing revert or canary changed",
                                              dict(base, call=what, expected_ok=exp_ok, expected_array=model, observed=(r.ok, d.out.hex())))
                                return n_cases, True
    ctx.corr["canaries"] = dict(stats, cases=n_cases, configs=[c.name for c in cfgs])
    return n_cases, False



# ------------------------------------------------------------------ session 3: slice() buffer arithmetic + top-of-frame buffers
def part_slice_buffers(ctx, quick, earlier_found):
    """GenSliceBuf.v from the real Slice.build_IR / copy_bytes / MemoryAllocator, PropsSliceBuf.v (every store of the copy inside
    the allocated buffer); then the canaries with a builtin's buffer as the topmost allocation of a callee frame (they are the
    Search for the Coq statement: members the python mirror of alloc_ok finds under-allocated become directed shapes)."""
    import time as _t
    from vlib.configs import configs, core_configs
    sb, sb_err, directed = {"ok": True}, None, []
    _t9 = _t.time()
    try:
        from vlib.c04_slicebuf import gen_slice_buf
        with warnings.catch_warnings():
            warnings.simplefilter("ignore")
            sb_text, sb_st = gen_slice_buf()
        (COQ / "C04" / "GenSliceBuf.v").write_text(sb_text)
        ctx.corr["slice_buffer_family"] = {"family_size": sb_st["family_size"], "distinct_shapes": sb_st["distinct_shapes"],
                                           "under_allocated": len(sb_st["under_allocated"])}
        ctx.extra["family_size"] = ctx.extra.get("family_size", 0) + sb_st["family_size"]
        # the python mirror of alloc_ok only directs the search; the verdict is Coq's
        cands = []
        for i in sb_st["under_allocated"]:
            key = (i["loc"], i["typ"], max(i["cap"] or 2, 2), i["len"])
            if i["loc"] in ("storage", "transient", "memory") and i["typ"] in ("Bytes", "String") and key not in cands:
                cands.append(key)
        directed = cands[::max(1, len(cands) // 6)][:6]     # a spread of at most 6 members
    except Exception as e:
        sb_err = f"{type(e).__name__}: {e}"
    if sb_err is None:
        coqrun.build_sequence(["C03/LIR.v"], force=False)
        sb = ctx.coq_build_cached(SLICEBUF_FILES, deps=["C03/LIR.v"])
        if sb["ok"]:
            ctx.extra["syntactic_matches"] = ctx.extra.get("syntactic_matches", 0) + sb_st["family_size"]
    ctx.log(f"part slice buffer arithmetic (export + coq) {_t.time() - _t9:.1f}s")
    n9, f9 = 0, False
    if not earlier_found:
        from vlib import c04_topbuf
        _t9 = _t.time()
        # quick: both legacy pipelines + one venom pipeline (the 4th core configuration only in thorough, with the covering set)
        n9, f9 = c04_topbuf.run(ctx, core_configs()[:3] if quick else configs("quick"), 3 if quick else 12, directed=directed)
        ctx.log(f"part top-of-frame buffers {_t.time() - _t9:.1f}s")
    if (sb_err is not None or not sb["ok"]) and not (earlier_found or f9):
        if sb_err is not None:
            ctx.violation("translator-rejected", "cannot export the buffer arithmetic of Slice.build_IR / copy_bytes: " + sb_err, {"error": sb_err})
        else:
            ctx.violation("theorem-broken", f"{sb.get('failed_lemma')} in {sb['file']} (stores of the legacy slice() copy vs. the buffer it allocates)",
                          {"theorem": sb.get("failed_lemma"), "file": sb["file"], "coq_output": sb["out"][-1500:],
                           "under_allocated_members": [str(d) for d in directed]})
    return n9, f9


# ------------------------------------------------------------------ session 3 (seed m6): arguments / indices that mutate their own container
def part_selfmut(ctx, quick, earlier_found):
    """GenSelfMut.v: every (array, element) pair the real Expr.parse_Call hands to append_dyn_array while compiling the family, with
    PropsSelfMut.v (no element expression that may change the array is evaluated after the length load); then the canaries, which are
    the Search for that statement: append / subscript-assignment whose argument / index / value expression appends to or pops from the
    same DynArray, judged against a python model of the source on the returned array, the stored array and guard variables."""
    import time as _t
    from vlib.configs import configs, core_configs
    sm, sm_err, st = {"ok": True}, None, {}
    _t0 = _t.time()
    try:
        from vlib.c04_selfmut import gen_append_sites
        with warnings.catch_warnings():
            warnings.simplefilter("ignore")
            text, st = gen_append_sites()
        (COQ / "C04" / "GenSelfMut.v").write_text(text)
        ctx.corr["append_site_family"] = {k: v for k, v in st.items() if k != "unordered"}
        ctx.extra["family_size"] = ctx.extra.get("family_size", 0) + st["family_size"]
    except Exception as e:
        sm_err = f"{type(e).__name__}: {e}"
    if sm_err is None:
        sm = ctx.coq_build_cached(SELFMUT_FILES)
        if sm["ok"]:
            ctx.extra["syntactic_matches"] = ctx.extra.get("syntactic_matches", 0) + st["family_size"]
    ctx.log(f"part append sites (export + coq) {_t.time() - _t0:.1f}s")
    n10, f10 = 0, False
    if not earlier_found:
        from vlib import c04_selfmut
        _t0 = _t.time()
        n10, f10 = c04_selfmut.run(ctx, core_configs() if quick else configs("quick"), 2 if quick else 6)
        ctx.log(f"part self-mutating arguments {_t.time() - _t0:.1f}s")
    if (sm_err is not None or not sm["ok"]) and not (earlier_found or f10):
        if sm_err is not None:
            ctx.violation("translator-rejected", "cannot observe the append sites of Expr.parse_Call / append_dyn_array: " + sm_err, {"error": sm_err})
        else:
            ctx.violation("theorem-broken", f"{sm.get('failed_lemma')} in {sm['file']} (an element expression that may change the array is evaluated "
                          "after append_dyn_array has loaded the length)",
                          {"theorem": sm.get("failed_lemma"), "file": sm["file"], "coq_output": sm["out"][-1500:],
                           "unordered_sites": st.get("unordered", [])})
    return n10, f10


# ------------------------------------------------------------------ Search for a broken template
def search_template(ctx):
    """A bounds-check template changed / theorem broke: the canary harness (which judges by the property's own
    oracle) has already run on all configurations; nothing else to enumerate."""
    return False


def run(ctx):
    from vlib.c04_export import gen_checks, gen_legacy_alloc
    from vlib.configs import configs, core_configs
    quick = ctx.tier != "thorough"
    gen_err = None
    try:
        with warnings.catch_warnings():
            warnings.simplefilter("ignore")
            text, st = gen_checks()
        (COQ / "C04" / "GenChecks.v").write_text(text)
        (COQ / "C04" / "GenLegacy.v").write_text(gen_legacy_alloc())
        from vlib.c04_export import gen_venom_alloc
        (COQ / "C04" / "GenVenomAlloc.v").write_text(gen_venom_alloc())
        ctx.extra["family_size"] = st["family_size"]
        ctx.extra["syntactic_matches"] = st["family_size"]
        ctx.corr["index_check_family"] = st
    except Exception as e:
        gen_err = f"{type(e).__name__}: {e}"
    # C03/LIR.v (owned by the C03 worker, static) must be compiled; never force-rebuild someone else's file
    coqrun.build_sequence(["C03/LIR.v", "C03/VSL.v"], force=False)
    b = {"ok": False, "file": "C04/GenChecks.v", "failed_lemma": None, "out": gen_err or ""}
    if gen_err is None:
        import time as _t
        _t0 = _t.time()
        b = ctx.coq_build(COQ_FILES)
        ctx.log(f"coq build {_t.time() - _t0:.1f}s")
    model_ok = (COQ / "C04" / "AllocModel.vo").exists() and (b["ok"] or "AllocModel" not in str(b.get("file", "")))
    if not b["ok"]:
        ctx.extra["syntactic_matches"] = 0
    total, found = 0, False
    import time as _t
    _t1 = _t.time()
    n1, f1 = part_venom_alloc(ctx, model_ok, 300 if quick else 3000)
    ctx.log(f"part venom alloc {_t.time() - _t1:.1f}s")
    import time as _t
    _t2 = _t.time()
    n2, f2 = part_legacy_alloc(ctx, model_ok, 150 if quick else 1500)
    ctx.log(f"part legacy alloc {_t.time() - _t2:.1f}s")
    import time as _t
    _t3 = _t.time()
    n3, f3 = part_canaries(ctx, core_configs() if quick else configs("quick"))
    ctx.log(f"part canaries {_t.time() - _t3:.1f}s")
    import time as _t
    _t4 = _t.time()
    n4, f4 = part_frames(ctx, model_ok, 25 if quick else 250)
    ctx.log(f"part frames {_t.time() - _t4:.1f}s")
    from vlib import c04_canary2, c04_venom
    import time as _t
    _t5 = _t.time()
    n5, f5 = c04_venom.run(ctx, model_ok, 12 if quick else 150)
    ctx.log(f"part venom passes {_t.time() - _t5:.1f}s")
    import time as _t
    _t6 = _t.time()
    n6, f6 = c04_canary2.run(ctx, core_configs() if quick else configs("quick"))
    ctx.log(f"part canaries2 {_t.time() - _t6:.1f}s")
    n7, f7 = 0, False
    if not (f1 or f2 or f3 or f4 or f5 or f6):
        from vlib import c04_copy
        _t7 = _t.time()
        n7, f7 = c04_copy.run(ctx, core_configs() if quick else configs("quick"), 3 if quick else None)
        ctx.log(f"part copy canaries {_t.time() - _t7:.1f}s")
    n8, f8 = 0, False
    if not (f1 or f2 or f3 or f4 or f5 or f6 or f7):
        from vlib import c04_frames
        _t8 = _t.time()
        n8, f8 = c04_frames.run(ctx, core_configs() if quick else configs("quick"), 3 if quick else 12)
        ctx.log(f"part nested frames {_t.time() - _t8:.1f}s")
    # ---- session 3: slice() buffer arithmetic under Coq (O-tie) + builtin buffers at the top of a callee frame
    n9, f9 = part_slice_buffers(ctx, quick, f1 or f2 or f3 or f4 or f5 or f6 or f7 or f8)
    # ---- session 3 (seed m6): append / subscript-assignment whose argument or index mutates the same container
    n10, f10 = part_selfmut(ctx, quick, f1 or f2 or f3 or f4 or f5 or f6 or f7 or f8 or f9)
    total = n1 + n2 + n3 + n4 + n5 + n6 + n7 + n8 + n9 + n10
    found = f1 or f2 or f3 or f4 or f5 or f6 or f7 or f8 or f9 or f10
    if (gen_err is not None or not b["ok"]) and not found:
        if gen_err is not None:
            ctx.violation("translator-rejected", "cannot export the bounds-check templates: " + gen_err, {"error": gen_err})
        else:
            ctx.violation("theorem-broken", f"{b.get('failed_lemma')} in {b['file']}",
                          {"theorem": b.get("failed_lemma"), "file": b["file"], "coq_output": b["out"][-1500:]})
    ctx.corr["evaluations"] = total
    ctx.corr["distinct_nontrivial"] = total
    ctx.corr["rule"] = ("distinct reserved-set/size pairs + distinct legacy op sequences + canary calls (config x index type x container x "
                        "location x index value) + whole-value copies (config x type x source location x destination location x length); every case "
                        "exercises an allocation, a subscript or a copy")
    ctx.trusted += ["Coq 8.16.1 kernel + vm_compute", "coq/C03/LIR.v evaluator + Base/Word256.v",
                    "tools/vlib/c04_export.py + c03_export.lir_term (IRnode -> LIR; the DynArray length load is replaced by the variable `len`)",
                    "hand models coq/C04/AllocModel.v (validated by exact-output differential)", "pyrevm"]
    ctx.assumptions += ["index_check_iff / buffer_overflow_check_iff: operands are EVM words (0 <= x < 2^256) and evaluate without side effects",
                        "legacy_alloc_inv_partial assumes the free-list invariant linv (its preservation by deallocate is not proved)"]
