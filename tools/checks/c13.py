"""C13: deployment installs runtime code + immutables -- Coq theorems about the offset arithmetic, both
deploy epilogues and the blueprint stub + deployment of generated constructors on an EVM."""
import warnings

from vlib import coqrun
from vlib.common import COQ
from vlib.configs import compile_src, configs, core_configs
from vlib.evm import Chain, DEPLOYER
from vlib.py2coq import Translator, Unsupported

LEVEL = "proof"
META = {
    "category": "proof",
    "text": "Coq theorems: (legacy) with start,end = _runtime_code_offsets(ctor_mem, codelen) -- regenerated from "
            "vyper/ir/compile_ir.py on every run -- CODECOPY(start) + RETURN(start, codelen+imm) returns exactly "
            "runtime ++ immutables for every frame size / code length / immutables and every other memory content, "
            "the frame [0,ctor_mem) lies below the immutables at `end` and start+codelen=end; the iload msize guard "
            "puts msize past the immutables; (venom) mcopy/identity-copy then codecopy returns runtime ++ immutables "
            "for every destination; the 10-byte ERC-5202 stub, executed on a mini EVM, returns exactly FE7100 ++ "
            "initcode for every payload < 2^16. Tie: generated constructors (0..8 immutables of 10 types, ABI args, "
            "internal call, frame>>code and code>>frame) compiled under all configurations and deployed on pyrevm: "
            "code at the address = bytecode_runtime ++ immutables per layout.code_layout, getters, failing deployments, "
            "blueprint bytes = Coq model, create_from_blueprint = direct deployment.",
    "level_note": "Trusted: Coq kernel; py2coq translator (validated by CPython differential); pyrevm as EVM. The "
                  "epilogue memory programs and the stub interpreter are hand models of the emitted instruction "
                  "sequences (tied by exact deployed bytes, not by translation); constructor code generation itself is "
                  "covered only by the EVM differential.",
    "technique": "Coq proof over py2coq-translated offsets + hand-modelled epilogues with EVM differential correspondence",
}

KEY_TRUNC = "ctor-args-truncated-accepted"
KINDS = ["uint256", "int128", "address", "bool", "bytes32", "uint8", "int256", "String[10]", "Bytes[40]", "uint256[3]"]


def abi_t(t):
    return {"String[10]": "string", "Bytes[40]": "bytes"}.get(t, t)


def rand_value(rnd, t):
    if t == "uint256":
        return rnd.choice([0, 1, 2**256 - 1, 2**255, rnd.randrange(2**256)])
    if t == "int256":
        return rnd.choice([0, -1, 2**255 - 1, -(2**255), rnd.randrange(-(2**255), 2**255)])
    if t == "int128":
        return rnd.choice([0, -1, 2**127 - 1, -(2**127), rnd.randrange(-(2**127), 2**127)])
    if t == "uint8":
        return rnd.choice([0, 1, 255, rnd.randrange(256)])
    if t == "address":
        return "0x" + bytes(rnd.randrange(256) for _ in range(20)).hex()
    if t == "bool":
        return rnd.random() < 0.5
    if t == "bytes32":
        return bytes(rnd.randrange(256) for _ in range(32))
    if t == "String[10]":
        return "".join(rnd.choice("abcXYZ019 _") for _ in range(rnd.choice([0, 1, 9, 10])))
    if t == "Bytes[40]":
        return bytes(rnd.randrange(256) for _ in range(rnd.choice([0, 1, 31, 32, 33, 40])))
    if t == "uint256[3]":
        return [rnd.randrange(2**256) for _ in range(3)]
    raise ValueError(t)


def exact_code(ch, addr):
    """pyrevm returns analysed bytecode = code ++ 33 zero bytes; strip the padding and confirm with the
    account's code hash (keccak of the real code) so the length is exact."""
    from eth_utils import keccak
    c = ch.code(addr)
    if not c:
        return b""      # account without code (e.g. the init code ended in STOP): nothing was deployed
    if len(c) < 33 or any(c[-33:]):
        raise RuntimeError("unexpected pyrevm code padding")
    c = c[:-33]
    h = ch.evm.basic(addr).code_hash
    h = bytes.fromhex(h[2:]) if isinstance(h, str) else bytes(h)
    if keccak(c) != h:
        raise RuntimeError("code hash mismatch after stripping pyrevm padding")
    return c


def word(v):
    return (v % 2**256).to_bytes(32, "big")


def section_bytes(t, v):
    """expected content of an immutable in the data section (memory/storage-style layout)."""
    if t in ("uint256", "int256", "int128", "uint8"):
        return word(v), 32
    if t == "address":
        return word(int(v, 16)), 32
    if t == "bool":
        return word(int(v)), 32
    if t == "bytes32":
        return v, 32
    if t == "String[10]":
        b = v.encode()
        return word(len(b)) + b, 32 + len(b)   # compared prefix; total slot = 32 + ceil32(10)
    if t == "Bytes[40]":
        return word(len(v)) + v, 32 + len(v)
    if t == "uint256[3]":
        return b"".join(word(x) for x in v), 96
    raise ValueError(t)


def gen_contract(rnd, n_imm, frame, bloat, payable, internal):
    types = [rnd.choice(KINDS) for _ in range(n_imm)]
    lines = [f"A{i}: public(immutable({t}))" for i, t in enumerate(types)]
    lines += ["s: public(uint256)", "t: public(uint256)", ""]
    args = ", ".join([f"a{i}: {t}" for i, t in enumerate(types)] + ["q: uint256"])
    lines.append("@deploy")
    if payable:
        lines.append("@payable")
    lines.append(f"def __init__({args}):")
    if frame:
        lines.append(f"    buf: uint256[{frame}] = empty(uint256[{frame}])")
        lines.append(f"    for i: uint256 in range({frame}):")
        lines.append("        buf[i] = i + q")
    for i in range(n_imm):
        lines.append(f"    A{i} = a{i}")
    lines.append("    self.s = self._h(q)" if internal else "    self.s = q * 3 + 1")
    if frame:
        # read the whole frame back after the immutables were written: any overlap shows up in t
        lines += ["    acc: uint256 = 0", f"    for i: uint256 in range({frame}):", "        acc += buf[i]", "    self.t = acc"]
    else:
        lines.append("    self.t = 7")
    lines.append("")
    if internal:
        lines += ["@internal", "def _h(x: uint256) -> uint256:", "    return x * 3 + 1", ""]
    for k in range(bloat):
        lines += ["@external", f"def fn{k}(x: uint256, y: uint256) -> uint256:",
                  f"    return (x + {k * 1009 + 1}) * y + {k}", ""]
    return "\n".join(lines), types


def encode_args(types, vals, q):
    from eth_abi import encode
    return encode([abi_t(t) for t in types] + ["uint256"], list(vals) + [q])


def selector(sig):
    from eth_utils import keccak
    return keccak(sig.encode())[:4]


def getter_expect(t, v):
    from eth_abi import encode
    return encode([abi_t(t)], [v])


def check_getters(ch, addr, types, vals, q, frame):
    """every public immutable and the constructor-initialised storage read back; -> (first bad | None, #calls)"""
    gbad, n = None, 0
    for i, t in enumerate(types):
        if t == "uint256[3]":
            for j in range(3):
                r = ch.call(addr, selector(f"A{i}(uint256)") + word(j))
                n += 1
                if not r.ok or r.out != word(vals[i][j]):
                    gbad = (f"A{i}[{j}]", t, r.out.hex())
            continue
        r = ch.call(addr, selector(f"A{i}()"))
        n += 1
        if not r.ok or r.out != getter_expect(t, vals[i]):
            gbad = (f"A{i}", t, r.out.hex())
    for nm, want in (("s", q * 3 + 1), ("t", (frame * q + frame * (frame - 1) // 2) if frame else 7)):
        r = ch.call(addr, selector(nm + "()"))
        n += 1
        if not r.ok or r.out != word(want):
            gbad = (nm, "uint256", r.out.hex())
    return gbad, n


def gen_offsets(ctx):
    tr = Translator("vyper.ir.compile_ir")
    tr.translate_function("_runtime_code_offsets")
    (COQ / "C13" / "GenDeployOffsets.v").write_text(tr.render())


def offsets_differential(ctx):
    from vyper.ir.compile_ir import _runtime_code_offsets
    rnd = ctx.rng("offs")
    g = [0, 1, 31, 32, 33, 64, 1000, 24576, 2**16, 2**20] + [rnd.randrange(2**18) for _ in range(6)]
    imports = ("From Verif Require Import Base.PyInt C13.GenDeployOffsets.\n"
               f"Definition G := {coqrun.zlist(g)}.")
    outs = coqrun.eval_zlists(imports, ["flat_map (fun p => match _runtime_code_offsets (fst p) (snd p) with "
                                        "Ok (s, e) => [s; e] | Err _ => [-1; -1] end) (list_prod G G)"], "c13offs")[0]
    bad = []
    k = 0
    for a in g:
        for b in g:
            if tuple(outs[2 * k:2 * k + 2]) != tuple(_runtime_code_offsets(a, b)):
                bad.append((a, b))
            k += 1
    return k, bad


FACTORY = """
@external
def mk(bp: address, {args}) -> address:
    return create_from_blueprint(bp, {names}, code_offset=3)
"""


def run(ctx):
    warnings.simplefilter("ignore")
    found = 0
    gen_ok = True
    try:
        gen_offsets(ctx)
    except Unsupported as e:
        gen_ok = False
        gen_err = str(e)
    b = {"ok": False, "file": "C13/GenDeployOffsets.v", "failed_lemma": None, "out": ""}
    files = (["C13/GenDeployOffsets.v"] if gen_ok else []) + ["C13/Deploy.v", "C13/DeployProofs.v"] + \
            (["C13/PropsDeploy.v"] if gen_ok else [])
    b = ctx.coq_build_cached(files, deps=["C16/Asm.v", "C16/HexBytes.v"])
    n_off, bad_off = (0, [])
    if gen_ok and (COQ / "C13" / "GenDeployOffsets.vo").exists():
        n_off, bad_off = offsets_differential(ctx)

    rnd = ctx.rng("ctors")
    cfgs = configs(ctx.tier)
    if ctx.tier == "thorough":
        cfgs = configs("quick") + rnd.sample(cfgs, 40)
    shapes = [  # (n_imm, frame words, bloat functions, payable, internal call)
        (0, 0, 0, False, False), (1, 0, 0, False, True), (3, 2000, 0, False, True), (2, 0, 60, True, True),
        (8, 300, 10, False, False), (5, 0, 0, True, True),
    ]
    n_deploy = n_fail = n_getters = n_bp = 0
    branch = {"frame>code": 0, "code>=frame": 0}
    stats = {"immutables": 0, "types": {}}
    bp_cases = []
    problems = []
    trunc_ok = []

    def report(kind, name, detail, key=None):
        nonlocal found
        if kind == "failing-input":
            found += 1
            if found > 4:
                return
        ctx.violation(kind, name, detail, key=key)

    for cfg in cfgs:
        for shape in shapes:
            n_imm, frame, bloat, payable, internal = shape
            src, types = gen_contract(rnd, n_imm, frame, bloat, payable, internal)
            vals = [rand_value(rnd, t) for t in types]
            q = rnd.randrange(2**32)
            try:
                out = compile_src(src, cfg, formats=("bytecode", "bytecode_runtime", "layout", "blueprint_bytecode", "abi") + (() if cfg.venom else ("asm",)))
            except Exception as e:  # noqa
                problems.append(f"{cfg.name}: compile failed {type(e).__name__}: {str(e)[:100]}")
                continue
            init = bytes.fromhex(out["bytecode"][2:])
            rt = bytes.fromhex(out["bytecode_runtime"][2:])
            layout = out["layout"].get("code_layout", {})
            imm_len = sum(v["length"] for v in layout.values())
            base = {"source": src, "config": cfg.name, "ctor_args": [str(v) for v in vals] + [str(q)]}
            args = encode_args(types, vals, q)
            ch = Chain(cfg.evm)
            addr = ch.deploy(init + args, value=(5 if payable else 0))
            n_deploy += 1
            if addr is None:
                report("failing-input", "deployment with valid constructor arguments fails", base,
                       key=f"c13:deployfail:{cfg.name}:{shape}")
                continue
            code = exact_code(ch, addr)
            exp_parts = {}
            ok = code[:len(rt)] == rt and len(code) == len(rt) + imm_len
            for i, t in enumerate(types):
                ent = layout.get(f"A{i}")
                if ent is None:
                    ok = False
                    continue
                want, n = section_bytes(t, vals[i])
                got = code[len(rt) + ent["offset"]:len(rt) + ent["offset"] + ent["length"]]
                exp_parts[f"A{i}"] = (want.hex(), got.hex())
                if got[:n] != want or len(got) != ent["length"]:
                    ok = False   # bytes of a bytestring slot past its length are unspecified (venom leaves stale data)
                if any(got[n:]):
                    stats["dirty_slack"] = stats.get("dirty_slack", 0) + 1
                stats["types"][t] = stats["types"].get(t, 0) + 1
            stats["immutables"] += len(types)
            if not ok:
                d = dict(base)
                d.update({"bytecode_runtime_len": len(rt), "deployed_len": len(code), "immutables_len": imm_len,
                          "code_layout": layout, "expected_vs_got": exp_parts,
                          "runtime_prefix_equal": code[:len(rt)] == rt})
                report("failing-input", "deployed code != bytecode_runtime ++ immutables per layout.code_layout", d,
                       key=f"c13:code:{cfg.name}:{shape}")
                continue
            # getters / constructor-initialised state
            gbad, ng = check_getters(ch, addr, types, vals, q, frame)
            n_getters += ng
            if gbad:
                d = dict(base)
                d["getter"] = gbad
                report("failing-input", "deployed contract does not read back constructor-assigned value", d,
                       key=f"c13:getter:{cfg.name}:{shape}")
            # failing deployments
            fails = []
            if not payable:
                fails.append(("value to non-payable constructor", init + args, 1))
            head = 32 * (sum(3 if tt == "uint256[3]" else 1 for tt in types) + 1)
            fails.append(("truncated constructor arguments", init + args[:head - 1], 5 if payable else 0))
            fails.append(("truncated constructor arguments", init, 5 if payable else 0))
            if len(args) > head:   # dynamic tail cut: same semantics as calldata past calldatasize (zeros), counted only
                ch3 = Chain(cfg.evm)
                a3 = ch3.deploy(init + args[:head] + args[head:-1][: max(0, len(args) - head - 33)], value=5 if payable else 0)
                stats["tail_cut"] = stats.get("tail_cut", 0) + 1
                if a3 is not None and exact_code(ch3, a3):
                    stats["tail_cut_accepted"] = stats.get("tail_cut_accepted", 0) + 1
            for i, t in enumerate(types):
                bad_word = {"uint8": word(256), "bool": word(2), "address": word(2**160), "int128": word(2**127)}.get(t)
                if bad_word and all(tt not in ("String[10]", "Bytes[40]") for tt in types[:i]):
                    off = 32 * sum(3 if tt == "uint256[3]" else 1 for tt in types[:i])
                    fails.append((f"out-of-range {t} argument", init + args[:off] + bad_word + args[off + 32:], 5 if payable else 0))
            for what, data, value in fails:
                n_fail += 1
                ch2 = Chain(cfg.evm)
                a2 = ch2.deploy(data, value=value)
                if a2 is not None and exact_code(ch2, a2):
                    if what == "truncated constructor arguments":
                        trunc_ok.append(cfg.name)
                        if len(trunc_ok) > 1:
                            continue
                    d = dict(base)
                    d["bad_deployment"] = what
                    d["initcode_plus_args"] = data.hex()[-600:]
                    d["value"] = value
                    if what == "truncated constructor arguments":
                        d["note"] = ("constructor arguments are CODECOPYed from code_end without comparing CODESIZE with "
                                     "the static size of the argument tuple; bytes past the end of the init code read as zero")
                        ctx.violation("failing-input", "deployment succeeds with truncated (too short) constructor "
                                      "argument data: missing bytes are read as zero", d, key=KEY_TRUNC)
                        if ctx.is_known(KEY_TRUNC) is None:
                            found += 1
                        continue
                    report("failing-input", f"deployment succeeds despite {what}", d, key=f"c13:badok:{cfg.name}:{what}")
            # legacy: which branch of max(ctor_mem, codelen) this case exercises, read off the real assembly
            if not cfg.venom:
                import re
                m = re.search(r"CONST mem_deploy_end (\d+)", out["asm"])
                end = int(m.group(1)) if m else -1
                if end < len(rt):
                    report("failing-input", "mem_deploy_end is below the runtime code length (runtime copy would start "
                           "at a negative address / overlap the immutables)", dict(base, mem_deploy_end=end, codelen=len(rt)),
                           key=f"c13:end:{cfg.name}:{shape}")
                branch["frame>code" if end > len(rt) else "code>=frame"] += 1
            # blueprint
            bpb = bytes.fromhex(out["blueprint_bytecode"][2:])
            bp_cases.append((cfg, src, types, vals, q, init, bpb, code, shape, payable))

    # ---- round 2: module initialisers / composite immutables / immutables in internal + __default__;
    #      msize-based builtins in the constructor + static ties of the msize guard and the venom copy instruction
    from vlib import c13_ext
    ext = {"module_deployments": 0, "module_calls": 0, "module_slots": 0, "msize_ctor_deployments": 0,
           "legacy_guard_checked": 0, "venom_copy_kind": {}}
    def compile_skip(pr, cfg, what):
        """compile crashes under configurations carrying disable_* flags / inline thresholds are C20's business:
        recorded, not reported here; a flag-free configuration that does not compile is reported."""
        if pr and all(x.startswith("compile failed") for x in pr) and (cfg.flags or cfg.inline_threshold is not None):
            ext.setdefault("compile_skips", {})[f"{what}:{cfg.name}"] = pr[0][:120]
            return True
        return False

    for cfg in cfgs:
        pr, st = c13_ext.modules_case(ctx, cfg, rnd, exact_code, selector)
        if compile_skip(pr, cfg, "modules"):
            pr = []
        ext["module_deployments"] += st["deploy"]
        ext["module_calls"] += st["calls"]
        ext["module_slots"] += st["slots"]
        if pr:
            report("failing-input", "module-initialiser constructor: " + pr[0][:160],
                   {"source": c13_ext.MAIN, "lib.vy": c13_ext.LIB, "config": cfg.name, "problems": pr[:6]},
                   key=f"c13:modules:{cfg.name}:{pr[0][:40]}")
        pr, n_er, sk = c13_ext.early_return_cases(ctx, cfg, rnd, exact_code, selector, compile_src)
        ext["early_return_deployments"] = ext.get("early_return_deployments", 0) + n_er
        for k, v in sk.items():
            ext.setdefault("early_return_skipped", {})[k] = v
        if pr:
            name, src, what, a = pr[0]
            report("failing-input", f"constructor with early return ({name}): {what}",
                   {"source": src, "config": cfg.name, "ctor_arg_a": a, "problems": [(x[0], x[2], x[3]) for x in pr[:8]]},
                   key="venom-ctor-early-return-deploys-empty" if cfg.venom else f"c13:early-return:{cfg.name}:{name}")
        pr, n_cc, stc = c13_ext.call_ctor_cases(ctx, cfg, rnd, exact_code, selector, compile_src)
        if pr and all(x[2].startswith("compile failed") for x in pr) and (cfg.flags or cfg.inline_threshold is not None):
            ext.setdefault("compile_skips", {})[f"callctor:{cfg.name}"] = pr[0][2][:120]
            pr = []
        ext["call_ctor_deployments"] = ext.get("call_ctor_deployments", 0) + n_cc
        for k, v in stc.items():
            ext.setdefault("call_ctor_stub", {})[k] = ext.get("call_ctor_stub", {}).get(k, 0) + v
        if pr:
            var, src, what = pr[0]
            report("failing-input", "constructor that receives return data before the deploy epilogue: " + what[:200],
                   {"source": src, "oracle": c13_ext.ORACLE, "config": cfg.name, "problems": [(x[0], x[2]) for x in pr[:8]]},
                   key=f"c13:callctor:{cfg.name}:{var}")
        pr, st = c13_ext.msize_case(ctx, cfg, rnd, exact_code, selector, compile_src)
        if compile_skip(pr, cfg, "msize"):
            pr = []
        ext["msize_ctor_deployments"] += 1
        ext["legacy_guard_checked"] += st["guard_checked"]
        if st["copy_kind"]:
            ext["venom_copy_kind"][st["copy_kind"]] = ext["venom_copy_kind"].get(st["copy_kind"], 0) + 1
        if pr:
            report("failing-input", "constructor with msize-based builtins / deploy epilogue shape: " + pr[0][:160],
                   {"source": c13_ext.MSIZE_CTOR, "child": c13_ext.CHILD, "config": cfg.name, "problems": pr[:6]},
                   key=f"c13:msize:{cfg.name}:{pr[0][:40]}")

    # ---- blueprint: bytes = Coq model; deploy; create_from_blueprint == direct deployment
    from vlib import c16_asm
    exprs = []
    for (cfg, src, types, vals, q, init, bpb, code, shape, payable) in bp_cases:
        exprs.append(f"match blueprint {c16_asm.coq_bytes(init)} with Ok b => leq b {c16_asm.coq_bytes(bpb)} | Err _ => false end")
    imports = ("From Verif Require Import Base.PyInt C13.Deploy C16.HexBytes.\nOpen Scope list_scope.\n"
               "Fixpoint leq (a b : list Z) : bool := match a, b with [], [] => true | x :: a', y :: b' => "
               "(x =? y) && leq a' b' | _, _ => false end.")
    outs = coqrun.eval_cases(imports, exprs, "c13bp", shard=12, timeout=600) if exprs else []
    bp_model_bad = [i for i, o in enumerate(outs) if o != "true"]
    for i, (cfg, src, types, vals, q, init, bpb, code, shape, payable) in enumerate(bp_cases):
        want = bytes([0x61]) + (len(init) + 3).to_bytes(2, "big") + bytes.fromhex("3d81600a3d39f3") + b"\xfe\x71\x00" + init
        base = {"source": src, "config": cfg.name}
        if bpb != want:
            report("failing-input", "blueprint_bytecode is not stub ++ FE7100 ++ initcode", dict(base, got=bpb.hex()[:200]),
                   key=f"c13:bpbytes:{cfg.name}")
            continue
        if i % 3 and ctx.tier == "quick":
            continue
        ch = Chain(cfg.evm)
        bp_addr = ch.deploy(bpb)
        if bp_addr is None or exact_code(ch, bp_addr) != b"\xfe\x71\x00" + init:
            report("failing-input", "deploying blueprint_bytecode does not install FE7100 ++ initcode", base,
                   key=f"c13:bpdeploy:{cfg.name}")
            continue
        fargs = ", ".join([f"a{k}: {t}" for k, t in enumerate(types)] + ["q: uint256"])
        names = ", ".join([f"a{k}" for k in range(len(types))] + ["q"])
        try:
            fout = compile_src(FACTORY.format(args=fargs, names=names), cfg, formats=("bytecode",))
        except Exception as e:  # noqa
            problems.append(f"{cfg.name}: factory compile failed {type(e).__name__}")
            continue
        fa = ch.deploy(bytes.fromhex(fout["bytecode"][2:]))
        from eth_abi import encode
        sig = "mk(address," + ",".join(abi_t(t).replace("uint256[3]", "uint256[3]") for t in types) + ("," if types else "") + "uint256)"
        data = selector(sig) + encode(["address"] + [abi_t(t) for t in types] + ["uint256"], [bp_addr] + list(vals) + [q])
        r = ch.call(fa, data)
        n_bp += 1
        if payable:
            pass  # created without value: payable constructors accept 0
        child = "0x" + r.out[-20:].hex() if r.ok and len(r.out) == 32 else None
        if child is None or exact_code(ch, child) != code:
            d = dict(base)
            d["create_from_blueprint_ok"] = r.ok
            d["child_code_equal_direct"] = None if child is None else exact_code(ch, child) == code
            report("failing-input", "create_from_blueprint result differs from direct deployment", d,
                   key=f"c13:bpcreate:{cfg.name}:{shape}")
            continue
        gbad, ng = check_getters(ch, child, types, vals, q, shape[1])
        n_getters += ng
        if gbad:
            report("failing-input", "contract created by create_from_blueprint reads back different values than a direct "
                   "deployment", dict(base, getter=gbad), key=f"c13:bpgetter:{cfg.name}:{shape}")

    if bad_off and not found:
        ctx.violation("correspondence-broken", "py2coq model of _runtime_code_offsets disagrees with CPython", {"cases": bad_off[:5]})
    if bp_model_bad and not found:
        c = bp_cases[bp_model_bad[0]]
        ctx.violation("correspondence-broken", "Coq blueprint model disagrees with blueprint_bytecode output",
                      {"source": c[1], "config": c[0].name})
    if not gen_ok and not found:
        ctx.violation("translator-rejected", "py2coq cannot translate _runtime_code_offsets: " + gen_err, {"error": gen_err})
    elif not b["ok"] and not found:
        ctx.violation("theorem-broken", f"{b.get('failed_lemma')} in {b['file']}",
                      {"theorem": b.get("failed_lemma"), "file": b["file"], "coq_output": b["out"][-1500:]})
    if n_deploy == 0:
        ctx.violation("correspondence-broken", "no constructor could be compiled", {"problems": problems[:5]})

    ctx.corr.update({
        "evaluations": n_deploy + n_fail + n_bp + n_off + len(bp_cases) + ext["module_deployments"] + ext["msize_ctor_deployments"] + ext.get("early_return_deployments", 0) + ext.get("call_ctor_deployments", 0),
        "distinct_nontrivial": n_deploy + n_fail + n_bp + ext["module_deployments"] + ext["msize_ctor_deployments"],
        "rule": "deployments of distinct generated (constructor source, configuration, argument values); failing "
                "deployments counted separately; + offset-function grid cases and blueprint byte comparisons",
        "deployments": n_deploy, "must_fail_deployments": n_fail, "getter_calls": n_getters,
        "blueprint_bytes_vs_model": len(bp_cases), "create_from_blueprint": n_bp, "offset_grid_cases": n_off,
        "max_branch": branch, "immutables_checked": stats["immutables"], "immutable_types": stats["types"], "bytestring_slots_with_dirty_slack": stats.get("dirty_slack", 0),
        "compile_problems": problems[:5], "configs": len(cfgs), "round2": ext, "truncated_args_accepted": len(trunc_ok),
        "dynamic_tail_cut_deployments": stats.get("tail_cut", 0), "dynamic_tail_cut_accepted": stats.get("tail_cut_accepted", 0),
    })
    ctx.samples.append({"shape": "(3 immutables, 2000-word frame, no bloat)", "checks": "code == runtime ++ section; getters"})
    ctx.trusted += ["Coq 8.16.1 kernel + vm_compute", "tools/vlib/py2coq.py (validated by CPython differential)",
                    "pyrevm as EVM; eth_abi as argument encoder"]
    ctx.assumptions += ["epilogue instruction sequences are hand-modelled (Deploy.v); tie = exact deployed bytes",
                        "module initialisers inside __init__ are not generated (single-file constructors only)"]


def prebuild(ctx):
    gen_offsets(ctx)
    return ctx.coq_build_cached(["C13/GenDeployOffsets.v", "C13/Deploy.v", "C13/DeployProofs.v", "C13/PropsDeploy.v"],
                                deps=["C16/Asm.v", "C16/HexBytes.v"])
