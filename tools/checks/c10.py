"""C10: state variables never alias; reported layout = used layout.

Coq: C10/GenAlloc.v (regenerated from data_positions.py / utils.py / types/base.py), Layout.v, Alloc.v (models),
Paths.v, AllocProofs.v, OverrideProofs.v (proofs), PropsC10.v (property theorems).
Tie: exact-output differential of the model (vm_compute) against the real compiler's `layout` output on generated
declaration trees (with / without storage-layout overrides), and a raw storage diff of deployed contracts."""
import json
import re
import subprocess
import sys
from pathlib import PurePath

from vlib import coqrun
from vlib.c10_decls import LOC_CODE, LOC_KEY, Module, Names, T, Var, gen_module, gen_type, gen_uses_chain
from vlib.c10_gen import gen_alloc_model
from vlib.common import COQ, REPO
from vlib.py2coq import Unsupported

LEVEL = "proof"
META = {
    "category": "proof",
    "text": "Coq theorems over the allocator regenerated from data_positions.py: for every declaration tree all allocated "
            "ranges per location are pairwise disjoint, off the lock slot and in range; the per-slot override allocator "
            "accepts exactly complete/disjoint/in-range files and honours them; distinct access paths of one variable "
            "address disjoint words; HashMap entries are disjoint under stated keccak hypotheses. The model is tied on "
            "every run to the real compiler's layout output (exact) and to raw storage diffs of deployed contracts. "
            "Both code generators: the address code templates (legacy get_element_ptr paths; venom whole accesses = HashMap "
            "levels with word / Bytes / String keys followed by array / DynArray / struct steps) are proved to address exactly "
            "the slot the layout assigns (inside the reported range or the entry hashed from the reported slot), distinct "
            "accesses being disjoint, and are matched syntactically against the real generators on every run.",
    "level_note": "Trusted: Coq kernel + vm_compute, py2coq (+MethodTranslator subclass) for allocate_slot/ceil32/"
                  "storage_size_in_words, hand model of the _allocate_layout_r / override recursion and of type sizes / "
                  "element addressing (validated by exact-output differential + storage diff, not proved about the Python). "
                  "Assumed: keccak spread/avoidance hypotheses (premises of mapping_slots_distinct; for the venom whole-access "
                  "theorems additionally: hash values are words and do not wrap, byte-string keys lie outside the freshly "
                  "allocated 64-byte key buffers, leaves (key / index values) are parameters of the observed lowering).",
    "technique": "Coq proof over py2coq-translated allocator + hand layout model, exact-output differential, EVM storage diff, "
                 "syntactic template match of the emitted address code (legacy + venom)",
}

COQ_FILES = ["C10/GenAlloc.v", "C10/Layout.v", "C10/Alloc.v", "C10/Paths.v", "C10/AllocProofs.v",
             "C10/OverrideProofs.v", "C10/AddrTemplates.v", "C10/VAddrTemplates.v", "C10/VAddrPath.v", "C10/VMapTemplates.v", "C10/RoundTrip.v", "C10/PropsC10.v",
             "C10/VFull.v", "C10/PropsC10V.v"]   # session-3 extension: whole venom accesses (key chains of any kinds + paths)
IMPORTS = "From Verif Require Import Base.PyInt C10.GenAlloc C10.Layout C10.Alloc.\nOpen Scope string_scope.\nOpen Scope Z_scope.\n"
TWO256 = 2**256
MAXES = {"storage": 2**256, "transient": 2**256, "code": 0x6000}
LOCK_KEY = "$.nonreentrant_key"


# ------------------------------------------------------------------ real compiler access
def compile_layout(top_src, bundle, evm, override=None, formats=("layout",), venom=False, level=None):
    from vyper.compiler import compile_code
    from vyper.compiler.input_bundle import JSONInput, JSONInputBundle
    from vyper.compiler.settings import OptimizationLevel, Settings
    ib = JSONInputBundle(bundle, [PurePath(".")])
    kw = {}
    if override is not None:
        p = PurePath("<override>")
        kw["storage_layout_override"] = JSONInput(data=override, contents=json.dumps(override), source_id=-1, path=p,
                                                  resolved_path=p)
    st = Settings(evm_version=evm, experimental_codegen=venom, optimize=level or OptimizationLevel.GAS)
    return compile_code(top_src, input_bundle=ib, output_formats=list(formats), settings=st, **kw)


def try_layout(top_src, bundle, evm, override=None):
    """('ok', layout) | ('reject', exception class name, message)"""
    import warnings
    from vyper.exceptions import VyperException, VyperInternalException
    try:
        with warnings.catch_warnings():
            warnings.simplefilter("ignore")
            out = compile_layout(top_src, bundle, evm, override)
        return ("ok", json.loads(json.dumps(out["layout"])))
    except (VyperException, VyperInternalException) as e:
        return ("reject", type(e).__name__, str(e)[:300])
    except Exception as e:  # raw exception: a rejection as far as C10 is concerned (diagnostic quality is C20)
        return ("reject", "raw:" + type(e).__name__, str(e)[:300])


def layout_get(layout, loc, path):
    d = layout.get(LOC_KEY[loc], {})
    for seg in path:
        if not isinstance(d, dict) or seg not in d:
            return None
        d = d[seg]
    return d


def layout_entries(layout):
    """all (loc, path, first, size) reported, incl. the lock"""
    out = []

    def walk(loc, d, path):
        for k, v in d.items():
            if isinstance(v, dict) and ("slot" in v or "offset" in v) and "type" in v:
                if loc == "code":
                    out.append((loc, path + (k,), v["offset"], v["length"]))
                else:
                    out.append((loc, path + (k,), v["slot"], v["n_slots"]))
            elif isinstance(v, dict):
                walk(loc, v, path + (k,))
    for loc, key in LOC_KEY.items():
        walk(loc, layout.get(key, {}), ())
    return out


def oracle_layout(layout):
    """The property's own oracle on a reported layout: ranges within one location pairwise disjoint (lock
    included), non-empty, inside [0, max).  Returns None or a description of the violation."""
    es = layout_entries(layout)
    for loc in LOC_KEY:
        rs = sorted((e for e in es if e[0] == loc), key=lambda e: e[2])
        for e in rs:
            if e[3] <= 0 or e[2] < 0 or e[2] + e[3] > MAXES[loc]:
                return f"{'.'.join(e[1])} in {loc} has range [{e[2]}, {e[2] + e[3]}) outside [0, {MAXES[loc]}) or empty"
        for a, b in zip(rs, rs[1:]):
            if a[2] + a[3] > b[2]:
                return f"{'.'.join(a[1])} [{a[2]},{a[2] + a[3]}) overlaps {'.'.join(b[1])} [{b[2]},{b[2] + b[3]}) in {loc}"
    return None


def case_detail(mod, evm, override=None):
    d = {"evm_version": evm, "top_source": mod.source(True),
         "modules": {str(k): v["content"] for k, v in mod.bundle().items()},
         "how": "vyper.compiler.compile_code(top_source, input_bundle=JSONInputBundle(modules), output_formats=['layout'], "
                "settings=Settings(evm_version=evm_version)" + (", storage_layout_override=JSONInput(data=override))" if override is not None else ")")}
    if override is not None:
        d["override"] = override
    return d


# ------------------------------------------------------------------ part B: default layout differential
def gen_cases(ctx, n, salt, override_friendly=False):
    rnd = ctx.rng(salt)
    cases = []
    for i in range(n):
        names = Names(f"_{i}_")
        transient_ok = rnd.random() < 0.6
        if rnd.random() < 0.15:
            mod = gen_uses_chain(rnd, names, transient_ok)     # `uses` chains 3 deep, all locations in nested modules
        else:
            mod = gen_module(rnd, names, "top", rnd.choice([0, 1, 1, 2, 3]), transient_ok, big=rnd.random() < 0.5,
                             code_budget=None, override_friendly=override_friendly)
        cases.append(mod)
    return cases


def expected_from_model(mod, zl):
    """model output [slot, (loc, off, size)*] -> dict path -> (loc, off, size); None when the model rejects"""
    if zl == [-1]:
        return None
    flat = mod.flat()
    assert len(zl) == 1 + 3 * len(flat), (len(zl), len(flat))
    exp = {}
    for k, (path, var) in enumerate(flat):
        loc, off, size = zl[1 + 3 * k: 4 + 3 * k]
        assert loc == LOC_CODE[var.loc]
        exp[path] = (var.loc, off, size)
    return {"lock": zl[0], "vars": exp}


def compare_default(ctx, mod, evm, exp, stats):
    """returns True if a violation was reported"""
    res = try_layout(mod.source(True), mod.bundle(), evm)
    lockloc = "transient" if evm in ("cancun", "prague") else "storage"
    if res[0] == "reject":
        stats["reject"] = stats.get("reject", 0) + 1
        if exp is None and res[1] == "StorageLayoutException":
            return False
        if exp is None:
            ctx.violation("correspondence-broken", "model rejects (allocator overflow) but the compiler raised a different error",
                          dict(case_detail(mod, evm), compiler_error=res[1:]))
            return True
        ctx.violation("correspondence-broken", "compiler rejects a declaration set the model allocates",
                      dict(case_detail(mod, evm), compiler_error=res[1:], model=str(exp)))
        return True
    layout = res[1]
    bad = oracle_layout(layout)
    if bad:
        ctx.violation("failing-input", "reported layout has aliasing / out-of-range variables: " + bad,
                      dict(case_detail(mod, evm), layout=layout), key=None)
        return True
    if exp is None:
        ctx.violation("correspondence-broken", "model rejects but compiler produced a layout", dict(case_detail(mod, evm), layout=layout))
        return True
    # exact comparison
    n_expected = len(exp["vars"])
    for path, (loc, off, size) in exp["vars"].items():
        got = layout_get(layout, loc, path)
        want = {"offset": off, "length": size} if loc == "code" else {"slot": off, "n_slots": size}
        if got is None or any(got.get(k) != v for k, v in want.items()):
            ctx.violation("correspondence-broken", f"layout of {'.'.join(path)} differs from the model",
                          dict(case_detail(mod, evm), got=got, model=want))
            return True
    es = layout_entries(layout)
    locks = [e for e in es if e[1][-1] == LOCK_KEY]
    if len(es) - len(locks) != n_expected:
        ctx.violation("correspondence-broken", "layout lists a different number of variables than declared",
                      dict(case_detail(mod, evm), layout=layout))
        return True
    want_lock = [(lockloc, (LOCK_KEY,), exp["lock"], 1)] if mod.any_nr() else []
    if locks != want_lock:
        ctx.violation("correspondence-broken", "nonreentrant key entry differs from the model",
                      dict(case_detail(mod, evm), got=locks, model=want_lock))
        return True
    stats["ok"] = stats.get("ok", 0) + 1
    return False


def part_default(ctx, model_ok, n):
    cases = gen_cases(ctx, n, "default")
    stats = {}
    if not model_ok:
        # model unavailable: still run the property's own oracle on the real output (Search)
        for mod in cases:
            for evm in ("cancun", "shanghai"):
                if evm == "shanghai" and any(v.loc == "transient" for _, v in mod.flat()):
                    continue
                res = try_layout(mod.source(True), mod.bundle(), evm)
                if res[0] == "ok":
                    bad = oracle_layout(res[1])
                    if bad:
                        ctx.violation("failing-input", "reported layout has aliasing / out-of-range variables: " + bad,
                                      dict(case_detail(mod, evm), layout=res[1]))
                        return 0, True
        return 0, False
    exprs = []
    for mod in cases:
        body = mod.coq_body()
        exprs.append(f"allocate_out LTransient {body}")
        exprs.append(f"allocate_out LStorage {body}")
    outs = coqrun.eval_zlists(IMPORTS, exprs, "c10def", shard=max(8, len(exprs) // 6 + 1))
    n_eval = 0
    distinct = set()
    found = False
    for k, mod in enumerate(cases):
        has_tr = any(v.loc == "transient" for _, v in mod.flat())
        for j, evm in enumerate(("cancun", "shanghai")):
            if evm == "shanghai" and has_tr:
                continue
            exp = expected_from_model(mod, outs[2 * k + j])
            n_eval += 1
            distinct.add((mod.coq_body(), evm))
            if compare_default(ctx, mod, evm, exp, stats):
                found = True
                break
        if found:
            break
    ctx.corr["default_layout"] = dict(stats, cases=n_eval)
    if cases:
        m = cases[0]
        ctx.samples.append({"decls": m.coq_body()[:300], "model_cancun": [str(x) for x in outs[0][:10]]})
    return len(distinct), found


# ------------------------------------------------------------------ part C: overrides
def nest_set(d, path, val):
    for seg in path[:-1]:
        d = d.setdefault(seg, {})
    d[path[-1]] = val


def py_override_valid(entries, need_lock, lock_slot, template_paths):
    """independent python statement of the property's oracle for override files:
    entries: path -> (slot, n) for the file's variables."""
    for p in template_paths:
        if p not in entries:
            return False
    rs = [(s, n) for (s, n) in entries.values()]
    if need_lock:
        if lock_slot is None:
            return False
        rs.append((lock_slot, 1))
    for (s, n) in rs:
        if s < 0 or s + n > TWO256:
            return False
    rs.sort()
    return all(a[0] + a[1] <= b[0] for a, b in zip(rs, rs[1:]))


def make_override_variants(rnd, mod, L0, evm):
    """L0 = default storage layout (real compiler output, used as a template for types / n_slots).
    yields (kind, override_json, entries{path:(slot,n)}, lock_slot_or_None, exact)   exact = file otherwise equals export"""
    svars = [(p, v) for p, v in mod.flat() if v.loc == "storage"]
    tmpl = {}
    for p, v in svars:
        e = layout_get({"storage_layout": L0}, "storage", p)
        tmpl[p] = e
    sizes = {p: tmpl[p]["n_slots"] for p in tmpl}
    pre_cancun = evm not in ("cancun", "prague")
    need_lock = pre_cancun and mod.any_nr()

    def build(slots, lock_slot, drop=None, extra=False, wrong_n=None, wrong_type=None, lock_in_file=None):
        ov = {}
        entries = {}
        for p in tmpl:
            if p == drop:
                continue
            item = dict(tmpl[p])
            item["slot"] = slots[p]
            if p == wrong_n:
                item["n_slots"] += 1
            if p == wrong_type:
                item["type"] = item["type"] + "x"
            nest_set(ov, p, item)
            entries[p] = (slots[p], sizes[p])
        if extra:
            ov["zz_extra"] = {"type": "uint256", "slot": 2**200, "n_slots": 1}
        put_lock = need_lock if lock_in_file is None else lock_in_file
        if put_lock and lock_slot is not None:
            ov[LOCK_KEY] = {"type": "nonreentrant lock", "slot": lock_slot, "n_slots": 1}
        return ov, entries

    def disjoint_placement():
        """random placement with gaps, random order"""
        order = list(tmpl)
        rnd.shuffle(order)
        cur = rnd.choice([0, 0, 1, 5, 2**64, 2**255])
        slots = {}
        items = order + (["lock"] if need_lock else [])
        rnd.shuffle(items)
        lock_slot = None
        for it in items:
            cur += rnd.choice([0, 0, 0, 1, 3, 2**32])
            if it == "lock":
                lock_slot = cur
                cur += 1
            else:
                slots[it] = cur
                cur += sizes[it]
        return slots, lock_slot

    out = []
    paths = list(tmpl)
    # export -> override round trip: the exported storage layout itself (lock key included when exported)
    if LOCK_KEY in L0 or not need_lock:
        ov_rt = json.loads(json.dumps(L0))
        out.append(("roundtrip-export", ov_rt, {p_: (tmpl[p_]["slot"], sizes[p_]) for p_ in tmpl},
                    L0[LOCK_KEY]["slot"] if LOCK_KEY in L0 else None, True))
    for _ in range(2):
        slots, lock_slot = disjoint_placement()
        ov, en = build(slots, lock_slot)
        out.append(("valid", ov, en, lock_slot if need_lock else None, True))
    if paths:
        # boundary: last variable ends exactly at 2**256 (accepted) / one beyond (rejected)
        slots, lock_slot = disjoint_placement()
        p = rnd.choice(paths)
        for delta, kind in ((0, "valid-top"), (1, "oob")):
            s2 = dict(slots)
            s2[p] = TWO256 - sizes[p] + delta
            # others stay low: make sure they are far below
            ov, en = build(s2, lock_slot)
            out.append((kind, ov, en, lock_slot if need_lock else None, True))
        slots, lock_slot = disjoint_placement()
        p = rnd.choice(paths)
        ov, en = build(slots, lock_slot, drop=p)
        out.append(("missing", ov, en, lock_slot if need_lock else None, True))
        ov, en = build(slots, lock_slot, extra=True)
        out.append(("extra", ov, en, lock_slot if need_lock else None, False))
        ov, en = build(slots, lock_slot, wrong_n=p)
        out.append(("wrong-n", ov, en, lock_slot if need_lock else None, False))
        ov, en = build(slots, lock_slot, wrong_type=p)
        out.append(("wrong-type", ov, en, lock_slot if need_lock else None, False))
    if len(paths) >= 2:
        # every way two ranges can meet, in both declaration orders: b starts inside a, b ends inside a, same start,
        # b strictly encloses a, b strictly inside a, identical
        pairs = []
        for _ in range(2):
            a, b = rnd.sample(paths, 2)
            pairs += [(a, b), (b, a)]
        big_small = [(x, y) for x in paths for y in paths if x != y and sizes[x] >= sizes[y] + 2]
        if big_small:
            x, y = rnd.choice(big_small)
            pairs += [(x, y), (y, x)]          # (enclosing, enclosed) and the reverse role assignment
        for a, b in pairs:
            slots, lock_slot = disjoint_placement()
            base = slots[a] + 2**40            # keep clear of the other variables
            rel = []
            rel.append(("start-inside", base + rnd.choice(sorted({0, sizes[a] - 1, sizes[a] // 2}))))
            rel.append(("end-inside", base - sizes[b] + 1 + rnd.choice(sorted({0, min(sizes[a], sizes[b]) - 1}))))
            if sizes[b] >= sizes[a] + 2:
                rel.append(("b-encloses-a", base - rnd.randint(1, sizes[b] - sizes[a] - 1)))
            if sizes[a] >= sizes[b] + 2:
                rel.append(("b-inside-a", base + rnd.randint(1, sizes[a] - sizes[b] - 1)))
            for name, sb in rel:
                if sb < 0:
                    continue
                s2 = dict(slots)
                s2[a] = base
                s2[b] = sb
                ov, en = build(s2, lock_slot)
                out.append(("collision:" + name, ov, en, lock_slot if need_lock else None, True))
        slots, lock_slot = disjoint_placement()
        a, b = rnd.sample(paths, 2)
        # adjacent (touching, not overlapping)
        s3 = dict(slots)
        s3[b] = s3[a] + sizes[a]
        ov, en = build(s3, lock_slot)
        out.append(("maybe-adjacent", ov, en, lock_slot if need_lock else None, True))
    if need_lock and paths:
        slots, lock_slot = disjoint_placement()
        ov, en = build(slots, None)
        out.append(("lock-missing", ov, en, None, True))
        p = rnd.choice(paths)
        ls = slots[p] + rnd.choice([0, sizes[p] - 1])
        ov, en = build(slots, ls)
        out.append(("lock-collide", ov, en, ls, True))
    if not need_lock and paths:
        slots, _ = disjoint_placement()
        ov, en = build(slots, 2**250, lock_in_file=True)
        # lock key present although not needed: allocation ignores it, round trip rejects
        out.append(("lock-extra", ov, en, 2**250, False))
    return out, tmpl, need_lock


def coq_path(p):
    return "[" + "; ".join('"' + s + '"' for s in p) + "]"


def part_override(ctx, model_ok, n, huge_ok):
    rnd = ctx.rng("override")
    cases = gen_cases(ctx, n, "ovcases", override_friendly=True)
    if huge_ok:
        cases += gen_cases(ctx, max(3, n // 4), "ovcases-big", override_friendly=False)
    w_, arr_ = T("word", name="uint256"), T("sarr", t=T("word", name="uint256"), n=10)
    cases += [Module("top", [Var("a", "storage", w_), Var("b", "storage", arr_)], False),
              Module("top", [Var("b", "storage", arr_), Var("a", "storage", w_)], True),
              Module("top", [Var("a", "storage", w_), Module("libx", [Var("b", "storage", arr_), Var("c", "storage", w_)], False)], False),
              Module("top", [Module("libx", [Var("b", "storage", arr_)], True), Var("a", "storage", w_)], False)]
    jobs = []
    for mod in cases:
        has_tr = any(v.loc == "transient" for _, v in mod.flat())
        for evm in ("cancun", "shanghai"):
            if evm == "shanghai" and has_tr:
                continue
            r0 = try_layout(mod.source(True), mod.bundle(), evm)
            if r0[0] != "ok":
                continue
            L0 = r0[1].get("storage_layout", {})
            if not huge_ok and any(e[3] > 5000 for e in layout_entries({"storage_layout": L0})):
                continue  # the huge-array probe failed: a slot-by-slot allocator would hang on big arrays
            variants, tmpl, need_lock = make_override_variants(rnd, mod, L0, evm)
            for (kind, ov, entries, lock_slot, exact) in variants:
                jobs.append((mod, evm, kind, ov, entries, lock_slot, exact, tmpl, need_lock, r0[1]))
    exprs = []
    if model_ok:
        for (mod, evm, kind, ov, entries, lock_slot, exact, tmpl, need_lock, lay0) in jobs:
            lockloc = "LTransient" if evm in ("cancun", "prague") else "LStorage"
            ovc = "[" + "; ".join(f"({coq_path(p)}, {coqrun.hexlit(s)})" for p, (s, _) in entries.items()) + "]"
            # the file's lock slot as _allocate_with_overrides sees it (key present in the file or not)
            nrs = f"(Some {coqrun.hexlit(ov[LOCK_KEY]['slot'])})" if LOCK_KEY in ov else "None"
            exprs.append(f"override_out {lockloc} {'true' if mod.nr else 'false'} {mod.coq_body()} {ovc} {nrs}")
        outs = coqrun.eval_zlists(IMPORTS, exprs, "c10ovr", shard=max(8, len(exprs) // 6 + 1))
    stats = {}
    found = False
    distinct = set()
    for idx, (mod, evm, kind, ov, entries, lock_slot, exact, tmpl, need_lock, lay0) in enumerate(jobs):
        res = try_layout(mod.source(True), mod.bundle(), evm, override=ov)
        valid = py_override_valid(entries, need_lock, lock_slot, list(tmpl)) and exact
        accepted = res[0] == "ok"
        key = f"{kind}:{'accept' if accepted else res[1]}"
        stats[key] = stats.get(key, 0) + 1
        distinct.add(json.dumps(ov, sort_keys=True) + evm + mod.coq_body())
        detail = dict(case_detail(mod, evm, ov), variant=kind, outcome=res[1:] if not accepted else "accepted")
        # ---- the property's own oracle
        if accepted != valid:
            ctx.violation("failing-input",
                          ("valid (complete, disjoint, in-range) override rejected" if valid else
                           "overlapping / incomplete / inexact override accepted") + f" [{kind}]", detail)
            found = True
            break
        if accepted:
            got = res[1].get("storage_layout", {})
            if got != ov:
                ctx.violation("failing-input", "accepted override not honoured exactly: reported storage layout differs from the file",
                              dict(detail, reported=got))
                found = True
                break
            bad = oracle_layout(res[1])
            if bad:
                ctx.violation("failing-input", "layout under override aliases: " + bad, dict(detail, reported=res[1]))
                found = True
                break
            if kind == "roundtrip-export" and res[1] != lay0:
                ctx.violation("failing-input", "layout_override(layout_export(m)) differs from layout(m) (storage / transient / code sections)",
                              dict(detail, exported=lay0, after_round_trip=res[1]))
                found = True
                break
        # ---- model vs compiler
        if model_ok:
            zl = outs[idx]
            model_accept = zl != [-1]
            # set_data_positions accepts iff the allocation step (model) accepts and the file equals the export
            # exactly (round-trip comparison); the exception class of a rejection is not part of the property
            if accepted != (model_accept and exact):
                ctx.violation("correspondence-broken", f"override: model {'accepts' if model_accept else 'rejects'} the allocation"
                              f"{'' if exact else ' (file inexact: round trip must reject)'} but compiler "
                              f"{'accepts' if accepted else 'rejects'} [{kind}]", dict(detail, model=str(zl)[:300]))
                found = True
                break
            if model_accept and accepted:
                nonst = [(p, v) for p, v in mod.flat() if v.loc != "storage"]
                st = [(p, v) for p, v in mod.flat() if v.loc == "storage"]
                body = zl[1:]
                ok = len(body) == 3 * len(nonst) + len(st)
                if ok:
                    for k, (p, v) in enumerate(nonst):
                        g = layout_get(res[1], v.loc, p)
                        loc, off, size = body[3 * k: 3 * k + 3]
                        want = {"offset": off, "length": size} if v.loc == "code" else {"slot": off, "n_slots": size}
                        ok = ok and g is not None and all(g.get(a) == b for a, b in want.items())
                    for k, (p, v) in enumerate(st):
                        g = layout_get(res[1], "storage", p)
                        ok = ok and g is not None and g.get("slot") == body[3 * len(nonst) + k]
                if not ok:
                    ctx.violation("correspondence-broken", "positions under override differ from the model",
                                  dict(detail, model=[str(x) for x in zl], reported=res[1]))
                    found = True
                    break
    ctx.corr["override"] = dict(stats, cases=len(jobs))
    return len(distinct), found


# ------------------------------------------------------------------ part E: the known hang
HANG_SRC = "x: uint256[2**200]\ny: uint256\n"
HANG_OVERRIDE = {"x": {"type": "uint256[1606938044258990275541962092341162602522202993782792835301376]", "slot": 0,
                       "n_slots": 2**200},
                 "y": {"type": "uint256", "slot": 2**200, "n_slots": 1}}


def part_hang_probe(ctx):
    """Regression probe.  Before /repo commit df51f72 `OverridingStorageAllocator.reserve_slot_range` enumerated every
    slot of the variable, so a valid override for a contract with a huge array was never honoured (hang / memory
    exhaustion).  Runs in a subprocess (10 s, 1.5 GB address space).  Returns True when the override is honoured."""
    code = (
        "import sys, json, resource\n"
        "resource.setrlimit(resource.RLIMIT_AS, (1500 * 2**20, 1500 * 2**20))\n"
        f"sys.path.insert(0, {str(REPO)!r})\n"
        "import warnings; warnings.simplefilter('ignore')\n"
        "from pathlib import PurePath\n"
        "from vyper.compiler import compile_code\n"
        "from vyper.compiler.input_bundle import JSONInput\n"
        f"ov = json.loads({json.dumps(json.dumps(HANG_OVERRIDE))})\n"
        "p = PurePath('<override>')\n"
        "ji = JSONInput(data=ov, contents=json.dumps(ov), source_id=-1, path=p, resolved_path=p)\n"
        f"out = compile_code({HANG_SRC!r}, output_formats=['layout'], storage_layout_override=ji)\n"
        "print('LAYOUT', json.dumps(out['layout']))\n"
    )
    try:
        p = subprocess.run([sys.executable, "-c", code], capture_output=True, text=True, timeout=10)
        outcome = "exit %d: %s" % (p.returncode, (p.stdout + p.stderr)[-300:])
        honoured = p.returncode == 0 and "LAYOUT" in p.stdout and \
            json.loads(p.stdout.split("LAYOUT", 1)[1]).get("storage_layout") == HANG_OVERRIDE
    except subprocess.TimeoutExpired:
        outcome, honoured = "no result after 10 s (killed)", False
    ctx.corr["override_huge_array_probe"] = "honoured" if honoured else outcome[:200]
    if not honoured:
        ctx.violation(
            "failing-input", "valid storage layout override for a contract with a huge array is not honoured "
                             "(slot-by-slot reservation of 2**200 slots: non-termination / memory exhaustion)",
            {"source": HANG_SRC, "override": HANG_OVERRIDE, "observed": outcome,
             "how": "compile_code(source, output_formats=['layout'], storage_layout_override=JSONInput(data=override)); "
                    "the interval model (proved equivalent to the per-slot dict) accepts this file",
             "expected": "layout['storage_layout'] == override"},
            key="C10:override-huge-array-hang")
    return honoured


# ------------------------------------------------------------------ part D: glue (storage diff)
def run_glue(ctx, model_ok, n):
    from vlib import c10_glue
    return c10_glue.run(ctx, model_ok, n, IMPORTS)


# ------------------------------------------------------------------ Search (direct oracle, small enumerations)
def search_small(ctx):
    """Small declaration sets over sizes {1,2,3,2^128,2^255} and overrides in a 6-slot window, judged by the
    property's own oracle on the real compiler (no model involved).  Returns True if a failing input was reported."""
    sizes = [1, 2, 3, 2**128, 2**255]
    rnd = ctx.rng("search")
    import itertools
    combos = list(itertools.product(sizes, repeat=3))
    rnd.shuffle(combos)
    for combo in combos[:40]:
        for nr in (False, True):
            items = [Var(f"v{i}", "storage", T("word", name="uint256") if s == 1 else T("sarr", t=T("word", name="uint256"), n=s))
                     for i, s in enumerate(combo)]
            mod = Module("top", items, nr)
            for evm in ("cancun", "shanghai"):
                res = try_layout(mod.source(True), {}, evm)
                if res[0] == "ok":
                    bad = oracle_layout(res[1])
                    if bad:
                        ctx.violation("failing-input", "reported layout aliases: " + bad, dict(case_detail(mod, evm), layout=res[1]))
                        return True
    return override_window(ctx)[1]


def override_window(ctx):
    """Exhaustive: two variables of sizes (a, b) (both declaration orders) placed anywhere in a 6-slot window, judged by
    the property's own oracle on the real compiler (no model involved).  -> (cases, found)"""
    n = 0
    tp = {1: "uint256", 2: "uint256[2]", 3: "uint256[3]"}
    for a, b in ((1, 1), (2, 1), (1, 2), (2, 3), (3, 2), (3, 3), (1, 3), (3, 1)):
        items = [Var("p", "storage", T("word", name="uint256") if a == 1 else T("sarr", t=T("word", name="uint256"), n=a)),
                 Var("q", "storage", T("word", name="uint256") if b == 1 else T("sarr", t=T("word", name="uint256"), n=b))]
        mod = Module("top", items, False)
        for sa in range(6):
            for sb in range(6):
                ov = {"p": {"type": tp[a], "slot": sa, "n_slots": a}, "q": {"type": tp[b], "slot": sb, "n_slots": b}}
                valid = sa + a <= sb or sb + b <= sa
                res = try_layout(mod.source(True), {}, "cancun", override=ov)
                acc = res[0] == "ok"
                n += 1
                if acc != valid or (acc and res[1].get("storage_layout") != ov):
                    ctx.violation("failing-input", "override " + ("rejected although valid" if valid else "accepted although overlapping / not honoured"),
                                  dict(case_detail(mod, "cancun", ov), outcome=res[1:]))
                    return n, True
    ctx.corr["override_window_exhaustive"] = n
    return n, False


# ------------------------------------------------------------------ main
def run(ctx):
    quick = ctx.tier != "thorough"
    gen_err = None
    try:
        text, consts = gen_alloc_model()
        (COQ / "C10" / "GenAlloc.v").write_text(text)
    except Unsupported as e:
        gen_err = str(e)
    except Exception as e:  # source no longer has the anchored shape
        gen_err = f"{type(e).__name__}: {e}"
    b = {"ok": False, "file": "C10/GenAlloc.v", "failed_lemma": None, "out": gen_err or ""}
    # C03/LIR.v (owned by the C03 worker, static) is needed by AddrTemplates.v; never force-rebuild someone else's file
    coqrun.build_sequence(["C03/LIR.v", "C03/VSL.v", "C04/Checks.v"], force=False)
    if gen_err is None:
        b = ctx.coq_build(COQ_FILES)
    # the executable model is usable if the model files compiled (a proof file may have failed)
    model_ok = gen_err is None and (b["ok"] or not any(x in str(b.get("file", "")) for x in ("GenAlloc", "Layout.v", "Alloc.v")))
    found = False
    total = 0
    n1, f1 = part_default(ctx, model_ok, 150 if quick else 1000)
    total += n1
    found |= f1
    huge_ok = part_hang_probe(ctx)
    n0, f0 = override_window(ctx)
    total += n0
    found |= f0
    n2, f2 = part_override(ctx, model_ok, 40 if quick else 250, huge_ok)
    total += n2
    found |= f2
    n3, f3 = run_glue(ctx, model_ok, 12 if quick else 60)
    total += n3
    found |= f3
    if not found:
        from vlib import c10_keyexpr
        n5, f5 = c10_keyexpr.run(ctx, 2 if quick else 10)
        total += n5
        found |= f5
    if not found:
        # session 3: run-time indices of every integer width at the boundaries of the index type and of the array
        from vlib import c10_rtindex
        n6, f6 = c10_rtindex.run(ctx, quick)
        total += n6
        found |= f6
        if not found:
            n7, f7 = c10_rtindex.run_mutators(ctx, quick)
            total += n7
            found |= f7
    from vlib import c10_addr
    addr_ok = gen_err is None and (COQ / "C10" / "AddrTemplates.vo").exists() and (b["ok"] or "AddrTemplates" not in str(b.get("file", "")))
    n4, f4 = c10_addr.run(ctx, model_ok and addr_ok, 240 if quick else 2000)
    total += n4
    found |= f4
    # session-3 extension: whole venom accesses (HashMap levels over the whole key-type family + array/struct steps)
    from vlib import c10_vfull
    vfull_ok = gen_err is None and (COQ / "C10" / "VFull.vo").exists() and \
        (b["ok"] or not any(x in str(b.get("file", "")) for x in ("VFull", "VAddrPath", "VMapTemplates", "VAddrTemplates", "AddrTemplates", "Layout.v", "Paths.v")))
    try:
        n6, f6 = c10_vfull.run(ctx, model_ok and vfull_ok, 100 if quick else 1200)
    except c10_vfull.ExportError as e:
        ctx.violation("correspondence-broken", "venom whole-access tie (VFull.vfull): the real lowering cannot be exported: " + str(e)[:300],
                      {"error": str(e)[:1000], "theorem": "venom_access_matches_layout"})
        n6, f6 = 0, True
    total += n6
    found |= f6
    if gen_err is not None or not b["ok"]:
        if not found:
            found = search_small(ctx)
        if not found:
            if gen_err is not None:
                ctx.violation("translator-rejected", "cannot regenerate the allocator model: " + gen_err, {"error": gen_err})
            else:
                ctx.violation("theorem-broken", f"{b.get('failed_lemma')} in {b['file']}",
                              {"theorem": b.get("failed_lemma"), "file": b["file"], "coq_output": b["out"][-1500:]})
    ctx.corr["evaluations"] = total
    ctx.corr["distinct_nontrivial"] = total
    ctx.corr["rule"] = ("distinct (declaration tree, evm) layouts + distinct (tree, evm, override file) + distinct (contract, config, "
                        "write operation) storage diffs + distinct (contract, config, HashMap write through a key expression) diffs + distinct address-template matches "
                        "(legacy paths; venom whole accesses = (key types, value type, path, location)); all non-trivial (every case has >= 1 state variable / access step)")
    ctx.trusted += ["Coq 8.16.1 kernel + vm_compute",
                    "tools/vlib/py2coq.py + tools/vlib/c10_gen.py MethodTranslator (allocate_slot, ceil32, storage_size_in_words regenerated each run)",
                    "hand model coq/C10/Alloc.v of _allocate_layout_r/_allocate_with_overrides_r/export recursion and coq/C10/Layout.v of type sizes "
                    "and element addressing: validated by exact-output differential, not derived from the Python text",
                    "pyrevm journal as the raw storage diff"]
    ctx.assumptions += [
        "mapping_slots_distinct premises: H (keccak256(slot||key)) outputs are pairwise >= BOUND apart and >= BOUND "
        "(no collisions, no wrap-around, away from the static area); BOUND >= size of every map value type and the static area",
        "sizes_nonneg / wf: declared array lengths > 0 (enforced by the type checker), used as theorem premises",
    ]
