"""C01V: helper part of C01 (expression lowering of the Venom front end: model, O-tie, partial theorem); runnable on its own:
python3 tools/check.py C01V --tier quick.  Not registered (the coordinator calls vlib.c01v_part.part_vexpr from c01.py)."""
from vlib import c01v_part

LEVEL = "proof"
META = {"not_applicable": "helper part of C01"}


def prebuild(ctx):
    c01v_part.prebuild(ctx)


def run(ctx):
    n = c01v_part.part_vexpr(ctx)
    ctx.corr["evaluations"] = n
    ctx.corr["distinct_nontrivial"] = n
    ctx.corr["rule"] = "random expressions compiled by the real Venom front end and compared with the model (vm_compute)"
