"""C17: compile-time evaluation agrees with run-time evaluation."""
import math
import warnings

from vlib import c17_gen, c17_nest, coqrun
from vlib import c17_probe as P
from vlib.common import COQ
from vlib.configs import Config, configs, core_configs
from vlib.grid import lit_grid
from vlib.py2coq import Unsupported

LEVEL = "proof"
META = {
    "category": "proof",
    "text": "Coq theorems: for every integer type, operator (+ - * // % ** << >> & | ^ ~ unary-, comparisons, and/or/not), the "
            "builtins min/max/abs/shift/uint256_addmod/uint256_mulmod/pow_mod256/as_wei_value, literal conversion "
            "(int/decimal/bytesM/bool -> integer types, int -> decimal), list-literal indexing, min_value/max_value and uint2str: "
            "whenever the compile-time fold (Operator._op / _try_fold bodies / vyper.utils helpers, regenerated from /repo into "
            "Gallina on every run; AST- and Decimal-based code as a hand model) yields a value that passes the literal range "
            "check, the exact-or-revert run-time specification yields the same value; hence never two different values. The "
            "specification and the fold model are tied to the real compiler by paired probes (literal operands / named constants / "
            "nested and cross-module constants vs calldata operands) executed on an EVM under the configuration set, and by a "
            "differential of the real ConstantFolder and _literal_int/_literal_decimal against the model evaluated inside Coq. "
            "NESTED expressions (extension): for every tree over literals, named constants referencing constants, + - * // % ** & | ^ << >> "
            "unary - ~, min/max/abs/shift/uint256_addmod/uint256_mulmod/pow_mod256, list indexing, len, min_value/max_value, "
            "as_wei_value, floor/ceil and + - * / % min max on decimals, comparisons, in/not in, not and n-ary and/or, and == != in "
            "not-in on Decimal/Hex/Str/Bytes/bool literals (hex texts compared case-insensitively): if the ConstantFolder pass "
            "yields v and the type checker's validation of EVERY node's folded value passes (out-of-range intermediates are "
            "rejected), the same tree evaluated at run time over non-constant leaves (exact-or-revert per application, short-circuit "
            "and/or) yields v -- by mutual induction with the per-operator theorems as cases; for + - * // % ** and decimal trees also "
            "against the composition of C03's arith_spec. Tied by a differential of generated trees (depth 2-5, boundary leaves, "
            "shuffled constant declarations) against the real front end and by folded-vs-run-time twin probes on pyrevm.",
    "level_note": "Trusted: Coq kernel + vm_compute; py2coq translator and the C17 method puller (integer instantiation of "
                  "isinstance tests; float/type-lattice guards become universally quantified oracles); ArithSpec.v / ConvSpec.v are "
                  "hand-written specifications tied to compiled code only by sampling (paired probes); decimal operators, "
                  "floor/ceil, literal conversion, list indexing and uint2str are hand models tied by differential; hashes are "
                  "relative to an oracle shared by both sides; unsafe_*, epsilon are covered by paired probes only. "
                  "coq/C17/NestModel.v (the folder's visit dispatch, the type checker's per-node validation of folded values, "
                  "visit_Compare on literal kinds, the parser's collapse of unary minus over literals) is a hand model tied by the "
                  "front-end differential and twin probes; named constants are modelled by inlining (the _get_constants fixpoint is "
                  "exercised by shuffled declarations only); flags and struct/list constants are covered by twin probes only.",
    "technique": "Coq proof over py2coq-translated source (per-operator kernels) composed by structural induction over expression trees + "
                 "front-end differential + paired-probe differential on pyrevm",
}

ALL_TYPES = [(s, n) for n in range(8, 257, 8) for s in (False, True)]
CORE_TYPES = [(False, 8), (True, 8), (True, 128), (False, 256), (True, 256)]
BINOPS = [("Add", "+", "BAdd"), ("Sub", "-", "BSub"), ("Mult", "*", "BMult"), ("FloorDiv", "//", "BFloorDiv"),
          ("Mod", "%", "BMod"), ("Pow", "**", "BPow"), ("BitAnd", "&", "BAnd"), ("BitOr", "|", "BOr"),
          ("BitXor", "^", "BXor"), ("LShift", "<<", "BShl"), ("RShift", ">>", "BShr")]
CMPS = [("Eq", "==", "CEq"), ("NotEq", "!=", "CNe"), ("Lt", "<", "CLt"), ("LtE", "<=", "CLe"), ("Gt", ">", "CGt"),
        ("GtE", ">=", "CGe")]
DENOMS = {"wei": 1, "gwei": 10**9, "ether": 10**18, "kether": 10**21, "szabo": 10**12}
EXPS = [0, 1, 2, 3, 5, 7, 8, 15, 16, 31, 32, 63, 64, 127, 128, 129, 255, 256, 257, 1000, -1, -2]

COQ_PRELUDE = """From Verif Require C03.LIR C03.ArithSpec C03.ConvSpec.
From Verif Require Import Base.PyInt C17.ArithSpec C17.ConvSpec C17.GenFold C17.FoldModel C17.ConvModel C17.MiscModel.
Definition enc3 (o : Verif.C03.LIR.outcome) : list Z := match o with Verif.C03.LIR.Val v => [1; v] | _ => [0; 0] end.
Definition nt (b s d : Z) : Verif.C03.ArithSpec.nty := Verif.C03.ArithSpec.Build_nty b (negb (s =? 0)) (negb (d =? 0)).
Definition encl (r : res (list Z)) : list Z := match r with Ok l => 1 :: l | Err _ => [0] end.
Definition enc (r : res Z) : list Z := match r with Ok v => [1; v] | Err _ => [0; 0] end.
Definition encb (r : res bool) : list Z := match r with Ok b => [1; PyInt.b2z b] | Err _ => [0; 0] end.
Definition enco (r : option Z) : list Z := match r with Some v => [1; v] | None => [0; 0] end.
Definition gP : oracle := fun a b => Ok (257 <? b * Z.log2 (Z.abs a)).
Definition gT : oracle := fun _ _ => Ok true.
Definition p1 (p : Z * Z * Z) := fst (fst p).
Definition p2 (p : Z * Z * Z) := snd (fst p).
Definition p3 (p : Z * Z * Z) := snd p.
"""


def coq_ty(T):
    return f"(mk_ity {'true' if T[0] else 'false'} {T[1]})"


def triples(cases):
    def t(c):
        c = list(c) + [0] * (3 - len(c))
        return "(" + ", ".join(coqrun.hexlit(x) for x in c) + ")"
    return "[" + "; ".join(t(c) for c in cases) + "]"


def pairs_out(flat, k=1):
    """[f1; v1; f2; v2; ...] -> list of k-tuples of (None | v)"""
    vals = [(flat[i + 1] if flat[i] == 1 else None) for i in range(0, len(flat), 2)]
    return [tuple(vals[i:i + k]) for i in range(0, len(vals), k)]


def lists_out(flat, n):
    """decode a concatenation of `encl` results, each [0] or 1 :: l, where every l is terminated by -1"""
    out, i = [], 0
    while i < len(flat):
        if flat[i] == 0:
            out.append(None)
            i += 2
        else:
            j = flat.index(-1, i)
            out.append(flat[i + 1:j])
            i = j + 1
    assert len(out) == n, (len(out), n)
    return out


def _node(txt):
    from vyper import ast as vy_ast
    return vy_ast.parse_to_ast("x = " + txt).body[0].value


def conversion_jobs(ctx, g, rnd):
    """model-tie jobs for the hand models of ConvModel.v against the real functions, called directly"""
    from vyper.builtins._convert import _literal_decimal, _literal_int
    from vyper.semantics.types import BoolT, BytesM_T, DecimalT, IntegerT
    jobs = []
    tys = CORE_TYPES + rnd.sample([t for t in ALL_TYPES if t not in CORE_TYPES], 3 if ctx.tier == "quick" else 20)

    def real_lit_int(txt, at, T):
        with warnings.catch_warnings():
            warnings.simplefilter("ignore")
            try:
                return "ok", _literal_int(_node(txt), at, IntegerT(T[0], T[1])).value
            except Exception as e:
                return "err", type(e).__name__

    # Int literals
    ints = sorted(set(g[::2] + [0, 1, -1, 127, 128, -128, -129, 255, 256, 2**255 - 1, 2**255, -(2**255), 2**256 - 1]))
    cases = [(v, int(T[0]), T[1]) for T in tys for v in ints]
    jobs.append(("convert:int", cases, "flat_map (fun p => enc (literal_int (LInt (p1 p)) (mk_ity (negb (p2 p =? 0)) (p3 p)))) " + triples(cases),
                 lambda c: real_lit_int(str(c[0]), IntegerT(True, 256), (bool(c[1]), c[2])), "direct"))
    # Decimal literals (scaled): around every integer boundary of the target type and around zero
    D = 10**10
    cases = []
    for T in tys:
        lo, hi = P.bounds(T)
        vs = {0, 1, -1, D - 1, D, -D + 1, -D, 15 * D // 10, -15 * D // 10, 5, -5}
        for b in (lo, hi):
            vs |= {b * D, b * D + 1, b * D - 1, b * D + D - 1, b * D - D + 1, b * D + D, b * D - D}
        vs = {v for v in vs if -(2**167) <= v < 2**167}
        cases += [(v, int(T[0]), T[1]) for v in sorted(vs)]
    jobs.append(("convert:decimal", cases, "flat_map (fun p => enc (literal_int (LDec (p1 p)) (mk_ity (negb (p2 p =? 0)) (p3 p)))) " + triples(cases),
                 lambda c: real_lit_int(P.dec_lit(c[0]).strip("()"), DecimalT(), (bool(c[1]), c[2])), "direct"))
    # hex (bytesM) literals: m bytes; packed as val * 64 + m in the first component
    cases = []
    for T in tys:
        for m in sorted({1, 2, T[1] // 8, min(32, T[1] // 8 + 1), 32, rnd.randrange(1, 33)}):
            for val in sorted({0, 1, 2 ** (8 * m - 1) - 1, 2 ** (8 * m - 1), 2 ** (8 * m) - 1, 2 ** (8 * m) - 2, rnd.randrange(2 ** (8 * m))}):
                cases.append((val * 64 + m, int(T[0]), T[1]))
    jobs.append(("convert:hex", cases, "flat_map (fun p => enc (literal_int (LHex (p1 p mod 64) (p1 p / 64)) (mk_ity (negb (p2 p =? 0)) (p3 p)))) " + triples(cases),
                 lambda c: real_lit_int("0x" + (c[0] // 64).to_bytes(c[0] % 64, "big").hex(), BytesM_T(c[0] % 64), (bool(c[1]), c[2])), "direct"))
    # the same numbers spelled as b".." and x".." literals (Bytes / HexBytes nodes of type Bytes[m]): same model (the
    # value is the big-endian number of the m bytes, sign-extended from 8m bits into signed types)
    from vyper.semantics.types import BytesT
    blit = lambda b: 'b"' + "".join(f"\\x{c:02x}" for c in b) + '"'  # noqa
    sub = cases if ctx.tier != "quick" else cases[::3] + [c for c in cases if c[0] % 64 <= 2 and c[1]]
    jobs.append(("convert:bytes-literal", sub, "flat_map (fun p => enc (literal_int (LHex (p1 p mod 64) (p1 p / 64)) (mk_ity (negb (p2 p =? 0)) (p3 p)))) " + triples(sub),
                 lambda c: real_lit_int(blit((c[0] // 64).to_bytes(c[0] % 64, "big")), BytesT(c[0] % 64), (bool(c[1]), c[2])), "direct"))
    jobs.append(("convert:hexbytes-literal", sub, "flat_map (fun p => enc (literal_int (LHex (p1 p mod 64) (p1 p / 64)) (mk_ity (negb (p2 p =? 0)) (p3 p)))) " + triples(sub),
                 lambda c: real_lit_int('x"' + (c[0] // 64).to_bytes(c[0] % 64, "big").hex() + '"', BytesT(c[0] % 64), (bool(c[1]), c[2])), "direct"))
    cases = [(b, int(T[0]), T[1]) for T in tys for b in (0, 1)]
    jobs.append(("convert:bool", cases, "flat_map (fun p => enc (literal_int (LBool (negb (p1 p =? 0))) (mk_ity (negb (p2 p =? 0)) (p3 p)))) " + triples(cases),
                 lambda c: real_lit_int("True" if c[0] else "False", BoolT(), (bool(c[1]), c[2])), "direct"))

    def real_lit_dec(v):
        try:
            return "ok", _literal_decimal(_node(str(v)), IntegerT(True, 256), DecimalT()).value
        except Exception as e:
            return "err", type(e).__name__
    q = (2**167 - 1) // D
    cases = [(v,) for v in sorted({0, 1, -1, 7, -7, q, q + 1, q - 1, -q, -q - 1, -q - 2, -q + 1, 2**127, -(2**127), 2**255, -(2**255), 2**256 - 1, rnd.randrange(-q, q)})]
    jobs.append(("convert:int->decimal", cases, "flat_map (fun p => enc (literal_decimal (p1 p))) " + triples(cases), lambda c: real_lit_dec(c[0]), "direct"))
    # list-literal indexing through the real ConstantFolder
    l = [7, 2**255, 9, 0]
    cases = [(i,) for i in (-2, -1, 0, 1, 2, 3, 4, 5, 2**255)]
    jobs.append(("list-index", cases, f"flat_map (fun p => enc (fold_index {coqrun.zlist(l)} (p1 p))) " + triples(cases),
                 lambda c: f"[{', '.join(map(str, l))}][{c[0]}]", "int"))
    # uint2str through the real folder
    cases = [(v,) for v in sorted({0, 1, 9, 10, 11, 99, 100, 101, 255, 256, 10**18, 10**77, 10**77 - 1, 2**256 - 1, 2**128, rnd.randrange(2**256), rnd.randrange(10**9)})]

    def real_u2s(c):
        st, v = real_fold(f"uint2str({c[0]})")
        return (st, [ord(ch) for ch in v]) if st == "ok" else (st, v)
    jobs.append(("uint2str", cases, "flat_map (fun p => encl (uint2str_fold (p1 p)) ++ [-1]) " + triples(cases), real_u2s, "direct-list"))
    # min_value / max_value for every integer type
    cases = [(int(T[0]), T[1]) for T in ALL_TYPES]
    jobs.append(("min_value", cases, "flat_map (fun p => enc (min_value_fold (mk_ity (negb (p1 p =? 0)) (p2 p)))) " + triples(cases),
                 lambda c: f"min_value({P.tname((bool(c[0]), c[1]))})", "int"))
    jobs.append(("max_value", cases, "flat_map (fun p => enc (max_value_fold (mk_ity (negb (p1 p =? 0)) (p2 p)))) " + triples(cases),
                 lambda c: f"max_value({P.tname((bool(c[0]), c[1]))})", "int"))
    # ---- round 4: remaining AST-level folds (hand models of MiscModel.v) through the real ConstantFolder
    D = 10**10
    dgm = sorted({0, 1, -1, D, -D, D - 1, 15 * D // 10, -25 * D // 10, D // 3, 2**167 - 1, -(2**167), 2**100, rnd.randrange(-(2**167), 2**167),
                  rnd.randrange(-(10**12), 10**12)})
    cases = [(a, b) for a in dgm for b in dgm]
    if ctx.tier == "quick":
        sub = dgm[::2] + [0, 1]
        cases = [(a, b) for a in sub for b in sub]
    for (cls, sym, con) in CMPS:
        jobs.append(("dec" + sym, cases, f"flat_map (fun p => encb (dec_cmp_fold {con} (p1 p) (p2 p))) " + triples(cases),
                     lambda c, sym=sym: f"{P.dec_lit(c[0])} {sym} {P.dec_lit(c[1])}", "bool"))
    for nm in ("min", "max"):
        jobs.append(("dec" + nm, cases, f"flat_map (fun p => enc (dec_{nm}_fold gT (p1 p) (p2 p))) " + triples(cases),
                     lambda c, nm=nm: f"{nm}({P.dec_lit(c[0])}, {P.dec_lit(c[1])})", "dec1"))
    units = sorted(DENOMS)
    cases = [(V, DENOMS[u], i) for V in dgm for i, u in enumerate(units)]
    jobs.append(("as_wei_value:decimal", cases, "flat_map (fun p => enc (as_wei_dec_fold (p2 p) (p1 p))) " + triples(cases),
                 lambda c: f"as_wei_value({P.dec_lit(c[0])}, '{units[c[2]]}')", "int"))
    lst = [1, 5, 2**255, 0, 2**256 - 1]
    cases = [(x,) for x in (0, 1, 2, 5, 6, 2**255, 2**255 + 1, 2**256 - 1, 7)]
    jobs.append(("in", cases, f"flat_map (fun p => encb (in_fold (p1 p) {coqrun.zlist(lst)})) " + triples(cases),
                 lambda c: f"{c[0]} in [{', '.join(map(str, lst))}]", "bool"))
    jobs.append(("not in", cases, f"flat_map (fun p => encb (notin_fold (p1 p) {coqrun.zlist(lst)})) " + triples(cases),
                 lambda c: f"{c[0]} not in [{', '.join(map(str, lst))}]", "bool"))
    cases = [(n, k) for n in (0, 1, 2, 31, 32, 33, 100) for k in (0, 1, 2)]

    def len_src(c):
        n, k = c
        if k == 0:
            return 'len(b"' + "\\x07" * n + '")'
        if k == 1:
            return 'len("' + "a" * n + '")'
        return "len(x'" + "ab" * n + "')"
    jobs.append(("len", cases, "flat_map (fun p => enc (len_fold (repeat 0 (Z.to_nat (p1 p))))) " + triples(cases), len_src, "int"))

    def real_lit_dec_hex(c):
        m, val = c[0] % 64, c[0] // 64
        try:
            return "ok", _literal_decimal(_node("0x" + val.to_bytes(m, "big").hex()), BytesM_T(m), DecimalT()).value
        except Exception as e:
            return "err", type(e).__name__
    cases = []
    for m in (1, 2, 20, 21, 22, 31, 32):
        for val in sorted({0, 1, 2 ** (8 * m - 1) - 1, 2 ** (8 * m - 1), 2 ** (8 * m) - 1, min(2 ** (8 * m) - 1, 2**167 - 1), min(2 ** (8 * m) - 1, 2**167),
                           max(0, 2 ** (8 * m) - 2**167), max(0, 2 ** (8 * m) - 2**167 - 1), rnd.randrange(2 ** (8 * m))}):
            cases.append((val * 64 + m,))
    jobs.append(("convert:hex->decimal", cases, "flat_map (fun p => enc (literal_decimal_hex (p1 p mod 64) (p1 p / 64))) " + triples(cases),
                 real_lit_dec_hex, "direct"))
    return jobs


def coq_eval(name, exprs):
    if not exprs:
        return []
    shard = max(1, math.ceil(len(exprs) / 3))
    return coqrun.eval_zlists(COQ_PRELUDE, exprs, name, shard=shard, timeout=300)


# ------------------------------------------------------------------ real folder
def real_fold(expr):
    """Run the real ConstantFolder on an expression; returns ('ok', python value) or ('err', exception name)."""
    from vyper import ast as vy_ast
    from vyper.exceptions import UnfoldableNode, VyperException
    from vyper.semantics.analysis.constant_folding import constant_fold
    with warnings.catch_warnings():
        warnings.simplefilter("ignore")
        try:
            m = vy_ast.parse_to_ast(expr)
            constant_fold(m)
            return "ok", m.body[0].value.get_folded_value().value
        except UnfoldableNode:
            return "err", "UnfoldableNode"
        except Exception as e:  # a crash of the folder (non-Vyper exception) is a rejection too
            return "err", type(e).__name__


# ------------------------------------------------------------------ part 1: proofs
def part_proofs(ctx):
    try:
        text, info = c17_gen.generate()
    except Unsupported as e:
        return {"ok": False, "gen": False, "err": str(e)}, None
    (COQ / "C17" / "GenFold.v").write_text(text)
    # models first, so that they are available for the correspondence even when a proof breaks
    b = ctx.coq_build(["C17/ArithSpec.v", "C17/ConvSpec.v", "C17/GenFold.v", "C17/FoldModel.v", "C17/ConvModel.v", "C17/MiscModel.v",
                        "C17/FoldAgree.v", "C17/PropsFold.v", "C17/ConvAgree.v", "C17/PropsConv.v", "C17/MiscAgree.v",
                        "C17/BridgeC03.v", "C17/PropsBridge.v"])
    b["gen"] = True
    return b, info


# ------------------------------------------------------------------ part 2: model vs real ConstantFolder
def part_model_tie(ctx):
    """The translated model (GenFold + FoldModel wrapper), evaluated inside Coq, against the real ConstantFolder /
    _try_fold run in CPython on the same operands.  Validates translator + wrapper; returns (n, broken_forms)."""
    from decimal import Decimal
    rnd = ctx.rng("modeltie")
    full = lit_grid()
    must = [0, 1, 2, 3, -1, -2, -7, 7, 8, 255, 256, 257, 2**255 - 1, 2**255, -(2**255), 2**256 - 1, 2**128, -(2**127)]
    if ctx.tier == "thorough":
        g = sorted(set(full + must))
    else:
        g = sorted(set(rnd.sample(full, 8) + must))
    g = g + [rnd.randrange(-(2**255), 2**256) for _ in range(3)]
    gb = sorted(set(g[::3] + [0, 1, -1, 2, -2, 3, 10, 2**128, -(2**127), 2**255, 2**256 - 1]))
    gs = [-2, -1, 0, 1, 2, 7, 8, 255, 256, 257, 2**255, 2**256 - 1, rnd.randrange(0, 257)]
    gn = [-(2**200), -258, -257, -256, -255, -8, -1, 0, 1, 8, 255, 256, 257, 300, 2**200, rnd.randrange(-256, 257)]
    g3 = [0, 1, 2, 3, 2**255, 2**256 - 1, 2**128 + 1, rnd.randrange(2**256), -1]
    jobs = []  # (form, cases, coq_expr, py_expr_fn, kind)
    for cls, sym, con in BINOPS:
        if cls == "Pow":
            cases = [(a, b) for a in gb for b in EXPS]
        elif cls in ("LShift", "RShift"):
            cases = [(a, b) for a in g for b in gs]
        else:
            cases = [(a, b) for a in g for b in g]
        jobs.append((cls, cases, f"flat_map (fun p => enc (fold_binop gP {con} (p1 p) (p2 p))) {triples(cases)}",
                     lambda c, sym=sym: f"({c[0]}) {sym} ({c[1]})", "int"))
    for cls, sym, con in CMPS:
        cases = [(a, b) for a in g[::2] for b in g[::2]] + [(a, a) for a in g]
        jobs.append((cls, cases, f"flat_map (fun p => encb (fold_cmp {con} (p1 p) (p2 p))) {triples(cases)}",
                     lambda c, sym=sym: f"({c[0]}) {sym} ({c[1]})", "bool"))
    cases = [(a,) for a in g]
    jobs.append(("USub", cases, f"flat_map (fun p => enc (fold_unop UNeg (p1 p))) {triples(cases)}", lambda c: f"-({c[0]})", "int"))
    jobs.append(("Invert", cases, f"flat_map (fun p => enc (fold_unop UInvert (p1 p))) {triples(cases)}", lambda c: f"~({c[0]})", "int"))
    cases = [(a, n) for a in g for n in gn]
    jobs.append(("shift", cases, f"flat_map (fun p => enc (Shift_fold (p1 p) (p2 p))) {triples(cases)}",
                 lambda c: f"shift({c[0]}, {c[1]})", "int"))
    cases = [(a, b, c) for a in g3 for b in g3 for c in g3]
    jobs.append(("uint256_addmod", cases, f"flat_map (fun p => enc (AddMod_fold (p1 p) (p2 p) (p3 p))) {triples(cases)}",
                 lambda c: f"uint256_addmod({c[0]}, {c[1]}, {c[2]})", "int"))
    jobs.append(("uint256_mulmod", cases, f"flat_map (fun p => enc (MulMod_fold (p1 p) (p2 p) (p3 p))) {triples(cases)}",
                 lambda c: f"uint256_mulmod({c[0]}, {c[1]}, {c[2]})", "int"))
    cases = [(a, b) for a in g3 for b in g3 + [7, 255, 256, 257]]
    jobs.append(("pow_mod256", cases, f"flat_map (fun p => enc (PowMod256_fold (p1 p) (p2 p))) {triples(cases)}",
                 lambda c: f"pow_mod256({c[0]}, {c[1]})", "int"))
    cases = [(a,) for a in g]
    jobs.append(("abs", cases, f"flat_map (fun p => enc (Abs_fold (p1 p))) {triples(cases)}", lambda c: f"abs({c[0]})", "int"))
    cases = [(a, b) for a in g[::2] for b in g[::2]]
    jobs.append(("min", cases, f"flat_map (fun p => enc (Min_fold gT (p1 p) (p2 p))) {triples(cases)}",
                 lambda c: f"min({c[0]}, {c[1]})", "int-oracle"))
    jobs.append(("max", cases, f"flat_map (fun p => enc (Max_fold gT (p1 p) (p2 p))) {triples(cases)}",
                 lambda c: f"max({c[0]}, {c[1]})", "int-oracle"))
    units = sorted(DENOMS)
    cases = [(a, DENOMS[u], i) for a in g[::2] for i, u in enumerate(units)]
    jobs.append(("as_wei_value", cases, f"flat_map (fun p => enc (AsWeiValue_fold (p2 p) (p1 p) 0)) {triples(cases)}",
                 lambda c: f"as_wei_value({c[0]}, '{units[c[2]]}')", "int"))
    # decimals (hand model)
    # decimals (hand model): boundary grid = range ends +-1 ulp, unit / sub-unit / repeating-quotient values of both signs,
    # square roots of the range (products at the overflow edge), powers of ten around the scaling factor
    D = 10**10
    dg = {0, 1, -1, 2, -2, 3, -3, 7, -7, 9, D - 1, D, D + 1, -D + 1, -D, -D - 1, 15 * D // 10, -25 * D // 10, 3 * D + 1, D // 3, -(D // 3), 2 * D // 3,
          D // 7, 10 * D, 100 * D, -(10**5), 10**5, 10**5 + 1, 99999, 2**167 - 1, 2**167 - 2, -(2**167), -(2**167) + 1, 2**166, -(2**166), 2**100, -(2**100) + 12345,
          2**83, -(2**83), 2**84 - 1, 13_67_77_14_21 * 10**15, (2**167 - 1) // D * D, -((2**167) // D) * D, (2**167 - 1) // D, 3333333333, -6666666667}
    if ctx.tier == "quick":
        dg = set(rnd.sample(sorted(dg), 16)) | {0, 1, -1, D, -D, 3, -7, 2**167 - 1, -(2**167), D // 3}
    dg = sorted(dg | {rnd.randrange(-(2**167), 2**167), rnd.randrange(-(10**15), 10**15), rnd.randrange(-(10**12), 10**12)})
    for nm, sym, con in [("dec+", "+", "DAdd"), ("dec-", "-", "DSub"), ("dec*", "*", "DMul"), ("dec/", "/", "DDiv"), ("dec%", "%", "DMod")]:
        cases = [(a, b) for a in dg for b in dg]
        jobs.append((nm, cases, f"flat_map (fun p => enc (dec_fold {con} (p1 p) (p2 p)) ++ enc (dtyped (dec_fold {con} (p1 p) (p2 p)))) {triples(cases)}",
                     lambda c, sym=sym: f"{P.dec_lit(c[0])} {sym} {P.dec_lit(c[1])}", "dec"))
    cases = [(a,) for a in dg]
    jobs.append(("floor", cases, f"flat_map (fun p => enc (floor_fold (p1 p))) {triples(cases)}", lambda c: f"floor({P.dec_lit(c[0])})", "int"))
    jobs.append(("ceil", cases, f"flat_map (fun p => enc (ceil_fold (p1 p))) {triples(cases)}", lambda c: f"ceil({P.dec_lit(c[0])})", "int"))

    jobs += conversion_jobs(ctx, g, rnd)
    outs = coq_eval("c17tie", [j[2] for j in jobs])
    n = 0
    broken = []
    dist = {}
    for (form, cases, _, pyf, kind), flat in zip(jobs, outs):
        k = 2 if kind == "dec" else 1
        model = lists_out(flat, len(cases)) if kind == "direct-list" else pairs_out(flat, k)
        assert len(model) == len(cases), (form, len(model), len(cases))
        bad = None
        for c, m in zip(cases, model):
            st, v = pyf(c) if kind.startswith("direct") else real_fold(pyf(c))
            n += 1
            if kind == "bool" and st == "ok":
                v = int(bool(v))
            if kind == "dec1":
                if st == "ok":
                    v = int(v * Decimal(10**10))
                    ok = m[0] == v
                else:
                    ok = m[0] is None or v == "TypeMismatch"
            elif kind == "dec":
                if st == "ok":
                    v = int(v * Decimal(10**10)) if v == v.to_integral_value() or True else v
                    sv = Decimal(v) / Decimal(10**10)
                    ok = m[0] == v
                else:
                    ok = m[1] is None
            elif kind == "direct-list":
                ok = (m == v) if st == "ok" else (m is None)
            elif st == "ok":
                ok = m[0] == v
            else:
                # real folder rejected: the model must reject too, except where an oracle decides
                # (the parser folds `-N` into a literal and range-checks it against [-2^255, 2^256) itself)
                ok = m[0] is None or (form == "Pow" and v == "InvalidLiteral") or (kind == "int-oracle" and v == "TypeMismatch") \
                    or (form == "USub" and v == "OverflowException" and not (-(2**255) <= m[0] < 2**256))
            if not ok and bad is None:
                bad = {"form": form, "expr": str(c) if kind.startswith("direct") else pyf(c), "real": f"{st}:{v}", "model": str(m)}
        dist[form] = len(cases)
        if bad:
            broken.append(bad)
    ctx.corr["model_tie_cases"] = n
    ctx.corr["model_tie_distribution"] = dist
    return n, broken


# ------------------------------------------------------------------ part 3: paired probes
def type_grid(T, rnd, extra=2):
    lo, hi = P.bounds(T)
    c = {lo, lo + 1, hi, hi - 1, 0, 1, 2, 3, 7, 10, hi // 2, hi // 2 + 1, 2 ** (T[1] // 2), 2 ** (T[1] // 2) - 1}
    if T[0]:
        c |= {-1, -2, -3, -7, lo // 2, -(2 ** (T[1] // 2))}
    c = {x for x in c if lo <= x <= hi}
    for _ in range(extra):
        c.add(rnd.randrange(lo, hi + 1))
        c.add(rnd.randrange(max(lo, -1000), min(hi, 1000) + 1))
    return sorted(c)


def pick_pairs(g, rnd, n, must=()):
    allp = [(a, b) for a in g for b in g]
    out = [p for p in must if p[0] in g and p[1] in g]
    rnd.shuffle(allp)
    for p in allp:
        if len(out) >= n:
            break
        if p not in out:
            out.append(p)
    return out


def make_probes(ctx, types, npairs, only_ops=None, salt="probes"):
    rnd = ctx.rng(salt)
    probes = []

    def want(name):
        return only_ops is None or name in only_ops

    for T in types:
        tn = P.tname(T)
        lo, hi = P.bounds(T)
        g = type_grid(T, rnd)
        must = [(lo, -1), (lo, lo), (hi, hi), (hi, 1), (lo, 1), (-7, 3), (7, -3), (-7, -3), (7, 3), (0, 0), (1, 0), (lo, 0),
                (hi, lo), (lo, hi), (-1, -1), (hi, 2), (lo, 2)]
        for cls, sym, con in BINOPS:
            if not want(cls):
                continue
            if cls in ("LShift", "RShift"):
                if T[1] != 256:
                    continue
                bs = [0, 1, 2, 7, 8, 127, 128, 254, 255, 256, 257, 2**255, 2**256 - 1, rnd.randrange(0, 256)]
                prs = [(a, b) for a in rnd.sample(g, min(len(g), max(4, npairs // 3))) + [lo, hi, -1 if T[0] else 1] for b in rnd.sample(bs, 5) + [255, 256]]
                for a, b in prs:
                    probes.append(P.Probe(cls, T, (a, b), f"{P.lit(a)} {sym} {P.lit(b)}", [tn, "uint256"], f"x0 {sym} x1", (a, b), tn))
                continue
            if cls == "Pow":
                bases = [x for x in {lo, hi, -1, 0, 1, 2, 3, -2, -3, 10, 2 ** (T[1] // 4)} if lo <= x <= hi]
                exps = [0, 1, 2, 3, T[1] // 2, T[1] - 1, T[1], 255, 256, 257]
                prs = pick_pairs(bases, rnd, 0) + [(a, e) for a in bases for e in rnd.sample(exps, 3)]
                prs += [(a, e) for a in (0, 1, -1) if lo <= a <= hi for e in (hi, max(hi - 1, 0)) if e <= hi]
                prs = [(a, e) for a, e in prs if 0 <= e <= hi]
                rnd.shuffle(prs)
                # boundaries: a**e exactly at / one step beyond the ends of the range, for several bases
                edge = [(0, 0), (0, 1), (1, 0), (hi, 1), (hi, 2), (lo, 1), (lo, 2), (lo, 0)]
                for b_ in (2, 3, 7, 10, -2, -3, -10, 2 ** (T[1] // 8)):
                    if not lo <= b_ <= hi:
                        continue
                    k = 0
                    while lo <= b_ ** (k + 1) <= hi and k < 300:
                        k += 1
                    edge += [(b_, k), (b_, k + 1)] + ([(b_, k + 2)] if b_ < 0 else []) + ([(b_, k - 1)] if k > 0 else [])
                if T[0]:
                    edge += [(-1, 255 if hi >= 255 else hi), (-1, 254 if hi >= 254 else hi - 1), (-2, T[1] - 1), (-2, T[1]), (2, T[1] - 2), (2, T[1] - 1)]
                else:
                    edge += [(2, T[1] - 1), (2, T[1]), (2 ** (T[1] // 2), 2), (2 ** (T[1] // 2) - 1, 2)]
                edge = [(a, e) for a, e in dict.fromkeys(edge) if lo <= a <= hi and 0 <= e <= hi]
                if ctx.tier == "quick":
                    edge = rnd.sample(edge, min(len(edge), 9))
                for a, e in edge + prs[: max(npairs // 2, 4)]:
                    # run time needs one literal side: literal base and literal exponent variants
                    probes.append(P.Probe(cls, T, (a, e), f"{P.lit(a)} ** {P.lit(e)}", [tn], f"{P.lit(a)} ** x0", (e,), tn))
                    probes.append(P.Probe(cls, T, (a, e), f"{P.lit(a)} ** {P.lit(e)}", [tn], f"x0 ** {P.lit(e)}", (a,), tn))
                continue
            for a, b in pick_pairs(g, rnd, npairs, must):
                probes.append(P.Probe(cls, T, (a, b), f"{P.lit(a)} {sym} {P.lit(b)}", [tn, tn], f"x0 {sym} x1", (a, b), tn))
        for cls, sym, con in CMPS:
            if want(cls):
                for a, b in pick_pairs(g, rnd, max(3, npairs // 3), [(lo, hi), (hi, hi), (-1, 0)]):
                    probes.append(P.Probe(cls, T, (a, b), f"{P.lit(a)} {sym} {P.lit(b)}", [tn, tn], f"x0 {sym} x1", (a, b), "bool"))
        if T[0] and want("USub"):
            for a in rnd.sample(g, min(len(g), npairs // 2)) + [lo, hi]:
                probes.append(P.Probe("USub", T, (a,), f"-{P.lit(a)}", [tn], "-x0", (a,), tn))
        if want("Invert"):
            for a in rnd.sample(g, 3) + [lo, hi]:
                probes.append(P.Probe("Invert", T, (a,), f"~{P.lit(a)}", [tn], "~x0", (a,), tn))
        for b in ("min", "max"):
            if want(b):
                for a, c in pick_pairs(g, rnd, max(3, npairs // 3), [(lo, hi), (-1, 0), (hi, hi)]):
                    probes.append(P.Probe(b, T, (a, c), f"{b}({a}, {c})", [tn, tn], f"{b}(x0, x1)", (a, c), tn))
        for u, cu in (("unsafe_add", "UAdd"), ("unsafe_sub", "USub"), ("unsafe_mul", "UMul"), ("unsafe_div", "UDiv")):
            if want(u):
                for a, c in pick_pairs(g, rnd, max(4, npairs // 2), [(lo, -1), (hi, hi), (hi, 1), (lo, 1), (lo, 0), (-7, 2), (7, -2)]):
                    probes.append(P.Probe(u, T, (a, c), f"{u}({a}, {c})", [tn, tn], f"{u}(x0, x1)", (a, c), tn))
        if want("as_wei_value"):
            for a in rnd.sample(g, 3) + [hi, lo]:
                for unit in rnd.sample(sorted(DENOMS), 2):
                    probes.append(P.Probe("as_wei_value", T, (a, DENOMS[unit]), f"as_wei_value({a}, '{unit}')", [tn],
                                          f"as_wei_value(x0, '{unit}')", (a,), "uint256"))
        if not T[0] and want("uint2str"):
            slen = math.ceil(T[1] * math.log(2) / math.log(10))
            for a in rnd.sample(g, 2) + [0, hi]:
                probes.append(P.Probe("uint2str", T, (a,), f"uint2str({a})", [tn], "uint2str(x0)", (a,), f"String[{slen}]"))
        if want("convert"):
            for T2 in rnd.sample(ALL_TYPES, 2) + [(False, 256), (True, 8)]:
                if T2 == T:
                    continue
                for a in rnd.sample(g, 2) + [lo, hi]:
                    probes.append(P.Probe("convert", T, (a, int(T2[0]), T2[1]), f"convert({a}, {P.tname(T2)})", [tn],
                                          f"convert(x0, {P.tname(T2)})", (a,), P.tname(T2)))
        if T[1] == 256:
            if want("abs") and T[0]:
                for a in rnd.sample(g, 4) + [lo, lo + 1, hi, -1]:
                    probes.append(P.Probe("abs", T, (a,), f"abs({a})", [tn], "abs(x0)", (a,), tn))
            if want("shift"):
                ns = [-257, -256, -255, -8, -1, 0, 1, 8, 255, 256, 257, rnd.randrange(-256, 257)]
                sh = [(a, n) for a in rnd.sample(g, 3) + [lo, hi, -1 if T[0] else 1] for n in rnd.sample(ns, 4)]
                if T[0]:  # negative literal, right and left shifts (the only literals shift() accepts in an int256 context)
                    sh += [(-8, -1), (-1, -255), (-1, -256), (lo, -1), (lo, -255), (-3, 1), (-1, 255), (lo + 1, -8)]
                for a, n in sh:
                    probes.append(P.Probe("shift", T, (a, n), f"shift({a}, {n})", [tn, "int256"], "shift(x0, x1)", (a, n), tn))
                    if a < 0 and len(probes) % 3 == 0:  # the same through a named constant
                        probes.append(P.Probe("shift", T, (a, n), "shift(A{i}, " + str(n) + ")", [tn, "int256"], "shift(x0, x1)", (a, n), tn,
                                              pre=f"A{{i}}: constant({tn}) = {a}\n"))
            if not T[0]:
                g3 = [0, 1, 2, 3, hi, hi - 1, 2**255, rnd.randrange(hi)]
                if want("uint256_addmod") or want("uint256_mulmod"):
                    for _ in range(npairs):
                        a, b, c = rnd.choice(g3), rnd.choice(g3), rnd.choice(g3)
                        for f in ("uint256_addmod", "uint256_mulmod"):
                            if want(f):
                                probes.append(P.Probe(f, T, (a, b, c), f"{f}({a}, {b}, {c})", [tn, tn, tn], f"{f}(x0, x1, x2)", (a, b, c), tn))
                if want("pow_mod256"):
                    for _ in range(npairs):
                        a, b = rnd.choice(g3), rnd.choice(g3 + [255, 256, 257])
                        probes.append(P.Probe("pow_mod256", T, (a, b), f"pow_mod256({a}, {b})", [tn, tn], "pow_mod256(x0, x1)", (a, b), tn))
    return probes


def make_misc_probes(ctx, npairs):
    """Non-integer forms: decimals, bool ops, len, hashes (paired probes only; decimals also have a hand model)."""
    rnd = ctx.rng("misc")
    probes = []
    dg = [0, 1, -1, 10**10, -(10**10), 15 * 10**9, -25 * 10**9, 3 * 10**10 + 1, 10**10 - 1, 7, -7, 2**167 - 1, -(2**167),
          rnd.randrange(-(2**167), 2**167), rnd.randrange(-(10**15), 10**15), rnd.randrange(-(10**12), 10**12), 2**100, 3333333333]
    for sym, con in (("+", "DAdd"), ("-", "DSub"), ("*", "DMul"), ("/", "DDiv"), ("%", "DMod")):
        for a, b in pick_pairs(dg, rnd, npairs, [(-7, 3), (7, -3), (10**10, 3 * 10**10 + 1), (-(2**167), -(10**10)), (2**167 - 1, 10**10 - 1)]):
            probes.append(P.Probe("dec" + sym, None, (a, b), f"{P.dec_lit(a)} {sym} {P.dec_lit(b)}", ["decimal", "decimal"],
                                  f"x0 {sym} x1", (a, b), "decimal"))
    for sym in ("<", "<=", "==", "!=", ">", ">="):
        for a, b in pick_pairs(dg, rnd, 2, [(1, 1)]):
            probes.append(P.Probe("deccmp", None, (a, b), f"{P.dec_lit(a)} {sym} {P.dec_lit(b)}", ["decimal", "decimal"], f"x0 {sym} x1", (a, b), "bool"))
    for f in ("floor", "ceil"):
        for a in dg:
            probes.append(P.Probe(f, None, (a,), f"{f}({P.dec_lit(a)})", ["decimal"], f"{f}(x0)", (a,), "int256"))
    for f in ("min", "max"):
        for a, b in pick_pairs(dg, rnd, 4):
            probes.append(P.Probe("dec" + f, None, (a, b), f"{f}({P.dec_lit(a)}, {P.dec_lit(b)})", ["decimal", "decimal"], f"{f}(x0, x1)", (a, b), "decimal"))
    for a in dg[:8]:
        if a >= 0:
            probes.append(P.Probe("decwei", None, (a,), f"as_wei_value({P.dec_lit(a)}, 'gwei')", ["decimal"], "as_wei_value(x0, 'gwei')", (a,), "uint256"))
    for a in (True, False):
        probes.append(P.Probe("not", None, (a,), f"not {a}", ["bool"], "not x0", (a,), "bool"))
        for b in (True, False):
            probes.append(P.Probe("and", None, (a, b), f"{a} and {b}", ["bool", "bool"], "x0 and x1", (a, b), "bool"))
            probes.append(P.Probe("or", None, (a, b), f"{a} or {b}", ["bool", "bool"], "x0 or x1", (a, b), "bool"))
    # ---- conversions of literals vs run-time conversions
    D = 10**10
    ctys = [(True, 8), (False, 8), (True, 128), (False, 256), (True, 256)] + rnd.sample(ALL_TYPES, 2)
    for T in ctys:
        tn = P.tname(T)
        lo, hi = P.bounds(T)
        ds = {0, D - 1, -D + 1, 15 * D // 10, -15 * D // 10, lo * D, lo * D - 1, lo * D - D + 1, lo * D - D, hi * D, hi * D + 1, hi * D + D - 1, hi * D + D}
        for V in sorted(v for v in ds if -(2**167) <= v < 2**167)[:: (1 if ctx.tier == "thorough" else 2)] + [lo * D - 1 if lo * D - 1 >= -(2**167) else 0]:
            probes.append(P.Probe("convert_dec_int", None, (V, int(T[0]), T[1]), f"convert({P.dec_lit(V)}, {tn})", ["decimal"], f"convert(x0, {tn})", (V,), tn))
        if T[1] <= 256:
            q = (2**167 - 1) // D
            for v in sorted({x for x in (0, 1, -1, lo, hi, q, q + 1, -q, -q - 1, -q - 2) if lo <= x <= hi})[:6]:
                probes.append(P.Probe("convert_int_dec", T, (v,), f"convert({v}, decimal)", [tn], "convert(x0, decimal)", (v,), "decimal"))
        for m in sorted({1, T[1] // 8, 32}):
            for val in sorted({0, 1, 2 ** (8 * m - 1) - 1, 2 ** (8 * m - 1), 2 ** (8 * m) - 1, rnd.randrange(2 ** (8 * m))})[:5]:
                b = val.to_bytes(m, "big")
                probes.append(P.Probe("convert_hex_int", None, (val * 64 + m, int(T[0]), T[1]), f"convert(0x{b.hex()}, {tn})", [f"bytes{m}"], f"convert(x0, {tn})", (b,), tn))
        for b in (True, False):
            probes.append(P.Probe("convert_bool_int", None, (int(b), int(T[0]), T[1]), f"convert({b}, {tn})", ["bool"], f"convert(x0, {tn})", (b,), tn))
    # ---- list-literal indexing
    lst = [7, 2**255, 9, 0]
    for i in (0, 1, 3, 4, 5, 2**255):
        probes.append(P.Probe("list_index", None, (i,), f"[{', '.join(map(str, lst))}][{i}]", ["uint256[4]", "uint256"], "x0[x1]", (lst, i), "uint256"))
    for n in (0, 1, 31, 32, 33, 64):
        data = bytes(rnd.randrange(256) for _ in range(n))
        lit = 'b"' + "".join(f"\\x{c:02x}" for c in data) + '"'
        probes.append(P.Probe("len", None, (n,), f"len({lit})", ["Bytes[64]"], "len(x0)", (data,), "uint256"))
        probes.append(P.Probe("keccak256", None, (n,), f"keccak256({lit})", ["Bytes[64]"], "keccak256(x0)", (data,), "bytes32"))
        probes.append(P.Probe("sha256", None, (n,), f"sha256({lit})", ["Bytes[64]"], "sha256(x0)", (data,), "bytes32"))
    return probes


def make_constant_probes(ctx, types, npairs):
    """The same operator applications with the operands given as named constants: in the expression, as a nested
    constant (C = A op B), as a constant of an imported module, and nested across modules."""
    rnd = ctx.rng("constants")
    probes = []
    ops = [c for c in BINOPS if c[0] not in ("Pow", "LShift", "RShift")]
    for T in types:
        tn = P.tname(T)
        lo, hi = P.bounds(T)
        g = type_grid(T, rnd, extra=1)
        must = [(lo, -1), (hi, 1), (-7, 3), (7, -3), (lo, lo), (hi, hi), (1, 0)]
        for cls, sym, con in rnd.sample(ops, 5):
            for a, b in pick_pairs(g, rnd, max(3, npairs // 3), must):
                A, B = f"A{{i}}: constant({tn}) = {a}\n", f"B{{i}}: constant({tn}) = {b}\n"
                shape = rnd.choice(["expr", "nested", "module", "module_nested"])
                if shape == "expr":
                    pre, lib, e = A + B, "", f"A{{i}} {sym} B{{i}}"
                elif shape == "nested":
                    pre, lib, e = A + B + f"C{{i}}: constant({tn}) = A{{i}} {sym} B{{i}}\n", "", "C{i}"
                elif shape == "module":
                    pre, lib, e = B, A, f"lib1.A{{i}} {sym} B{{i}}"
                else:
                    pre, lib, e = B + f"C{{i}}: constant({tn}) = lib1.A{{i}} {sym} B{{i}}\n", A, "C{i}"
                probes.append(P.Probe(cls, T, (a, b), e, [tn, tn], f"x0 {sym} x1", (a, b), tn, pre=pre, libpre=lib))
        if T[0] and T[1] < 256:
            # unsafe_* at the overflow boundaries of narrow signed types (raw result overflows with the sign bit clear / set)
            half = 2 ** (T[1] - 2)
            for f, a, b in (("unsafe_mul", half, 5), ("unsafe_mul", hi, hi), ("unsafe_mul", lo, lo), ("unsafe_mul", lo, -1), ("unsafe_mul", half, 2),
                            ("unsafe_sub", lo, 1), ("unsafe_sub", hi, -1), ("unsafe_add", hi, 1), ("unsafe_add", lo, -1), ("unsafe_add", hi, hi),
                            ("unsafe_div", lo, -1)):
                probes.append(P.Probe(f, T, (a, b), f"{f}({a}, {b})", [tn, tn], f"{f}(x0, x1)", (a, b), tn))
                pre = f"A{{i}}: constant({tn}) = {a}\nB{{i}}: constant({tn}) = {b}\n"
                probes.append(P.Probe(f, T, (a, b), f"{f}(A{{i}}, B{{i}})", [tn, tn], f"{f}(x0, x1)", (a, b), tn, pre=pre))
        for f in ("min", "max", "unsafe_add", "unsafe_sub", "unsafe_mul", "unsafe_div"):
            for a, b in pick_pairs(g, rnd, 2, [(lo, -1), (hi, hi)]):
                pre = f"A{{i}}: constant({tn}) = {a}\nB{{i}}: constant({tn}) = {b}\nC{{i}}: constant({tn}) = {f}(A{{i}}, B{{i}})\n"
                probes.append(P.Probe(f, T, (a, b), "C{i}", [tn, tn], f"{f}(x0, x1)", (a, b), tn, pre=pre))
    return probes


def _cty(t):
    """Coq term of C03.ConvSpec.cty for a Vyper type name"""
    C = "Verif.C03.ConvSpec."
    if t == "decimal":
        return f"({C}CNum (nt 21 1 1))"
    if t == "bool":
        return f"{C}CBool"
    if t == "address":
        return f"{C}CAddr"
    if t.startswith("bytes"):
        return f"({C}CBytes {int(t[5:])})"
    sg, bits = (1, int(t[3:])) if t.startswith("int") else (0, int(t[4:]))
    return f"({C}CNum (nt {bits // 8} {sg} 0))"


def _lit_of(t, v):
    if t == "decimal":
        return P.dec_lit(v).strip("()") if v >= 0 else P.dec_lit(v)
    if t == "bool":
        return "True" if v else "False"
    if t == "address":
        from eth_utils import to_checksum_address
        return to_checksum_address(v.to_bytes(20, "big"))
    if t.startswith("bytes"):
        return "0x" + v.to_bytes(int(t[5:]), "big").hex()
    return str(v)


def _arg_of(t, v):
    if t == "address":
        from eth_utils import to_checksum_address
        return to_checksum_address(v.to_bytes(20, "big"))
    if t.startswith("bytes"):
        return v.to_bytes(int(t[5:]), "big")
    if t == "bool":
        return bool(v)
    return v


CONV_TABLE = [  # (Tin, Tout, values) : allowed pairs of vyper/builtins/_convert.py beyond literal -> int / decimal
    ("uint8", "bool", [0, 1, 255]), ("int256", "bool", [-1, 0, 2**255 - 1]), ("decimal", "bool", [0, 1, 10**10, -1]),
    ("bytes2", "bool", [0, 0x0100, 1]), ("address", "bool", [0, 2**160 - 1]),
    ("uint8", "bytes1", [0, 255]), ("uint8", "bytes32", [7]), ("int8", "bytes1", [-1, -128, 127]), ("int128", "bytes32", [-1, 2**127 - 1]),
    ("uint256", "bytes32", [2**256 - 1, 0]), ("decimal", "bytes32", [-(10**10), 2**167 - 1]), ("bool", "bytes1", [1, 0]),
    ("address", "bytes20", [2**160 - 1, 1]), ("address", "bytes32", [2**159]),
    ("bytes2", "bytes4", [0xABCD, 0]), ("bytes4", "bytes2", [0xABCD0000, 0xABCD0001, 0x00000001]), ("bytes32", "bytes1", [255 << 248, (255 << 248) + 1]),
    ("uint160", "address", [2**160 - 1, 0]), ("uint256", "address", [2**160, 5, 2**256 - 1]), ("bytes20", "address", [2**160 - 1]),
    ("bytes32", "address", [5, 2**160, 2**255]), ("bytes1", "address", [255]),
    ("bytes2", "decimal", [0xFFFF, 0x7FFF, 0]), ("bytes32", "decimal", [2**255, 2**256 - 1, 2**167 - 1, 2**167, 2**256 - 2**167, 2**256 - 2**167 - 1]),
    ("bytes21", "decimal", [2**167, 2**167 - 1, 2**168 - 1]), ("bool", "decimal", [1, 0]),
    ("address", "uint256", [2**160 - 1]), ("address", "uint160", [2**160 - 1, 0]), ("address", "uint8", [255, 256]), ("bool", "uint8", [1]),
    ("bool", "int8", [1]), ("bytes32", "int256", [2**256 - 1, 2**255]), ("bytes1", "uint256", [255]), ("bytes1", "int256", [255, 127]),
    ("bytes32", "uint8", [255, 256]), ("bytes2", "int8", [0xFFFF, 0xFF7F, 0x007F, 0x0080]),
]


def make_round4_probes(ctx):
    """conversions between all word-type kinds (operand as a typed constant vs as an argument), predictions from C03.conv_spec;
    slice / concat / extract32 / `in` on literal operands (not folded by the AST folder; evaluated by the optimisers)."""
    rnd = ctx.rng("round4")
    probes = []
    for tin, tout, vals in CONV_TABLE:
        for v in vals:
            pre = f"A{{i}}: constant({tin}) = {_lit_of(tin, v)}\n"
            probes.append(P.Probe("conv3", None, (tin, tout, v), f"convert(A{{i}}, {tout})", [tin], f"convert(x0, {tout})", (_arg_of(tin, v),), tout, pre=pre))
            if tin.startswith("bytes") or tin in ("bool", "address", "decimal"):  # untyped literal forms exist for these
                probes.append(P.Probe("conv3", None, (tin, tout, v), f"convert({_lit_of(tin, v)}, {tout})", [tin], f"convert(x0, {tout})", (_arg_of(tin, v),), tout))
    data = bytes(rnd.randrange(1, 256) for _ in range(40))
    blit = lambda b: 'b"' + "".join(f"\\x{c:02x}" for c in b) + '"'  # noqa
    for (st, ln) in ((0, 0), (0, 1), (1, 2), (0, 8), (7, 1), (8, 0), (5, 4), (8, 1), (0, 9), (2**255, 1)):
        d8 = data[:8]
        probes.append(P.Probe("slice", None, (st, ln), f"slice({blit(d8)}, {st}, {ln})", ["Bytes[8]", "uint256", "uint256"], "slice(x0, x1, x2)", (d8, st, ln), "Bytes[8]"))
    for (a, b) in ((1, 1), (0, 3), (4, 4), (2, 0)):
        probes.append(P.Probe("concat", None, (a, b), f"concat({blit(data[:a])}, {blit(data[8:8 + b])})", ["Bytes[4]", "Bytes[4]"], "concat(x0, x1)", (data[:a], data[8:8 + b]), "Bytes[8]"))
    for st in (0, 1, 8, 9, 2**255):
        probes.append(P.Probe("extract32", None, (st,), f"extract32({blit(data)}, {st})", ["Bytes[40]", "uint256"], "extract32(x0, x1)", (data, st), "bytes32"))
        probes.append(P.Probe("extract32", None, (st,), f"extract32({blit(data)}, {st}, output_type=int128)", ["Bytes[40]", "uint256"], "extract32(x0, x1, output_type=int128)", (data, st), "int128"))
    lst = [1, 5, 2**255]
    for x in (0, 1, 5, 6, 2**255, 2**256 - 1):
        probes.append(P.Probe("in", None, (x,), f"{x} in [1, 5, {2**255}]", ["uint256", "uint256[3]"], "x0 in x1", (x, lst), "bool"))
        probes.append(P.Probe("not in", None, (x,), f"{x} not in [1, 5, {2**255}]", ["uint256", "uint256[3]"], "x0 not in x1", (x, lst), "bool"))
    for s_ in ("", "a", "transfer(address,uint256)", "x" * 33):
        lit = '"' + s_ + '"'
        probes.append(P.Probe("keccak256", None, (len(s_),), f"keccak256({lit})", ["String[40]"], "keccak256(x0)", (s_,), "bytes32"))
        probes.append(P.Probe("sha256", None, (len(s_),), f"sha256({lit})", ["String[40]"], "sha256(x0)", (s_,), "bytes32"))
        probes.append(P.Probe("len", None, (len(s_),), f"len({lit})", ["String[40]"], "len(x0)", (s_,), "uint256"))
    h = data[:32]
    probes.append(P.Probe("keccak256", None, (32,), f"keccak256(0x{h.hex()})", ["bytes32"], "keccak256(x0)", (h,), "bytes32"))
    probes.append(P.Probe("sha256", None, (32,), f"sha256(0x{h.hex()})", ["bytes32"], "sha256(x0)", (h,), "bytes32"))
    return probes


# ---- round 5: the KIND of the literal as a dimension of every conversion probe
KIND_TARGETS = ["int8", "int16", "int64", "int128", "int256", "uint8", "uint16", "uint256", "decimal", "bool", "bytes1", "bytes4", "bytes32",
                "address", "String[32]", "Bytes[32]"]


def _blit(b):
    return 'b"' + "".join(f"\\x{c:02x}" for c in b) + '"'


def _kind_sources(rnd):
    """(kind, literal text, run-time type, run-time value, tag) for every literal kind and content class"""
    out = []
    for n in (1, 2, 3, 8, 16, 20, 31, 32):
        contents = {"first-bit-set": b"\x80" + b"\x00" * (n - 1), "all-ones": b"\xff" * n, "zero": b"\x00" * n, "max-positive": b"\x7f" + b"\xff" * (n - 1),
                    "leading-zero": b"\x00" + b"\xff" * (n - 1), "ones-then-fe": b"\xff" * (n - 1) + b"\xfe",
                    "random": bytes([rnd.randrange(128, 256)] + [rnd.randrange(256) for _ in range(n - 1)])}
        for tag, pl in contents.items():
            out.append(("HexBytes", f'x"{pl.hex()}"', f"Bytes[{n}]", pl, f"{tag}/{n}"))
            out.append(("Bytes", _blit(pl), f"Bytes[{n}]", pl, f"{tag}/{n}"))
            if n != 20:  # a 20-byte 0x literal is an address literal
                out.append(("Hex", "0x" + pl.hex(), f"bytes{n}", pl, f"{tag}/{n}"))
    out.append(("HexBytes", 'x""', "Bytes[1]", b"", "empty/0"))
    out.append(("Bytes", 'b""', "Bytes[1]", b"", "empty/0"))
    for v in (0, 1, -1, 127, 128, -128, -129, 255, 256, 2**127, 2**255 - 1, 2**255, -(2**255), 2**256 - 1, 2**160 - 1, 2**160):
        out.append(("Int", str(v), "int256" if v < 0 else "uint256", v, f"int/{v.bit_length()}"))
    D = 10**10
    for V in (0, 15 * D // 10, -15 * D // 10, 256 * D - 1, 256 * D, -5 * D // 10, 128 * D - 1, -128 * D - D + 1, -129 * D, 2**167 - 1, -(2**167), 1):
        out.append(("Decimal", P.dec_lit(V).strip("()") if V >= 0 else P.dec_lit(V), "decimal", V, "dec"))
    for st in ("", "a", "abc", "z" * 32, "\\x80"[:0] + "~" * 31):
        out.append(("Str", '"' + st + '"', f"String[{max(1, len(st))}]", st, f"str/{len(st)}"))
    for b in (True, False):
        out.append(("NameConstant", str(b), "bool", b, "bool"))
    return out


def make_literal_kind_probes(ctx, full=False):
    """convert(<literal of every kind>, <every target kind>): the literal written directly or as a named constant (folded) against the
    same value arriving in calldata / copied to memory / copied to storage (run time).  quick: a seeded sample that always contains,
    for every bytes-like kind, first-bit-set and all-ones contents into wider signed integers (both spellings)."""
    rnd = ctx.rng("litkind")
    srcs = _kind_sources(rnd)
    RT = [("calldata", "convert(x0, {T})"), ("memory", " @@ y: {A} = x0 @@ convert(y, {T})"), ("storage", "s{{n}}: {A} @@ self.s{{n}} = x0 @@ convert(self.s{{n}}, {T})")]
    probes, must = [], []
    j = 0
    for kind, txt, at, val, tag in srcs:
        mv = (len(val), int.from_bytes(val, "big")) if isinstance(val, bytes) else (0, 0)
        for T in KIND_TARGETS:
            if T == at:
                continue
            for spelled in ("literal", "constant"):
                for where, tmpl in RT:
                    if not full and ctx.tier == "quick" and (j + len(spelled)) % 3 != RT.index((where, tmpl)):
                        continue  # quick: one run-time location per (source, target, spelling), rotating
                    rt = tmpl.format(T=T, A=at)
                    if spelled == "literal":
                        pr = P.Probe("convkind", None, (kind, tag, T, spelled, where) + mv, f"convert({txt}, {T})", [at], rt, (val,), T)
                    else:
                        pr = P.Probe("convkind", None, (kind, tag, T, spelled, where) + mv, f"convert(K{{i}}, {T})", [at], rt, (val,), T,
                                     pre=f"K{{i}}: constant({at}) = {txt}\n")
                    probes.append(pr)
                    if kind in ("HexBytes", "Bytes", "Hex") and tag.split("/")[0] in ("first-bit-set", "all-ones") and T in ("int16", "int256") \
                            and tag.split("/")[1] in ("1", "2"):
                        must.append(pr)
                    elif tag == "empty/0" and T == "int256" and spelled == "literal":
                        must.append(pr)
            j += 1
    if full or ctx.tier != "quick":
        if not full and len(probes) > 2500:
            keep = set(map(id, must))
            probes = must + [p for p in rnd.sample(probes, 2500) if id(p) not in keep]
        return probes
    keep = set(map(id, must))
    rest = [p for p in probes if id(p) not in keep]
    return must + rnd.sample(rest, min(len(rest), 50))


def literal_position_probes(ctx):
    """Parse-level: a literal's AST value must be the value its source text denotes, at every syntactic position -- after the
    `extcall` / `staticcall` / `log` keywords (which the pre-parser rewrites, shifting columns), followed by nothing / space /
    operator / parenthesis / comma / comment, in default arguments, event arguments, subscripts, loop headers, asserts.
    Returns the number of literals compared."""
    import decimal
    from vyper import ast as vy_ast
    from vyper.exceptions import CompilerPanic, VyperException
    rnd = ctx.rng("litpos")
    lits = [("Int", "1234567"), ("Int", "7"), ("Decimal", "12.345"), ("Decimal", "1.5"), ("Decimal", "0.0000000001"), ("Hex", "0xdeadbeef"),
            ("Hex", "0x" + "ab" * 32), ("Str", '"hello world"'), ("Bytes", 'b"\\x01\\xfe"'), ("HexBytes", 'x"c0ffee"'),
            ("Int", str(rnd.randrange(10**6, 10**30))), ("Decimal", f"{rnd.randrange(10, 10**6)}.{rnd.randrange(1, 10**6):06d}")]
    followers = ["", " ", " + y", "+y", " * (y)", "   "]
    templates = ["    a: uint256 = extcall Foo(t).bar({L}{F})", "    a: uint256 = staticcall Foo(t).baz({L}{F}, 1)", "    log Ev(x={L}{F}, y=2)",
                 "    log Ev({L}{F}, 5)  # c", "    a: uint256 = g({L}{F})", "    extcall Foo(t).bar({L}{F})", "    a: uint256 = (staticcall Foo(t).baz(1, {L}{F}))",
                 "    a: uint256 = (extcall Foo(t).bar(w[{L}{F}]))", "    return extcall Foo(t).bar({L}{F})", "    log Ev({L}{F})",
                 "    assert staticcall Foo(t).baz({L}{F}, 2) == {L}, \"m\"", "    for i: uint256 in range(extcall Foo(t).bar({L}{F}), bound=8):\n        pass",
                 "    a: uint256 = extcall Foo(t).bar(extcall Foo(t).bar({L}{F}) + {L})", "    a: uint256 = {L}{F}"]
    kinds = (vy_ast.Int, vy_ast.Decimal, vy_ast.Hex, vy_ast.Str, vy_ast.Bytes, vy_ast.HexBytes)
    n = 0
    bad = []
    for ti, tmpl in enumerate(templates):
        for li, (kind, L) in enumerate(lits):
            for fi, F in enumerate(followers):
                if ctx.tier == "quick" and (ti + li + fi + ctx.seed) % 2 and not (kind == "Decimal" and F in (" + y", " ")):
                    continue
                src = f"def f(t: address, y: uint256, z: uint256 = {L}):\n" + tmpl.replace("{L}", L).replace("{F}", F) + f"\n    b: uint256 = {L}\n"
                count = tmpl.count("{L}") + 2
                exp = {"Int": lambda: int(L), "Decimal": lambda: decimal.Decimal(L), "Hex": lambda: L, "Str": lambda: L[1:-1],
                       "Bytes": lambda: bytes([1, 254]), "HexBytes": lambda: bytes.fromhex(L[2:-1])}[kind]()
                try:
                    with warnings.catch_warnings():
                        warnings.simplefilter("ignore")
                        tree = vy_ast.parse_to_ast(src)
                    nodes = sorted(tree.get_descendants(kinds), key=lambda nd: (nd.lineno, nd.col_offset))
                    seen = [nd.value for nd in nodes if type(nd).__name__ == kind]
                    # the templates' own constants (1, 2, 5, 8, "m") are not the literal under test
                    seen = [v for v in seen if v == exp or not (v in (1, 2, 5, 8) or v == "m")]
                    n += count
                    if len(seen) != count or any(v != exp for v in seen):
                        bad.append({"source": src, "literal": L, "kind": kind, "values_in_ast": [str(v) for v in seen], "expected_occurrences": count})
                except Exception as e:
                    if isinstance(e, VyperException) and not isinstance(e, CompilerPanic):
                        ctx.corr["litpos_rejected"] = ctx.corr.get("litpos_rejected", 0) + 1
                        ctx.corr.setdefault("litpos_rejected_sample", f"{type(e).__name__}: {src}")
                        continue
                    bad.append({"source": src, "literal": L, "kind": kind, "exception": f"{type(e).__name__}: {str(e)[:200]}"})
    for b in bad[:5]:
        ctx.violation("failing-input", f"the AST value of a {b['kind']} literal differs from its source text (or the parser crashes on it)",
                      dict(b, how="vyper.ast.parse_to_ast(source); compare the .value of the literal nodes with the literal text"),
                      key=f"c17:literal-position:{b['kind']}")
    ctx.corr["literal_position_literals"] = n
    ctx.corr["literal_position_bad"] = len(bad)
    return n


def model_exprs(p):
    """Coq expression giving [fold flag; fold value; spec flag; spec value] for probes with a model, else None."""
    T = p.T
    if T is None:
        d = {"dec+": "DAdd", "dec-": "DSub", "dec*": "DMul", "dec/": "DDiv", "dec%": "DMod"}
        if p.form in d:
            a, b = (coqrun.hexlit(x) for x in p.ops)
            return f"enc (dtyped (dec_fold {d[p.form]} {a} {b})) ++ enco (dec_spec {d[p.form]} {a} {b})"
        if p.form in ("floor", "ceil"):
            a = coqrun.hexlit(p.ops[0])
            return f"enc ({p.form}_fold {a}) ++ [1; {p.form}_spec {a}]"
        if p.form == "conv3":
            tin, tout, v = p.ops
            e = f"enc3 (Verif.C03.ConvSpec.conv_spec {_cty(tin)} {_cty(tout)} {coqrun.hexlit(v)})"
            return f"{e} ++ {e}"
        if p.form == "convkind":
            # bytes-like literal of m >= 1 bytes into an integer type: the model / spec of hex literals (Bytes[N] values of
            # length m convert like bytesM: the number of the m bytes, sign-extended from 8m bits into signed types)
            kind, _, T, _, _, m, val = p.ops
            if kind in ("HexBytes", "Bytes", "Hex") and m >= 1 and T[:3] in ("int", "uin"):
                ty = coq_ty((T.startswith("int"), int(T.lstrip("uint"))))
                return f"enc (literal_int (LHex {m} {coqrun.hexlit(val)}) {ty}) ++ enco (convert_int_spec (SBytesM {m} {coqrun.hexlit(val)}) {ty})"
            return None
        o = [coqrun.hexlit(x) for x in p.ops]
        if p.form == "convert_dec_int":
            ty = coq_ty((bool(p.ops[1]), p.ops[2]))
            return f"enc (literal_int (LDec {o[0]}) {ty}) ++ enco (convert_int_spec (SDec {o[0]}) {ty})"
        if p.form == "convert_hex_int":
            ty = coq_ty((bool(p.ops[1]), p.ops[2]))
            return f"enc (literal_int (LHex ({o[0]} mod 64) ({o[0]} / 64)) {ty}) ++ enco (convert_int_spec (SBytesM ({o[0]} mod 64) ({o[0]} / 64)) {ty})"
        if p.form == "convert_bool_int":
            ty = coq_ty((bool(p.ops[1]), p.ops[2]))
            bb = "true" if p.ops[0] else "false"
            return f"enc (literal_int (LBool {bb}) {ty}) ++ enco (convert_int_spec (SBool {bb}) {ty})"
        if p.form == "conv3":
            tin, tout, v = p.ops
            e = f"enc3 (Verif.C03.ConvSpec.conv_spec {_cty(tin)} {_cty(tout)} {coqrun.hexlit(v)})"
            return f"{e} ++ {e}"
        if p.form in ("in", "not in") and p.ret == "bool" and len(p.ops) == 1:
            f = "in_fold" if p.form == "in" else "notin_fold"
            neg = "" if p.form == "in" else "negb "
            l3 = f"[1; 5; {coqrun.hexlit(2**255)}]"
            return f"encb ({f} {coqrun.hexlit(p.ops[0])} {l3}) ++ [1; PyInt.b2z ({neg}(in_spec {coqrun.hexlit(p.ops[0])} {l3}))]"
        if p.form == "decwei":
            a = coqrun.hexlit(p.ops[0])
            return f"enc (typed U256 (as_wei_dec_fold {10**9} {a})) ++ enco (as_wei_dec_spec {a} {10**9})"
        if p.form == "deccmp":
            return None
        if p.form == "list_index":
            return f"enc (fold_index [7; {coqrun.hexlit(2**255)}; 9; 0] {o[0]}) ++ enco (index_spec [7; {coqrun.hexlit(2**255)}; 9; 0] {o[0]})"
        return None
    ty = coq_ty(T)
    o = [coqrun.hexlit(x) for x in p.ops]
    bin_ = {c[0]: c[2] for c in BINOPS}
    if p.form in bin_:
        if p.form == "Pow" and (p.ops[1] > 300 or abs(p.ops[0]).bit_length() * p.ops[1] > 2048):
            return None  # astronomically out of range: no model evaluation (the paired comparison still runs)
        return f"enc (typed {ty} (fold_binop gP {bin_[p.form]} {o[0]} {o[1]})) ++ enco (arith_spec {ty} {bin_[p.form]} {o[0]} {o[1]})"
    cmp_ = {c[0]: c[2] for c in CMPS}
    if p.form in cmp_:
        return f"encb (fold_cmp {cmp_[p.form]} {o[0]} {o[1]}) ++ [1; PyInt.b2z (cmp_spec {cmp_[p.form]} {o[0]} {o[1]})]"
    if p.form == "USub":
        return f"enc (typed {ty} (fold_unop UNeg {o[0]})) ++ enco (unop_spec {ty} UNeg {o[0]})"
    if p.form == "Invert":
        return f"enc (typed {ty} (fold_unop UInvert {o[0]})) ++ enco (unop_spec {ty} UInvert {o[0]})"
    if p.form in ("min", "max"):
        f = p.form.capitalize()
        return f"enc (typed {ty} ({f}_fold gT {o[0]} {o[1]})) ++ enco ({p.form}_spec {ty} {o[0]} {o[1]})"
    if p.form == "abs":
        return f"enc (typed {ty} (Abs_fold {o[0]})) ++ enco (abs_spec {ty} {o[0]})"
    if p.form == "shift":
        return f"enc (typed {ty} (Shift_fold {o[0]} {o[1]})) ++ enco (shift_spec {ty} {o[0]} {o[1]})"
    if p.form == "uint256_addmod":
        return f"enc (typed {ty} (AddMod_fold {o[0]} {o[1]} {o[2]})) ++ enco (addmod_spec {o[0]} {o[1]} {o[2]})"
    if p.form == "uint256_mulmod":
        return f"enc (typed {ty} (MulMod_fold {o[0]} {o[1]} {o[2]})) ++ enco (mulmod_spec {o[0]} {o[1]} {o[2]})"
    if p.form == "pow_mod256":
        return f"enc (typed {ty} (PowMod256_fold {o[0]} {o[1]})) ++ [1; PyInt.powmod {o[0]} {o[1]} (2 ^ 256)]"
    if p.form == "convert_int_dec":
        return f"enc (literal_decimal {o[0]}) ++ enco (convert_dec_spec {o[0]})"
    if p.form == "convert" and len(p.ops) == 3:
        ty2 = coq_ty((bool(p.ops[1]), p.ops[2]))
        return f"enc (literal_int (LInt {o[0]}) {ty2}) ++ enco (convert_int_spec (SInt {o[0]}) {ty2})"
    if p.form == "as_wei_value":
        return f"enc (typed U256 (AsWeiValue_fold {o[1]} {o[0]} 0)) ++ enco (as_wei_spec {o[0]} {o[1]})"
    if p.form.startswith("unsafe_"):
        c = {"unsafe_add": "UAdd", "unsafe_sub": "USub", "unsafe_mul": "UMul", "unsafe_div": "UDiv"}[p.form]
        return f"[0; 0; 1; unsafe_spec {ty} {c} {o[0]} {o[1]}]"
    return None


def decode(p, out):
    if out in (P.REJECT, "revert") or isinstance(out, str):
        return out
    if p.ret == "address":
        return int.from_bytes(out[:32], "big")
    if p.ret.startswith("bytes") and p.ret[5:].isdigit():
        return int.from_bytes(out[: int(p.ret[5:])], "big")
    if p.ret == "bool" or p.ret.startswith("uint"):
        return int.from_bytes(out[:32], "big") if len(out) == 32 else out.hex()
    if p.ret.startswith("int") or p.ret == "decimal":
        return P.decode_int(out, True) if len(out) == 32 else out.hex()
    return out.hex()


def run_probes(ctx, probes, cfgs, tag, with_model=True):
    """Executes the paired probes; reports failing inputs; returns (n_evaluations, n_failing, model_mismatches)."""
    front = Config(False, "gas", "prague")
    stats = {}
    ncf = len(cfgs)

    def cfgs_for_batch(k):  # every literal batch under legacy+venom; rotate through the rest of the set
        base = [cfgs[0], cfgs[1 % ncf]]
        extra = cfgs[2 + (k % (ncf - 2))] if ncf > 2 else None
        return base + ([extra] if extra is not None else [])

    import time as _t
    _t0 = _t.time()
    P.run_literal_side(probes, cfgs_for_batch, front, stats=stats)
    _t1 = _t.time()
    # literal-operand pow functions are one run-time function per probe: fewer configurations for those
    P.run_runtime_side([p for p in probes if p.form not in ("Pow", "convkind")], cfgs, front, stats=stats)
    # one run-time function per (source type, target, location): the first four configurations (both pipelines) in the quick tier
    P.run_runtime_side([p for p in probes if p.form == "convkind"], cfgs[:4] if len(cfgs) <= 10 else cfgs, front, stats=stats)
    P.run_runtime_side([p for p in probes if p.form == "Pow"], cfgs[:4] if len(cfgs) <= 10 else cfgs[:8], front, stats=stats)
    _t2 = _t.time()
    ctx.corr.setdefault("phase_seconds", {})
    ctx.corr["phase_seconds"][tag] = {"literal_side": round(_t1 - _t0, 1), "runtime_side": round(_t2 - _t1, 1), "literal_frontend_rejects": stats.get("literal_rejected_by_frontend")}
    preds = {}
    if with_model:
        idx = [(i, model_exprs(p)) for i, p in enumerate(probes)]
        idx = [(i, e) for i, e in idx if e is not None]
        # group ~300 probe expressions per Coq list to keep the number of Eval commands small
        chunks = [idx[i:i + 300] for i in range(0, len(idx), 300)]
        _t3 = _t.time()
        outs = coq_eval("c17probe" + tag, ["(" + " ++ ".join(f"({e})" for _, e in ch) + ")" for ch in chunks])
        ctx.corr["phase_seconds"][tag]["model_predictions"] = round(_t.time() - _t3, 1)
        for ch, flat in zip(chunks, outs):
            po = pairs_out(flat, 2)
            assert len(po) == len(ch)
            for (i, _), pr in zip(ch, po):
                preds[i] = pr
    n_eval = 0
    n_fail = 0
    mism = []
    combos = {"value/value": 0, "reject/value": 0, "value/revert": 0, "reject/revert": 0, "reject/reject": 0, "value/reject": 0}
    for i, p in enumerate(probes):
        lit_vals = {c: decode(p, v) for c, v in p.lit_res.items() if c not in ("why",)}
        rt_vals = {c: decode(p, v) for c, v in p.rt_res.items() if c not in ("why",)}
        lv = {v for v in lit_vals.values() if v not in (P.REJECT, "revert")}
        rv = {v for v in rt_vals.values() if v not in (P.REJECT, "revert")}
        n_eval += len(lit_vals) + len(rt_vals)
        harness = [v for v in list(lit_vals.values()) + list(rt_vals.values()) if isinstance(v, str) and v not in (P.REJECT, "revert") and (v.startswith("encode") or v.startswith("deploy"))]
        if harness:
            mism.append({"probe": p.ident(), "harness": harness[:2]})
            continue
        lk = "value" if lv else "reject"
        rk = "value" if rv else ("reject" if all(v == P.REJECT for v in rt_vals.values()) else "revert")
        combos[f"{lk}/{rk}"] = combos.get(f"{lk}/{rk}", 0) + 1
        # every returned value must be a value of the declared return type (exact-or-revert; C03's oracle, checked here
        # because the conversion probes reach type boundaries)
        rng_ = None
        if p.ret == "decimal":
            rng_ = (-(2**167), 2**167 - 1)
        elif p.ret.startswith("uint") and p.ret[4:].isdigit():
            rng_ = (0, 2 ** int(p.ret[4:]) - 1)
        elif p.ret.startswith("int") and p.ret[3:].isdigit():
            rng_ = (-(2 ** (int(p.ret[3:]) - 1)), 2 ** (int(p.ret[3:]) - 1) - 1)
        oor = [(c, v) for c, v in list(lit_vals.items()) + list(rt_vals.items()) if rng_ and isinstance(v, int) and not rng_[0] <= v <= rng_[1]]
        if oor:
            n_fail += 1
            ok_cfgs = [c for c, v in rt_vals.items() if v == "revert"]
            ctx.violation("failing-input", f"{p.form}: a value outside the range of the return type {p.ret} is returned instead of a revert",
                          {"probe": p.ident(), "out_of_range": {c: str(v) for c, v in oor}, "range": [str(rng_[0]), str(rng_[1])],
                           "configs_that_revert": ok_cfgs,
                           "how": "compile the run-time side with vyper.compiler.compile_code under the named configuration, deploy, call with args"},
                          key=f"c17:out-of-range-result:{p.form}")
            continue
        if rv and "revert" in rt_vals.values():
            # the same run-time function on the same operands reverts under one configuration and returns under another
            n_fail += 1
            ctx.violation("failing-input", f"{p.form}: run-time side reverts under some configurations and returns a value under others",
                          {"probe": p.ident(), "runtime_side": {k: str(v) for k, v in rt_vals.items()},
                           "how": "compile the run-time side under the named configurations, deploy, call with args"},
                          key=f"c17:runtime-configs-disagree:{p.form}:{p.ret}")
            continue
        if "revert" in lit_vals.values():
            # the literal side compiles to code that always reverts (the run-time check is executed on the constant; e.g. legacy
            # `convert(0xabcd0001, bytes2)`, which venom rejects at compile time): a rejection, not a value
            ctx.corr["literal_side_runtime_reverts"] = ctx.corr.get("literal_side_runtime_reverts", 0) + 1
        if len(lv | rv) > 1 or (lv and len(lv) > 1):
            n_fail += 1
            if p.form == "convkind":  # one report per (literal kind, content class, target class)
                k_ = (p.ops[0], p.ops[1].split("/")[0], p.ret.startswith("int"))
                seen_keys = ctx.corr.setdefault("_convkind_reported", [])
                if list(k_) in seen_keys:
                    ctx.corr["convkind_further_failing_probes"] = ctx.corr.get("convkind_further_failing_probes", 0) + 1
                    continue
                seen_keys.append(list(k_))
            ctx.violation("failing-input", f"folded value differs from run-time value: {p.form} on {p.ret}",
                          {"probe": p.ident(), "literal_side": {k: str(v) for k, v in lit_vals.items()},
                           "runtime_side": {k: str(v) for k, v in rt_vals.items()},
                           "how": "compile both functions with vyper.compiler.compile_code under the named configuration, deploy, call"},
                          key=(f"c17:convkind:{p.ops[0]}:{p.ops[1].split('/')[0]}:{'signed' if p.ret.startswith('int') else p.ret}"
                               if p.form == "convkind" else f"c17:{p.form}:{p.ret}:{p.expr_lit}"))
            continue
        if i in preds:
            fm, sm = preds[i]
            obs_l = next(iter(lv)) if lv else None
            obs_r = next(iter(rv)) if rv else None
            if p.form.startswith("unsafe_"):
                fm = obs_l  # no fold model: only the run-time spec is compared
            # compiler stricter than the model: Pow float guard / common-type oracle; shift() types a literal first
            # argument as uint256 and then rejects an int256 context -- allowed (one side rejects), counted
            oracle_ok = p.form in ("Pow", "min", "max", "shift") and fm is not None and obs_l is None
            if oracle_ok:
                ctx.corr["compiler_stricter_than_model"] = ctx.corr.get("compiler_stricter_than_model", 0) + 1
            if (fm != obs_l and not oracle_ok) or (sm != obs_r and rk != "reject"):
                mism.append({"probe": p.ident(), "model_fold": str(fm), "compiler_fold": str(obs_l), "spec": str(sm), "runtime": str(obs_r)})
    ctx.corr.setdefault("probe_outcomes", {})
    for k, v in combos.items():
        ctx.corr["probe_outcomes"][k] = ctx.corr["probe_outcomes"].get(k, 0) + v
    ctx.corr["probe_compiles"] = ctx.corr.get("probe_compiles", 0) + stats.get("compiles", 0)
    ctx.corr["probes_with_model_prediction"] = ctx.corr.get("probes_with_model_prediction", 0) + len(preds)
    return n_eval, n_fail, mism


def constant_probes(ctx, cfg):
    """min_value / max_value / epsilon have no run-time counterpart: compare the folded constant with the type's bounds."""
    rnd = ctx.rng("bounds")
    tys = rnd.sample(ALL_TYPES, 6) + [(False, 256), (True, 256), (True, 8)]
    src = ""
    exp = []
    for i, T in enumerate(tys):
        tn = P.tname(T)
        lo, hi = P.bounds(T)
        src += f"@external\ndef a{i}() -> {tn}:\n    return min_value({tn})\n@external\ndef b{i}() -> {tn}:\n    return max_value({tn})\n"
        exp += [(f"a{i}()", lo, T[0], f"min_value({tn})"), (f"b{i}()", hi, T[0], f"max_value({tn})")]
    src += "@external\ndef e() -> decimal:\n    return epsilon(decimal)\n@external\ndef dmin() -> decimal:\n    return min_value(decimal)\n" \
           "@external\ndef dmax() -> decimal:\n    return max_value(decimal)\n"
    exp += [("e()", 1, True, "epsilon(decimal)"), ("dmin()", -(2**167), True, "min_value(decimal)"), ("dmax()", 2**167 - 1, True, "max_value(decimal)")]
    # empty(T): the zero of every word type; method_id: first four bytes of keccak256 (independent library)
    from eth_utils import keccak
    for j, tn in enumerate(("uint256", "int8", "bool", "address", "bytes32", "bytes4", "decimal")):
        src += f"@external\ndef z{j}() -> {tn}:\n    return empty({tn})\n"
        exp.append((f"z{j}()", 0, False, f"empty({tn})"))
    for j, sig in enumerate(("transfer(address,uint256)", "f()", "a(uint256[3],bytes32)")):
        src += f"@external\ndef m{j}() -> bytes4:\n    return method_id(\"{sig}\", output_type=bytes4)\n"
        exp.append((f"m{j}()", int.from_bytes(keccak(sig.encode())[:4], "big") << 224, False, f"method_id(\"{sig}\")"))
        src += f"@external\ndef n{j}() -> Bytes[4]:\n    return method_id(\"{sig}\")\n"
    code = P.full_compile(src, cfg)
    if isinstance(code, Exception):
        ctx.violation("correspondence-broken", "min_value/max_value probe contract rejected", {"error": str(code)[:500]})
        return 0
    ch, addr = P._deploy(code, cfg)
    for sig, want, signed, what in exp:
        r = ch.call(addr, P._selector(sig))
        got = P.decode_int(r.out, signed) if r.ok else "revert"
        if got != want:
            ctx.violation("failing-input", f"{what} folded to a value other than expected ({want})",
                          {"source": src, "call": sig, "config": cfg.name, "expected": str(want), "observed": str(got)},
                          key=f"c17:bound:{what}")
    return len(exp)


def search(ctx, forms, cfgs):
    """Search: paired probes for the named forms on the dense boundary grid of every integer type."""
    probes = make_probes(ctx, ALL_TYPES, 30, only_ops=set(forms), salt="search")
    if any(str(f).startswith("convert") or f == "convkind" for f in forms):
        probes += make_literal_kind_probes(ctx, full=True)
    ctx.log(f"search: {len(probes)} probes for {sorted(forms)} on all {len(ALL_TYPES)} integer types")
    n, nf, _ = run_probes(ctx, probes, cfgs[:2], "s", with_model=False)
    return n, nf


FORM_OF_LEMMA = {  # which probe forms to search when a lemma breaks
    "evm_div_quot": ["FloorDiv"], "Mod_op_rem": ["Mod"], "fold_binop_agrees_lemma": [c[0] for c in BINOPS],
    "fold_unop_agrees_lemma": ["USub", "Invert"], "lxor_ones": ["Invert"], "fold_cmp_agrees_lemma": [c[0] for c in CMPS],
    "fold_min_agrees_lemma": ["min"], "fold_max_agrees_lemma": ["max"], "fold_abs_agrees_lemma": ["abs"],
    "fold_shift_agrees_lemma": ["shift"], "fold_addmod_agrees_lemma": ["uint256_addmod"],
    "fold_mulmod_agrees_lemma": ["uint256_mulmod"], "fold_powmod256_agrees_lemma": ["pow_mod256"],
    "fold_as_wei_agrees_lemma": ["as_wei_value"],
}
TIE_FORM = {"shift": "shift", "abs": "abs", "min": "min", "max": "max", "uint256_addmod": "uint256_addmod",
            "uint256_mulmod": "uint256_mulmod", "pow_mod256": "pow_mod256", "as_wei_value": "as_wei_value"}


NEST_DEPS = ["C17/ArithSpec.v", "C17/ConvSpec.v", "C17/GenFold.v", "C17/FoldModel.v", "C17/ConvModel.v", "C17/MiscModel.v",
             "C17/FoldAgree.v", "C17/ConvAgree.v", "C17/MiscAgree.v"]


def build_nest(ctx, proofs_ok):
    """nested-expression model + proofs; content-keyed reuse: recompiled whenever GenFold.v (regenerated from /repo) or any
    listed source changes.  The C03 bridge needs BridgeC03.vo of part_proofs."""
    b = ctx.coq_build_cached(["C17/NestModel.v", "C17/NestAgree.v", "C17/PropsNest.v"], deps=NEST_DEPS)
    if b["ok"] and proofs_ok:
        b = ctx.coq_build_cached(["C17/NestBridge.v", "C17/PropsNestBridge.v"],
                                 deps=NEST_DEPS + ["C03/LIR.v", "C03/ArithSpec.v", "C03/ConvSpec.v", "C17/BridgeC03.v", "C17/NestModel.v", "C17/NestAgree.v"])
    return b


def prebuild(ctx):
    build, _ = part_proofs(ctx)
    if build.get("gen") and build.get("ok"):
        build_nest(ctx, True)


def run(ctx):
    cfgs = configs(ctx.tier)
    if ctx.tier == "quick":
        types = CORE_TYPES + ctx.rng("types").sample([t for t in ALL_TYPES if t not in CORE_TYPES], 1)
        npairs = 8
    else:
        types = CORE_TYPES + ctx.rng("types").sample([t for t in ALL_TYPES if t not in CORE_TYPES], 10)
        npairs = 14
        cfgs = cfgs[:16]
    total = 0
    failing = 0
    import time as _t
    _ta = _t.time()
    build, info = part_proofs(ctx)
    ctx.corr.setdefault("phase_seconds", {})["coq_build"] = round(_t.time() - _ta, 1)
    _ta = _t.time()
    model_ok = build.get("gen") and (COQ / "C17" / "FoldModel.vo").exists() and (
        build["ok"] or not any(x in build.get("file", "") for x in ("GenFold", "FoldModel", "ArithSpec", "ConvSpec", "ConvModel", "MiscModel")))
    tie_broken = []
    if model_ok:
        try:
            n, tie_broken = part_model_tie(ctx)
            total += n
        except RuntimeError as e:  # the model does not evaluate (e.g. a changed signature): treated as a broken tie
            tie_broken = [{"form": "model-evaluation", "expr": "-", "real": "-", "model": str(e)[-400:]}]
            model_ok = False
    ctx.corr["phase_seconds"]["model_tie"] = round(_t.time() - _ta, 1)
    # paired probes: the property's own observation (independent of the Coq model)
    total += literal_position_probes(ctx)
    probes = make_literal_kind_probes(ctx) + make_round4_probes(ctx) + make_probes(ctx, types, npairs) + make_misc_probes(ctx, npairs) + make_constant_probes(ctx, (types[:5] if ctx.tier == "quick" else types) + [(True, 16)], npairs)
    n, nf, mism = run_probes(ctx, probes, cfgs, "q", with_model=model_ok)
    total += n
    failing += nf
    total += constant_probes(ctx, cfgs[0])
    # extension (session 3): nested constant expressions, visit_Compare on all literal kinds, flags / struct constants
    _ta = _t.time()
    nest_build = {"ok": False, "file": "C17/NestModel.v", "failed_lemma": None, "out": "models not built"}
    if model_ok:
        nest_build = build_nest(ctx, build["ok"])
    nest_model_ok = model_ok and (nest_build["ok"] or "NestModel" not in nest_build.get("file", ""))
    try:
        n, nf = c17_nest.run(ctx, cfgs, COQ_PRELUDE, nest_model_ok)
        total += n
    except RuntimeError as e:  # the model does not evaluate
        ctx.violation("correspondence-broken", "nested-expression model does not evaluate", {"error": str(e)[-600:]})
    if model_ok and not nest_build["ok"] and not any(v["kind"] == "failing-input" for v in ctx.violations):
        ctx.violation("theorem-broken", f"{nest_build.get('failed_lemma')} in {nest_build['file']}",
                      {"theorem": nest_build.get("failed_lemma"), "file": nest_build["file"], "coq_output": nest_build["out"][-1500:]})
    ctx.corr["phase_seconds"]["nested"] = round(_t.time() - _ta, 1)
    ctx.corr["probes"] = len(probes)
    ctx.corr["probe_forms"] = sorted({p.form for p in probes})
    ctx.corr["probe_types"] = [P.tname(t) for t in types]
    ctx.corr["configs"] = [c.name for c in cfgs]
    for p in probes[:3]:
        ctx.samples.append({"probe": p.ident(), "literal": {k: str(decode(p, v)) for k, v in list(p.lit_res.items())[:2]},
                            "runtime": {k: str(decode(p, v)) for k, v in list(p.rt_res.items())[:2]}})
    # verdict protocol
    search_forms = set()
    if not build.get("gen"):
        search_forms |= {c[0] for c in BINOPS} | {"USub", "Invert", "shift", "abs", "min", "max"}
    elif not build["ok"]:
        search_forms |= set(FORM_OF_LEMMA.get(build.get("failed_lemma"), [c[0] for c in BINOPS] + ["USub", "Invert", "shift", "abs"]))
    for b in tie_broken:
        search_forms.add(TIE_FORM.get(b["form"], b["form"]))
    for m in mism:
        search_forms.add(m["probe"]["form"])
    failing = sum(1 for v in ctx.violations if v["kind"] == "failing-input")  # known findings do not mask other reports
    if search_forms and not failing:
        n, nf = search(ctx, search_forms, cfgs)
        total += n
        failing += nf
    if not failing:
        if not build.get("gen"):
            ctx.violation("translator-rejected", "py2coq cannot translate the fold code: " + build["err"], {"error": build["err"]})
        elif not build["ok"]:
            ctx.violation("theorem-broken", f"{build.get('failed_lemma')} in {build['file']}",
                          {"theorem": build.get("failed_lemma"), "file": build["file"], "coq_output": build["out"][-1500:]})
        for b in tie_broken[:5]:
            ctx.violation("correspondence-broken", f"fold model disagrees with the real ConstantFolder on {b['form']}", b)
        for m in mism[:5]:
            ctx.violation("correspondence-broken", "model prediction disagrees with the compiled probe (no value conflict between the two sides)", m)
    ctx.corr["evaluations"] = total
    ctx.corr["distinct_nontrivial"] = ctx.corr.get("model_tie_cases", 0) + len(probes) + ctx.corr.get("nest_cases", 0)
    ctx.corr["rule"] = ("evaluations = real-folder runs + probe calls (per configuration); distinct = distinct (form, operands) model-tie "
                        "cases + distinct paired probes (form, type, operands) + distinct generated nested expressions")
    ctx.trusted += ["Coq 8.16.1 kernel + vm_compute",
                    "tools/vlib/py2coq.py + tools/vlib/c17_gen.py (method puller: integer instantiation, oracles for float/type-lattice guards); "
                    "validated each run by the real-ConstantFolder-vs-model differential",
                    "coq/C17/ArithSpec.v: hand-written run-time specification, tied to compiled code by paired probes on pyrevm only",
                    "coq/C17/FoldModel.v wrapper (shift bound, literal range check, decimal hand model): tied by differential only",
                    "coq/C17/NestModel.v (ConstantFolder.visit dispatch, ExprVisitor per-node validation of folded values, visit_Compare on "
                    "literal kinds): hand model tied by the generated-tree differential against the real front end and by twin probes"]
    ctx.assumptions += ["operands are in range of the operand type (they are ABI-valid calldata on the run-time side)",
                        "oracle parameters (Pow float guard, min/max common-type test) arbitrary: theorems hold for every oracle"]
