"""C03: arithmetic and conversion are exact or revert.

O-tie: the real code generators (both front ends) are run on symbolic / literal operands for the whole numeric
type family, their output exported as Coq terms, and tied by kernel-checked syntactic equality to parametric
template models whose exactness w.r.t. the mathematical spec is proved for all operand values.
H-ties: (1) exported templates are compiled by the real back ends (compile_ir / venom) + assembler and executed
on pyrevm against the Coq evaluators and the Coq spec (compared inside Coq); (2) glue differential: probe
contracts (one operation per external function) through the full compiler under several configurations vs the
Coq spec."""
import decimal
import threading
import time
from pathlib import Path

from vlib import c03_export as X
from vlib import coqrun
from vlib.c03_lib import (bounds, call_word, compare_rows, ir_snippet_code, run_code, type_grid, tyname,
                          venom_snippet_code, word)
from vlib.common import COQ
from vlib.configs import Config, configs
from vlib.configs import compile_src
from vlib.evm import Chain

LEVEL = "proof"
META = {
    "category": "proof",
    "text": "Every checked-arithmetic template (+ - * / // % unary-minus, range clamps) that the legacy and Venom code "
            "generators emit for all 64 integer types and decimal, with operands in variables or literal on either side "
            "(including the literal-dependent special cases), is proved (Coq, all operand values) to return the "
            "exact mathematical result when representable and to revert otherwise; the templates are re-exported "
            "from /repo on every run and tied to the proved parametric models by kernel-checked equality over the "
            "complete type family. The rest of the pipeline (ABI decode, optimiser passes, back ends) is covered by a "
            "differential of probe contracts against the Coq spec under several configurations.",
    "level_note": "Trusted: Coq kernel + vm_compute; the exporter tools/vlib/c03_export.py (IRnode/Venom instruction -> "
                  "Coq term; validated per run by executing exported templates through the real back ends on pyrevm "
                  "against the Coq evaluators); Word256.v (EVM word semantics, tied to pyrevm by vlib.wordtie). "
                  "Literal-operand templates are tied for a finite literal set covering every literal-dependent branch "
                  "(the theorems are parametric in the literal). Optimiser passes that later rewrite/delete checks "
                  "are covered by the glue differential only.",
    "technique": "Coq proof over exported code-generator templates (O-tie) + differential correspondence",
}

# static part (independent of /repo): models, word lemmas, the parametric exactness theorems
STATIC = ["C03/LIR.v", "C03/VSL.v", "C03/ArithSpec.v", "C03/WordArith.v", "C03/TypeLemmas.v", "C03/ArithModel.v",
          "C03/TieBase.v", "C03/VSubst.v", "C03/TieModels.v", "C03/LegacyExact.v", "C03/VenomExact.v"]
# regenerated templates + the ties + the property theorems about the REAL templates
LEGACY = ["C03/GenLegacy.v", "C03/TieLegacy.v", "C03/PropsLegacy.v"]
VENOM = ["C03/GenVenom.v", "C03/TieVenom.v", "C03/PropsVenom.v"]

OPSYM = {"AAdd": "+", "ASub": "-", "AMul": "*", "ADiv": "//", "AMod": "%", "AUSub": "-"}


def zlist(xs):
    return coqrun.zlist(xs)


COQ_PRELUDE = """From Verif Require Import Base.Word256 C03.LIR C03.VSL C03.ArithSpec.
Definition oc (o : outcome) : Z := match o with Val v => v | Revert => -1 | Stuck => -2 | Unit => -3 end.
(* operand pairs for a shape: 0 = grid x grid, 1 = x fixed to lit, 2 = y fixed to lit, 3 = unary *)
Definition prs (sh lit : Z) (G : list Z) : list (Z * Z) :=
  if sh =? 1 then map (fun y => (lit, y)) G else if sh =? 2 then map (fun x => (x, lit)) G
  else if sh =? 3 then map (fun x => (x, 0)) G else list_prod G G.
Definition spec_row (T : nty) (op : aop) (sh lit : Z) (G : list Z) : list Z :=
  map (fun p => oc (enc_out (arith_spec T op (fst p) (snd p)))) (prs sh lit G).
Definition lev_row (t : lir) (sh lit : Z) (G : list Z) : list Z :=
  map (fun p => oc (leval (env2 (fst p) (snd p)) t)) (prs sh lit G).
Definition vev_row (t : vtemplate) (sh lit : Z) (G : list Z) : list Z :=
  map (fun p => oc (vrun [("%2"%string, enc (snd p)); ("%1"%string, enc (fst p))] t)) (prs sh lit G).
Definition nest_row (T : nty) (G : list Z) : list Z :=
  map (fun p => oc (enc_out (match arith_spec T ASub (fst p) (snd p) with
     | Val v => arith_spec T AAdd v (snd p) | o => o end))) (list_prod G G).
"""


def pairs(sh, lit, g):
    if sh == 1:
        return [(lit, y) for y in g]
    if sh == 2:
        return [(x, lit) for x in g]
    if sh == 3:
        return [(x, 0) for x in g]
    return [(x, y) for x in g for y in g]


# ------------------------------------------------------------------ Coq builds (two independent chains)
def build_chain(ctx, files, deps, res, key):
    """Content-keyed cached build of a chain that depends on `deps` (already built).  Mirrors
    Ctx.coq_build_cached but with external dependencies, so the legacy and venom chains run concurrently."""
    done = [COQ / d for d in deps]
    for f in files:
        p = COQ / f
        hits = coqrun.forbidden_tokens(p)
        if hits:
            ctx.violation("gate", f"forbidden construct in {f}", {"hits": hits[:10]})
            res[key] = {"ok": False, "file": str(f), "failed_lemma": None, "out": str(hits)}
            return
        r = coqrun.coqc_cached(p, done, timeout=900)
        names = coqrun.obligations(p)
        ctx.coq_files.append(str(f))
        ctx.obligation_names += [f"{Path(f).stem}.{n}" for n in names]
        ctx.extra.setdefault("reused_vo", [])
        if r.get("reused"):
            ctx.extra["reused_vo"].append(str(f))
        if not r["ok"]:
            if r["failed_lemma"] in names:
                ctx.discharged += names.index(r["failed_lemma"])
            res[key] = {"ok": False, "file": r["file"], "failed_lemma": r["failed_lemma"], "out": r["out"][-3000:]}
            return
        ctx.discharged += len(names)
        ctx.assumptions_out += coqrun.parse_assumptions(r["out"])
        done.append(p)
    ctx.checker_cmds.append("coqc -Q coq Verif " + " ".join(str(f) for f in files) + " (content-keyed reuse)")
    res[key] = {"ok": True}


# ------------------------------------------------------------------ (1) template differential / Search
def mismatching_templates(kind):
    """Ask Coq which exported templates differ from the parametric model (needs Gen*.vo + static TieModels.vo).
    Returns a list of indices, or None if the question cannot be asked."""
    gen, fn, tbl = ("GenLegacy", "tie_one", "legacy_templates") if kind == "legacy" else ("GenVenom", "vtie_one", "venom_templates")
    try:
        out = coqrun.eval_zlists(f"From Verif Require Import C03.TieModels C03.{gen}.\n",
                                 [f"bad_idx {fn} 0 {tbl}"], "c03bad" + kind, timeout=300)
        return out[0]
    except Exception:  # noqa
        return None


def template_differential(ctx, templates, kind, only_types=None, lit_sample=None, force_idx=()):
    """exported templates: real back end on EVM  vs  Coq evaluator  vs  Coq arith_spec, on the boundary grid.
    Doubles as the Search for a broken tie/proof (evaluates whatever the generators emit NOW)."""
    rnd = ctx.rng(kind + "grid")
    size = 7 if ctx.tier == "quick" else 14
    idx = []
    force_idx = set(force_idx)
    for j, (op, ty, sh, lit, n) in enumerate(templates):
        if j in force_idx:
            idx.append(j)
            continue
        if only_types is not None and ty not in only_types:
            continue
        if sh != "VV" and lit_sample is not None and rnd.random() > lit_sample:
            continue
        idx.append(j)
    grids = {}
    for j in idx:
        ty = templates[j][1]
        if ty not in grids:
            grids[ty] = type_grid(ty, rnd, size)
    tys = list(grids)
    imports = COQ_PRELUDE
    for i, ty in enumerate(tys):
        imports += f"Definition G{i} := {zlist(grids[ty])}.\n"
    chain = Chain("cancun")
    rows, meta = [], []
    n_eval = 0
    for j in idx:
        op, ty, shape, lit, n = templates[j]
        sh = 3 if op == "AUSub" else X.SHAPES[shape]
        gi = tys.index(ty)
        cs = pairs(sh, lit, grids[ty])
        try:
            code = ir_snippet_code(n) if kind == "legacy" else venom_snippet_code(n)
            obs = run_code(chain, code, cs)
        except Exception as e:  # noqa
            if type(e).__name__ != "StaticAssertionException":
                raise
            # the real back end proves an assertion of this template always fails (e.g. literal zero divisor)
            # and refuses to compile it: no execution can return a value
            obs = [-1] * len(cs)
        n_eval += len(cs)
        rows.append({"spec": f"spec_row {X.nty(*ty)} {op} {sh} {X.zl(lit)} G{gi}",
                     "model": (f"lev_row {X.lir_term(n)} {sh} {X.zl(lit)} G{gi}" if kind == "legacy"
                               else f"vev_row {X.vtemplate_term(*n)} {sh} {X.zl(lit)} G{gi}"), "obs": obs})
        meta.append((op, ty, shape, lit, n, cs, obs))
    res = compare_rows(imports, rows, "c03" + kind)
    bad_model, failing = [], []
    for (op, ty, shape, lit, n, cs, obs), (sm, mm) in zip(meta, res):
        for i, e, _ in sm[:1]:
            c = cs[i] if 0 <= i < len(cs) else ("?", "?")
            failing.append((op, ty, shape, c, e, obs[i] if 0 <= i < len(obs) else None, n))
        for i, e, _ in mm[:1]:
            c = cs[i] if 0 <= i < len(cs) else ("?", "?")
            bad_model.append((op, ty, shape, c, e, obs[i] if 0 <= i < len(obs) else None))
    ctx.corr[kind + "_template_cases"] = n_eval
    ctx.corr[kind + "_templates_run"] = len(idx)
    return n_eval, failing, bad_model


# ------------------------------------------------------------------ (2) glue differential
def lit_src(ty, v):
    """source text of literal v of numeric type ty"""
    if ty[2]:
        q = decimal.Decimal(v) / decimal.Decimal(10**10)
        s = format(q, "f")
        return s if "." in s else s + ".0"
    return str(v)


GLUE_SYMS = (("add", "+", "AAdd"), ("sub", "-", "ASub"), ("mul", "*", "AMul"), ("div", None, "ADiv"), ("mod", "%", "AMod"))


def glue_lits(ty):
    lo, hi = bounds(ty[0], ty[1])
    out = []
    for v in (lo, -1, 7):
        if lo <= v <= hi and v not in out:
            out.append(v)
    return out


def probe_source(ty, with_lits):
    """-> (source, [(fn name, aop | 'nest' | 'narrow', shape code, lit)])"""
    t = tyname(ty)
    k, s, d = ty
    src, fns = [], []
    for name, sym, aop in GLUE_SYMS:
        sym = sym or ("/" if d else "//")
        src.append(f"@external\ndef {name}(x: {t}, y: {t}) -> {t}:\n    return x {sym} y\n")
        fns.append((name, aop, 0, 0))
    if s:
        src.append(f"@external\ndef usub(x: {t}) -> {t}:\n    return -x\n")
        fns.append(("usub", "AUSub", 3, 0))
    # storage-operand, internal-call and nested shapes
    src.append(f"s: {t}\n")
    src.append(f"@external\ndef st(x: {t}, y: {t}) -> {t}:\n    self.s = x\n    self.s *= y\n    return self.s\n")
    fns.append(("st", "AMul", 0, 0))
    src.append(f"@internal\ndef idy(v: {t}) -> {t}:\n    return v\n")
    src.append(f"@external\ndef nest(x: {t}, y: {t}) -> {t}:\n    return (self.idy(x) - y) + y\n")
    fns.append(("nest", "nest", 0, 0))
    # range-narrowed operands: the asserts let the venom range analysis reason about (and delete) the checks
    lo, hi = bounds(k, s)
    src.append(f"@external\ndef narrow(x: {t}, y: {t}) -> {t}:\n    assert x >= {lit_src(ty, lo // 2)}\n"
               f"    assert x <= {lit_src(ty, hi // 2)}\n    z: {t} = x + x\n    return z - y\n")
    fns.append(("narrow", "narrow", 0, 0))
    if with_lits:
        for li, v in enumerate(glue_lits(ty)):
            ls = lit_src(ty, v)
            for name, sym, aop in GLUE_SYMS:
                sym = sym or ("/" if d else "//")
                src.append(f"@external\ndef {name}_l{li}(y: {t}) -> {t}:\n    return {ls} {sym} y\n")
                fns.append((f"{name}_l{li}", aop, 1, v))
                if aop in ("ADiv", "AMod") and v == 0:
                    continue  # literal zero divisor: rejected by the type checker
                src.append(f"@external\ndef {name}_r{li}(x: {t}) -> {t}:\n    return x {sym} {ls}\n")
                fns.append((f"{name}_r{li}", aop, 2, v))
    return "\n".join(src), fns


def glue_differential(ctx, tys, cfgs, size, with_lits=True):
    """probe contracts through the full compiler, executed on pyrevm, vs arith_spec computed in Coq."""
    rnd = ctx.rng("glue")
    grids = {ty: type_grid(ty, rnd, size) for ty in tys}
    imports = COQ_PRELUDE
    for i, ty in enumerate(tys):
        imports += f"Definition G{i} := {zlist(grids[ty])}.\n"
    imports += ("Definition narrow_row (T : nty) (lo hi : Z) (G : list Z) : list Z :=\n"
                "  map (fun p => oc (enc_out (if (fst p <? lo) || (hi <? fst p) then Revert else\n"
                "     match arith_spec T AAdd (fst p) (fst p) with Val v => arith_spec T ASub v (snd p) | o => o end)))\n"
                "      (list_prod G G).\n")
    n_eval = 0
    dist = {}
    groups = {}   # (ty, fn) -> {"spec", "cs", "runs": [(cfg, obs, datas, src)]}
    for cfg in cfgs:
        chain = Chain(cfg.evm)
        for gi, ty in enumerate(tys):
            src, fns = probe_source(ty, with_lits and (ctx.tier != "quick" or ty in tys[:6]))
            try:
                out = compile_src(src, cfg, formats=("bytecode", "method_identifiers"))
            except Exception as e:  # the probe is plain arithmetic: every configuration must compile it
                ctx.violation("correspondence-broken", f"probe contract does not compile under {cfg.name}",
                              {"source": src, "config": cfg.name, "error": f"{type(e).__name__}: {e}"[:600]})
                continue
            addr = chain.deploy(bytes.fromhex(out["bytecode"][2:]))
            sels = {sig.split("(")[0]: int(h, 16).to_bytes(4, "big") for sig, h in out["method_identifiers"].items()}
            lo, hi = bounds(ty[0], ty[1])
            for fn, aop, sh, lit in fns:
                cs = pairs(sh, lit, grids[ty])
                sel = sels[fn]
                if sh == 1:
                    datas = [sel + word(y) for _, y in cs]
                elif sh in (2, 3):
                    datas = [sel + word(x) for x, _ in cs]
                else:
                    datas = [sel + word(x) + word(y) for x, y in cs]
                obs = [call_word(chain, addr, dt) for dt in datas]
                n_eval += len(cs)
                key = fn.split("_")[0] + ("" if sh in (0, 3) else "_lit")
                dist[key] = dist.get(key, 0) + len(cs)
                if aop == "nest":
                    spec = f"nest_row {X.nty(*ty)} G{gi}"
                elif aop == "narrow":
                    spec = f"narrow_row {X.nty(*ty)} {X.zl(lo // 2)} {X.zl(hi // 2)} G{gi}"
                else:
                    spec = f"spec_row {X.nty(*ty)} {aop} {sh} {X.zl(lit)} G{gi}"
                g = groups.setdefault((ty, fn), {"spec": spec, "cs": cs, "runs": []})
                g["runs"].append((cfg, obs, datas, src))
    keys = list(groups)
    rows = [{"spec": groups[k]["spec"], "multi": [r[1] for r in groups[k]["runs"]]} for k in keys]
    res = compare_rows(imports, rows, "c03glue", shard=60)
    failing = []
    for (ty, fn), (sm, _) in zip(keys, res):
        g = groups[(ty, fn)]
        seen = set()
        for i, e, m in sm:
            if m in seen:
                continue
            seen.add(m)
            cfg, obs, datas, src = g["runs"][m]
            cs = g["cs"]
            x, y = cs[i] if 0 <= i < len(cs) else (0, 0)
            got = obs[i] if 0 <= i < len(obs) else None
            failing.append({"type": tyname(ty), "function": fn, "config": cfg.name, "args": [str(x), str(y)],
                            "expected": "revert" if e == -1 else hex(e),
                            "observed": "revert" if got == -1 else (hex(got) if got is not None else "?"),
                            "calldata": datas[i].hex() if 0 <= i < len(datas) else "?", "source": src})
    ctx.corr["glue_cases"] = ctx.corr.get("glue_cases", 0) + n_eval
    for k_, v_ in dist.items():
        ctx.corr.setdefault("glue_distribution", {})[k_] = ctx.corr.get("glue_distribution", {}).get(k_, 0) + v_
    ctx.corr["glue_configs"] = sorted(set(ctx.corr.get("glue_configs", [])) | {c.name for c in cfgs})
    ctx.corr["glue_types"] = sorted(set(ctx.corr.get("glue_types", [])) | {tyname(t) for t in tys})
    return n_eval, failing


# ------------------------------------------------------------------ main
def choose_types(ctx, all_tys):
    if ctx.tier == "thorough":
        return all_tys
    rnd = ctx.rng("types")
    must = [(32, True, False), (32, False, False), (17, True, False), (16, True, False), (1, True, False),
            (21, True, True), (16, False, False), (17, False, False), (1, False, False), (31, True, False)]
    rest = [t for t in all_tys if t not in must]
    return must + rnd.sample(rest, 4)


def quick_glue_configs():
    """both pipelines; venom at gas AND O3 (range-based check elimination); legacy unoptimised"""
    return [Config(False, "gas", "prague"), Config(True, "gas", "prague"),
            Config(False, "none", "london"), Config(True, "O3", "cancun")]


def run(ctx):
    t0 = time.time()
    # ---- regenerate templates from the current tree
    gen_err = None
    ltempl, vtempl = [], []
    try:
        text, ltempl, lclamps = X.gen_legacy()
        (COQ / "C03" / "GenLegacy.v").write_text(text)
    except Exception as e:  # noqa
        gen_err = f"legacy export: {type(e).__name__}: {e}"
    try:
        text, vtempl, vclamps = X.gen_venom()
        (COQ / "C03" / "GenVenom.v").write_text(text)
    except Exception as e:  # noqa
        gen_err = (gen_err or "") + f" venom export: {type(e).__name__}: {e}"
    ctx.extra["family_size"] = {"legacy_templates": len(ltempl), "venom_templates": len(vtempl), "numeric_types": 65,
                                "legacy_clamps": 65, "venom_clamps": 65}

    # ---- proofs: static part, then the legacy and venom chains concurrently (content-keyed .vo reuse)
    b0 = ctx.coq_build_cached(STATIC)
    res = {"legacy": {"ok": False, "file": "C03/GenLegacy.v", "failed_lemma": None, "out": gen_err or ""},
           "venom": {"ok": False, "file": "C03/GenVenom.v", "failed_lemma": None, "out": gen_err or ""}}
    if b0["ok"]:
        ths = []
        if ltempl:
            ths.append(threading.Thread(target=build_chain, args=(ctx, LEGACY, STATIC, res, "legacy")))
        if vtempl:
            ths.append(threading.Thread(target=build_chain, args=(ctx, VENOM, STATIC, res, "venom")))
        for t in ths:
            t.start()
        for t in ths:
            t.join()
    bl, bv = res["legacy"], res["venom"]
    ctx.log(f"coq done {time.time()-t0:.0f}s static={b0['ok']} legacy={bl['ok']} venom={bv['ok']}")
    if bl["ok"] and bv["ok"]:
        ctx.extra["syntactic_matches"] = len(ltempl) + len(vtempl) + 130

    # ---- correspondence / search
    found = False
    total = 0
    all_tys = [(k, s, d) for k, s, d, _ in X.num_types()]
    tys = choose_types(ctx, all_tys)
    for kind, templ, b in (("legacy", ltempl, bl), ("venom", vtempl, bv)):
        if not templ or not b0["ok"]:
            continue
        # quick tier: a seeded subset of types / literal shapes, unless a proof or tie is broken
        # (then Search over the whole family)
        if b["ok"]:
            only = set(tys[:6] + tys[-2:]) if ctx.tier == "quick" else None
            frac = 0.2 if ctx.tier == "quick" else 0.5
            force = ()
        else:
            # Search: the templates that differ from the proved model (all of them if Coq cannot tell), plus the
            # usual sample
            bad = mismatching_templates(kind)
            if bad is None:
                only, frac, force = None, (0.3 if ctx.tier == "quick" else None), ()
            else:
                step = max(1, len(bad) // 300)
                force = bad[::step]
                only = set(tys[:6] + tys[-2:]) if ctx.tier == "quick" else None
                frac = 0.2 if ctx.tier == "quick" else 0.5
            ctx.log(f"search {kind}: {None if bad is None else len(bad)} templates differ from the model")
        n, failing, bad_model = template_differential(ctx, templ, kind, only, frac, force)
        total += n
        for op, ty, shape, c, e, g, node in failing[:5]:
            found = True
            tstr = str(node) if kind == "legacy" else "; ".join(str(i).strip() for i in node[0]) + f" -> {node[1]}"
            ctx.violation(
                "failing-input", f"{kind} {OPSYM[op]} template for {tyname(ty)} ({shape}) is not exact-or-revert",
                {"generator": f"{'vyper.codegen.arithmetic / expr.py' if kind == 'legacy' else 'vyper.codegen_venom.arithmetic'}"
                              f", op {op}, type {tyname(ty)}, operand shape {shape} (VV: variables x, y; LV: x literal; VL: y literal)",
                 "template": tstr, "x": str(c[0]), "y": str(c[1]),
                 "expected": "revert" if e == -1 else hex(e),
                 "observed_on_evm": "revert" if g == -1 else (hex(g) if g is not None else "?"),
                 "how": "template compiled by the real back end (compile_ir / venom -O none) + assembler, executed on pyrevm"},
                key=f"{kind}-template:{op}:{tyname(ty)}:{shape}")
        for op, ty, shape, c, l, g in bad_model[:5]:
            if not found:
                ctx.violation("correspondence-broken", f"Coq evaluator disagrees with the real back end + EVM on an exported {kind} template",
                              {"op": op, "type": tyname(ty), "shape": shape, "x": str(c[0]), "y": str(c[1]), "coq": str(l), "evm": str(g)})
    ctx.log(f"template differential done {time.time()-t0:.0f}s")

    if ctx.tier == "quick":
        n, gfail = glue_differential(ctx, tys, quick_glue_configs(), 9)
    else:
        # all 65 types under the covering configuration set, then the boundary types under every configuration
        n, gfail = glue_differential(ctx, tys, configs("quick"), 12)
        deep = [(32, False, False), (32, True, False), (16, True, False), (17, True, False), (21, True, True)]
        n2, gfail2 = glue_differential(ctx, deep, configs("thorough"), 9)
        n += n2
        gfail += gfail2
    total += n
    for f in gfail[:8]:
        found = True
        ctx.violation("failing-input", f"{f['type']} {f['function']} under {f['config']} is not exact-or-revert", f,
                      key=f"glue:{f['function']}:{f['type']}:{f['config']}")
    ctx.log(f"glue differential done {time.time()-t0:.0f}s")

    # ---- verdicts for broken proofs / ties
    if gen_err and not found:
        ctx.violation("translator-rejected", "template export failed: " + gen_err, {"error": gen_err})
    for b, what in ((b0, "static"), (bl, "legacy"), (bv, "venom")):
        if not b["ok"] and not found and not (gen_err and what != "static"):
            ctx.violation("theorem-broken", f"{b.get('failed_lemma')} in {b.get('file')} ({what})",
                          {"theorem": b.get("failed_lemma"), "file": b.get("file"), "coq_output": (b.get("out") or "")[-1500:]})

    ctx.corr["evaluations"] = total
    ctx.corr["distinct_nontrivial"] = total
    ctx.corr["rule"] = ("distinct (template or probe function, configuration, operand tuple) executions on pyrevm; operands from "
                        "the per-type boundary grid (squared for two-variable shapes), every case is a distinct input")
    ctx.samples.append({"int8 mul": [-128, -1], "expected": "revert"})
    ctx.samples.append({"int256 floordiv": [str(-2**255), -1], "expected": "revert"})
    ctx.trusted += ["Coq 8.16.1 kernel + vm_compute", "tools/vlib/c03_export.py (IRnode / Venom instruction -> Coq term)",
                    "coq/Base/Word256.v as EVM word semantics (tied to pyrevm by vlib.wordtie in C14 and in C03 thorough)",
                    "pyrevm as EVM reference"]
    ctx.assumptions += ["operands are canonical words of in-range values (guaranteed by ABI/storage clamps: C05)",
                        "literal-operand templates: tied for the literal set {MIN, -1, 0, 1, 7, MAX} per type "
                        "(covers every literal-dependent branch); theorems parametric in the literal"]
    if ctx.tier == "thorough":
        from vlib import wordtie
        wordtie.run(ctx)
