"""C03: arithmetic and conversion are exact or revert.

O-tie: the real code generators (both front ends) are run on symbolic / literal operands for the whole numeric
type family, their output exported as Coq terms, and tied by kernel-checked syntactic equality to parametric
template models whose exactness w.r.t. the mathematical spec is proved for all operand values.
H-ties: (1) exported templates are compiled by the real back ends (compile_ir / venom) + assembler and executed
on pyrevm against the Coq evaluators and the Coq spec (compared inside Coq); (2) glue differential: probe
contracts (one operation per external function) through the full compiler under several configurations vs the
Coq spec."""
import decimal
import os
import sys
import threading
import time
from pathlib import Path

from vlib import c03_bx as BX
from vlib import c03_export as X
from vlib import coqrun
from vlib.c03_lib import (bounds, call_word, compare_rows, ir_snippet_code, run_code, type_grid, tyname,
                          venom_snippet_code, word)
from vlib.common import COQ
from vlib.configs import Config, configs
from vlib.configs import compile_src
from vlib.evm import Chain

LEVEL = "proof"
META = {
    "category": "proof",
    "text": "Every template that the legacy and Venom code generators emit for checked arithmetic (+ - * / // % ** unary "
            "minus; operands in variables or literal on either side, incl. the literal-dependent special cases), for "
            "convert() between all word-sized types (8618 allowed pairs; flags with every member count 1..256), for "
            "convert() from Bytes[N]/String[N] (N = 1..32, every length and every content of the padding), for the range "
            "clamps of all word types, for the unchecked operations (unsafe_*, pow_mod256, shifts, bit ops) and for the "
            "builtins shift(), abs(), ~, uint256_addmod/mulmod (variable and literal operands), as_wei_value() (all 65 numeric "
            "types x all 17 unit names: exactly value*denom, decimals floor(d*denom/10**10), when value >= 0 and the result is "
            "< 2**256, revert otherwise), floor(), ceil(), min()/max() (all numeric types) is proved in Coq, for all "
            "operand values, to return the exact mathematical result when representable and to revert otherwise "
            "(unchecked ops: to wrap exactly modulo 2**bits). convert() of literal sources is tied to the same "
            "specification on a boundary family of literals typed by the real front end. The templates are re-exported from /repo on every run by calling the real "
            "generators, and tied to the proved parametric models by kernel-checked syntactic equality over the complete "
            "finite families. The rest of the pipeline (ABI decode, optimiser passes, back ends) is covered by "
            "differentials of probe contracts against the Coq spec under several configurations.",
    "level_note": "Trusted: Coq kernel + vm_compute; the exporter tools/vlib/c03_export.py (IRnode/Venom instruction -> "
                  "Coq term; validated per run by executing exported templates through the real back ends on pyrevm "
                  "against the Coq evaluators); Word256.v (EVM word semantics, tied to pyrevm by vlib.wordtie). "
                  "Literal-operand templates are tied for a finite literal set covering every literal-dependent branch "
                  "(theorems parametric in the literal); pow bounds are re-checked by the kernel for the exported literals "
                  "and rely on C20's largest_power/base theorems otherwise. Bytestring sources are modelled as a pointer "
                  "into an abstract read-only memory (mload); literal-source conversions are a finite family (quick: a "
                  "seeded sample). The optimiser passes that rewrite/delete checks are covered by the glue differential only. "
                  "as_wei_value/floor/ceil/min/max: operand in a variable (non-literal; literal arguments are folded: C17); the unit "
                  "table (name -> denomination) is part of the specification (BxModel.v wei_units). math.isqrt / math.sqrt "
                  "(stdlib Vyper source) and epsilon(): differential only, no theorem.",
    "technique": "Coq proof over exported code-generator templates (O-tie) + differential correspondence",
}

# static part (independent of /repo): models, word lemmas, the parametric exactness theorems
STATIC = ["C03/LIR.v", "C03/VSL.v", "C03/ArithSpec.v", "C03/WordArith.v", "C03/TypeLemmas.v", "C03/ArithModel.v",
          "C03/TieBase.v", "C03/VSubst.v", "C03/TieModels.v", "C03/LegacyExact.v", "C03/VenomExact.v",
          "C03/ConvSpec.v", "C03/ConvModel.v", "C03/ConvExact.v", "C03/VConvExact.v", "C03/ConvTie.v",
          "C03/PowExact.v", "C03/PowTie.v", "C03/UnsafeExact.v", "C03/UnsafeTie.v", "C03/ClampExact.v", "C03/ClampTie.v",
          "C03/LIRMem.v", "C03/VSLMem.v", "C03/BytesConv.v", "C03/BytesConvTie.v", "C03/BuiltinExact.v", "C03/BuiltinTie.v", "C03/LitConvTie.v"]
# regenerated templates + the ties + the property theorems about the REAL templates
LEGACY = ["C03/GenLegacy.v", "C03/TieLegacy.v", "C03/PropsLegacy.v"]
VENOM = ["C03/GenVenom.v", "C03/TieVenom.v", "C03/PropsVenom.v"]
CONVL = ["C03/GenConvLegacy.v", "C03/TieConvLegacy.v", "C03/PropsConvLegacy.v"]
CONVV = ["C03/GenConvVenom.v", "C03/TieConvVenom.v", "C03/PropsConvVenom.v"]
POWL = ["C03/GenPowLegacy.v", "C03/TiePowLegacy.v", "C03/PropsPowLegacy.v"]
POWV = ["C03/GenPowVenom.v", "C03/TiePowVenom.v", "C03/PropsPowVenom.v"]
UNSL = ["C03/GenUnsafeLegacy.v", "C03/TieUnsafeLegacy.v", "C03/PropsUnsafeLegacy.v"]
UNSV = ["C03/GenUnsafeVenom.v", "C03/TieUnsafeVenom.v", "C03/PropsUnsafeVenom.v"]
CLAMP = ["C03/GenClamp.v", "C03/TieClamp.v", "C03/PropsClamp.v"]
BCONV = ["C03/GenBytesConv.v", "C03/TieBytesConv.v", "C03/PropsBytesConv.v"]
BLT = ["C03/GenBuiltins.v", "C03/TieBuiltins.v", "C03/PropsBuiltins.v"]
LITC = ["C03/GenLitConv.v", "C03/TieLitConv.v", "C03/PropsLitConv.v"]

OPSYM = {"AAdd": "+", "ASub": "-", "AMul": "*", "ADiv": "//", "AMod": "%", "AUSub": "-"}


def zlist(xs):
    return coqrun.zlist(xs)


COQ_PRELUDE = """From Verif Require Import Base.Word256 C03.LIR C03.VSL C03.ArithSpec.
Definition oc (o : outcome) : Z := match o with Val v => v | Revert => -1 | Stuck => -2 | Unit => -3 end.
(* operand pairs for a shape: 0 = grid x grid, 1 = x fixed to lit, 2 = y fixed to lit, 3 = unary *)
Definition prs (sh lit : Z) (G : list Z) : list (Z * Z) :=
  if sh =? 1 then map (fun y => (lit, y)) G else if sh =? 2 then map (fun x => (x, lit)) G
  else if sh =? 3 then map (fun x => (x, 0)) G else list_prod G G.
Definition spec_row (T : nty) (op : aop) (sh lit : Z) (G : list Z) : list Z :=
  map (fun p => oc (enc_out (arith_spec T op (fst p) (snd p)))) (prs sh lit G).
Definition lev_row (t : lir) (sh lit : Z) (G : list Z) : list Z :=
  map (fun p => oc (leval (env2 (fst p) (snd p)) t)) (prs sh lit G).
Definition vev_row (t : vtemplate) (sh lit : Z) (G : list Z) : list Z :=
  map (fun p => oc (vrun [("%2"%string, enc (snd p)); ("%1"%string, enc (fst p))] t)) (prs sh lit G).
(* x ** y without ever computing an astronomically large power: |x| >= 2^L with L = log2 |x|, so |x^y| >= 2^(L*y);
   if L*y >= 257 the power is not representable in any type *)
Definition pow_safe (T : nty) (x y : Z) : outcome :=
  if y <? 0 then Revert
  else if Z.abs x <=? 1
       then chk T (if x =? 0 then (if y =? 0 then 1 else 0) else if x =? 1 then 1 else if Z.even y then 1 else -1)
       else if 257 <=? Z.log2 (Z.abs x) * y then Revert else chk T (x ^ y).
Definition pspec_row (T : nty) (sh lit : Z) (G : list Z) : list Z :=
  map (fun p => oc (enc_out (pow_safe T (fst p) (snd p)))) (prs sh lit G).
Definition nest_row (T : nty) (G : list Z) : list Z :=
  map (fun p => oc (enc_out (match arith_spec T ASub (fst p) (snd p) with
     | Val v => arith_spec T AAdd v (snd p) | o => o end))) (list_prod G G).
"""


def pairs(sh, lit, g):
    if sh == 1:
        return [(lit, y) for y in g]
    if sh == 2:
        return [(x, lit) for x in g]
    if sh == 3:
        return [(x, 0) for x in g]
    return [(x, y) for x in g for y in g]


# ------------------------------------------------------------------ Coq builds (two independent chains)
def build_chain(ctx, files, deps, res, key):
    """Content-keyed cached build (Ctx.coq_build_cached) of one Gen/Tie/Props chain; the chains are independent and
    run concurrently."""
    res[key] = ctx.coq_build_cached(files, deps=deps)


# ------------------------------------------------------------------ (1) template differential / Search
def mismatching_templates(kind):
    """Ask Coq which exported templates differ from the parametric model (needs Gen*.vo + static TieModels.vo).
    Returns a list of indices, or None if the question cannot be asked."""
    gen, fn, tbl = ("GenLegacy", "tie_one", "legacy_templates") if kind == "legacy" else ("GenVenom", "vtie_one", "venom_templates")
    try:
        out = coqrun.eval_zlists(f"From Verif Require Import C03.TieModels C03.{gen}.\n",
                                 [f"bad_idx {fn} 0 {tbl}"], "c03bad" + kind, timeout=300)
        return out[0]
    except Exception:  # noqa
        return None


def template_differential(ctx, templates, kind, only_types=None, lit_sample=None, force_idx=()):
    """exported templates: real back end on EVM  vs  Coq evaluator  vs  Coq arith_spec, on the boundary grid.
    Doubles as the Search for a broken tie/proof (evaluates whatever the generators emit NOW)."""
    rnd = ctx.rng(kind + "grid")
    size = 7 if ctx.tier == "quick" else 14
    idx = []
    force_idx = set(force_idx)
    for j, (op, ty, sh, lit, n) in enumerate(templates):
        if j in force_idx:
            idx.append(j)
            continue
        if only_types is not None and ty not in only_types:
            continue
        if sh != "VV" and lit_sample is not None and rnd.random() > lit_sample:
            continue
        idx.append(j)
    grids = {}
    for j in idx:
        ty = templates[j][1]
        if ty not in grids:
            grids[ty] = type_grid(ty, rnd, size)
    tys = list(grids)
    imports = COQ_PRELUDE
    for i, ty in enumerate(tys):
        imports += f"Definition G{i} := {zlist(grids[ty])}.\n"
    chain = Chain("cancun")
    rows, meta = [], []
    n_eval = 0
    for j in idx:
        op, ty, shape, lit, n = templates[j]
        sh = 3 if op == "AUSub" else X.SHAPES[shape]
        gi = tys.index(ty)
        cs = pairs(sh, lit, grids[ty])
        try:
            code = ir_snippet_code(n) if kind == "legacy" else venom_snippet_code(n)
            obs = run_code(chain, code, cs)
        except Exception as e:  # noqa
            if type(e).__name__ != "StaticAssertionException":
                raise
            # the real back end proves an assertion of this template always fails (e.g. literal zero divisor)
            # and refuses to compile it: no execution can return a value
            obs = [-1] * len(cs)
        n_eval += len(cs)
        rows.append({"spec": f"spec_row {X.nty(*ty)} {op} {sh} {X.zl(lit)} G{gi}",
                     "model": (f"lev_row {X.lir_term(n)} {sh} {X.zl(lit)} G{gi}" if kind == "legacy"
                               else f"vev_row {X.vtemplate_term(*n)} {sh} {X.zl(lit)} G{gi}"), "obs": obs})
        meta.append((op, ty, shape, lit, n, cs, obs))
    res = compare_rows(imports, rows, "c03" + kind)
    bad_model, failing = [], []
    for (op, ty, shape, lit, n, cs, obs), (sm, mm) in zip(meta, res):
        for i, e, _ in sm[:1]:
            c = cs[i] if 0 <= i < len(cs) else ("?", "?")
            failing.append((op, ty, shape, c, e, obs[i] if 0 <= i < len(obs) else None, n))
        for i, e, _ in mm[:1]:
            c = cs[i] if 0 <= i < len(cs) else ("?", "?")
            bad_model.append((op, ty, shape, c, e, obs[i] if 0 <= i < len(obs) else None))
    ctx.corr[kind + "_template_cases"] = n_eval
    ctx.corr[kind + "_templates_run"] = len(idx)
    return n_eval, failing, bad_model


# ------------------------------------------------------------------ (2) glue differential
def lit_src(ty, v):
    """source text of literal v of numeric type ty"""
    if ty[2]:
        q = decimal.Decimal(v) / decimal.Decimal(10**10)
        s = format(q, "f")
        return s if "." in s else s + ".0"
    return str(v)


GLUE_SYMS = (("add", "+", "AAdd"), ("sub", "-", "ASub"), ("mul", "*", "AMul"), ("div", None, "ADiv"), ("mod", "%", "AMod"))


def glue_lits(ty):
    lo, hi = bounds(ty[0], ty[1])
    out = []
    for v in (lo, -1, 7):
        if lo <= v <= hi and v not in out:
            out.append(v)
    return out


def probe_source(ty, with_lits):
    """-> (source, [(fn name, aop | 'nest' | 'narrow', shape code, lit)])"""
    t = tyname(ty)
    k, s, d = ty
    src, fns = [], []
    for name, sym, aop in GLUE_SYMS:
        sym = sym or ("/" if d else "//")
        src.append(f"@external\ndef {name}(x: {t}, y: {t}) -> {t}:\n    return x {sym} y\n")
        fns.append((name, aop, 0, 0))
    if s:
        src.append(f"@external\ndef usub(x: {t}) -> {t}:\n    return -x\n")
        fns.append(("usub", "AUSub", 3, 0))
    # storage-operand, internal-call and nested shapes
    src.append(f"s: {t}\n")
    src.append(f"@external\ndef st(x: {t}, y: {t}) -> {t}:\n    self.s = x\n    self.s *= y\n    return self.s\n")
    fns.append(("st", "AMul", 0, 0))
    src.append(f"@internal\ndef idy(v: {t}) -> {t}:\n    return v\n")
    src.append(f"@external\ndef nest(x: {t}, y: {t}) -> {t}:\n    return (self.idy(x) - y) + y\n")
    fns.append(("nest", "nest", 0, 0))
    # range-narrowed operands: the asserts let the venom range analysis reason about (and delete) the checks
    lo, hi = bounds(k, s)
    src.append(f"@external\ndef narrow(x: {t}, y: {t}) -> {t}:\n    assert x >= {lit_src(ty, lo // 2)}\n"
               f"    assert x <= {lit_src(ty, hi // 2)}\n    z: {t} = x + x\n    return z - y\n")
    fns.append(("narrow", "narrow", 0, 0))
    # two-sided branch guards, then checked arithmetic that overflows exactly at the guard boundary: the venom range
    # analysis may only drop the clamp if its edge refinement is exact
    ga, gb = lo + (hi - lo) // 25 + 3, hi - (hi - lo) // 3 - 5
    src.append(f"@external\ndef guard(x: {t}, y: {t}) -> {t}:\n    if x < {lit_src(ty, ga)}:\n        return y\n"
               f"    if x > {lit_src(ty, gb)}:\n        return y\n    return x + {lit_src(ty, hi - gb + 1)}\n")
    fns.append(("guard", "guard", 0, (ga, gb, hi - gb + 1)))
    src.append(f"@external\ndef guards(x: {t}, y: {t}) -> {t}:\n    if x < {lit_src(ty, ga)}:\n        return y\n"
               f"    if x > {lit_src(ty, gb)}:\n        return y\n    return x - {lit_src(ty, ga - lo + 1)}\n")
    fns.append(("guards", "guards", 0, (ga, gb, ga - lo + 1)))
    # the same guards written with the literal on the left (`A > x`, `B < x`), then a checked add
    src.append(f"@external\ndef guardr(x: {t}, y: {t}) -> {t}:\n    if {lit_src(ty, ga)} > x:\n        return y\n"
               f"    if {lit_src(ty, gb)} < x:\n        return y\n    return {lit_src(ty, hi - gb + 1)} + x\n")
    fns.append(("guardr", "guard", 0, (ga, gb, hi - gb + 1)))
    if not d:
        # non-strict guards (`<=`, `>=`) then a checked doubling that overflows exactly above the guard boundary
        gm = hi // 2 + 1
        src.append(f"@external\ndef guardm(x: {t}, y: {t}) -> {t}:\n    if x <= {lit_src(ty, ga - 1)}:\n        return y\n"
                   f"    if x >= {lit_src(ty, gm + 1)}:\n        return y\n    return x * 2\n")
        fns.append(("guardm", "guardm", 0, (ga, gm, 2)))
    if with_lits:
        for li, v in enumerate(glue_lits(ty)):
            ls = lit_src(ty, v)
            for name, sym, aop in GLUE_SYMS:
                sym = sym or ("/" if d else "//")
                src.append(f"@external\ndef {name}_l{li}(y: {t}) -> {t}:\n    return {ls} {sym} y\n")
                fns.append((f"{name}_l{li}", aop, 1, v))
                if aop in ("ADiv", "AMod") and v == 0:
                    continue  # literal zero divisor: rejected by the type checker
                src.append(f"@external\ndef {name}_r{li}(x: {t}) -> {t}:\n    return x {sym} {ls}\n")
                fns.append((f"{name}_r{li}", aop, 2, v))
        if not d:
            lo, hi = bounds(k, s)
            pb = [a for a in (2, 3, 10, 16, -2, -3, 2**(4 * k)) if lo <= a <= hi]
            for bi, a in enumerate(pb):
                src.append(f"@external\ndef powb_{bi}(y: {t}) -> {t}:\n    return {'(' + str(a) + ')' if a < 0 else a} ** y\n")
                fns.append((f"powb_{bi}", "APow", 1, a))
            vbits = 8 * k - (1 if s else 0)
            for ei, e in enumerate([e for e in (2, 3, 7, vbits) if e <= hi and e <= vbits]):
                src.append(f"@external\ndef powe_{ei}(x: {t}) -> {t}:\n    return x ** {e}\n")
                fns.append((f"powe_{ei}", "APow", 2, e))
    return "\n".join(src), fns


def glue_differential(ctx, tys, cfgs, size, with_lits=True, tag=""):
    """probe contracts through the full compiler, executed on pyrevm, vs arith_spec computed in Coq."""
    rnd = ctx.rng("glue" + tag)
    grids = {ty: type_grid(ty, rnd, size) for ty in tys}
    imports = COQ_PRELUDE
    for i, ty in enumerate(tys):
        imports += f"Definition G{i} := {zlist(grids[ty])}.\n"
    imports += ("Definition guard_row (T : nty) (op : aop) (A B C : Z) (P : list (Z * Z)) : list Z :=\n"
                "  map (fun p => oc (enc_out (if (fst p <? A) || (B <? fst p) then Val (snd p) else arith_spec T op (fst p) C))) P.\n")
    imports += ("Definition narrow_row (T : nty) (lo hi : Z) (G : list Z) : list Z :=\n"
                "  map (fun p => oc (enc_out (if (fst p <? lo) || (hi <? fst p) then Revert else\n"
                "     match arith_spec T AAdd (fst p) (fst p) with Val v => arith_spec T ASub v (snd p) | o => o end)))\n"
                "      (list_prod G G).\n")
    n_eval = 0
    dist = {}
    groups = {}   # (ty, fn) -> {"spec", "cs", "runs": [(cfg, obs, datas, src)]}
    for cfg in cfgs:
        chain = Chain(cfg.evm)
        for gi, ty in enumerate(tys):
            src, fns = probe_source(ty, with_lits and (ctx.tier != "quick" or ty in tys[:6]))
            try:
                out = compile_src(src, cfg, formats=("bytecode", "method_identifiers"))
            except Exception as e:  # the probe is plain arithmetic: every configuration must compile it
                ctx.violation("correspondence-broken", f"probe contract does not compile under {cfg.name}",
                              {"source": src, "config": cfg.name, "error": f"{type(e).__name__}: {e}"[:600]})
                continue
            addr = chain.deploy(bytes.fromhex(out["bytecode"][2:]))
            sels = {sig.split("(")[0]: int(h, 16).to_bytes(4, "big") for sig, h in out["method_identifiers"].items()}
            lo, hi = bounds(ty[0], ty[1])
            for fn, aop, sh, lit in fns:
                if aop in ("guard", "guards", "guardm"):
                    ga, gb, gc = lit
                    xs = sorted({v for v in (ga - 1, ga, ga + 1, gb - 1, gb, gb + 1, lo, hi, (ga + gb) // 2) if lo <= v <= hi})
                    cs = [(x, 1) for x in xs]
                else:
                    cs = pairs(sh, lit, grids[ty])
                sel = sels[fn]
                if sh == 1:
                    datas = [sel + word(y) for _, y in cs]
                elif sh in (2, 3):
                    datas = [sel + word(x) for x, _ in cs]
                else:
                    datas = [sel + word(x) + word(y) for x, y in cs]
                obs = [call_word(chain, addr, dt) for dt in datas]
                n_eval += len(cs)
                key = fn.split("_")[0] + ("" if sh in (0, 3) else "_lit")
                dist[key] = dist.get(key, 0) + len(cs)
                if aop == "nest":
                    spec = f"nest_row {X.nty(*ty)} G{gi}"
                elif aop == "narrow":
                    spec = f"narrow_row {X.nty(*ty)} {X.zl(lo // 2)} {X.zl(hi // 2)} G{gi}"
                elif aop == "APow":
                    spec = f"pspec_row {X.nty(*ty)} {sh} {X.zl(lit)} G{gi}"
                elif aop in ("guard", "guards", "guardm"):
                    pl = "[" + "; ".join(f"({X.zl(x)}, {X.zl(y)})" for x, y in cs) + "]"
                    gop = {"guard": "AAdd", "guards": "ASub", "guardm": "AMul"}[aop]
                    spec = (f"guard_row {X.nty(*ty)} {gop} {X.zl(lit[0])} {X.zl(lit[1])} "
                            f"{X.zl(lit[2])} {pl}")
                else:
                    spec = f"spec_row {X.nty(*ty)} {aop} {sh} {X.zl(lit)} G{gi}"
                g = groups.setdefault((ty, fn), {"spec": spec, "cs": cs, "runs": []})
                g["runs"].append((cfg, obs, datas, src))
    keys = list(groups)
    rows = [{"spec": groups[k]["spec"], "multi": [r[1] for r in groups[k]["runs"]]} for k in keys]
    res = compare_rows(imports, rows, "c03glue" + tag, shard=60)
    failing = []
    for (ty, fn), (sm, _) in zip(keys, res):
        g = groups[(ty, fn)]
        seen = set()
        for i, e, m in sm:
            if m in seen:
                continue
            seen.add(m)
            cfg, obs, datas, src = g["runs"][m]
            cs = g["cs"]
            x, y = cs[i] if 0 <= i < len(cs) else (0, 0)
            got = obs[i] if 0 <= i < len(obs) else None
            failing.append({"type": tyname(ty), "function": fn, "config": cfg.name, "args": [str(x), str(y)],
                            "expected": "revert" if e == -1 else hex(e),
                            "observed": "revert" if got == -1 else (hex(got) if got is not None else "?"),
                            "calldata": datas[i].hex() if 0 <= i < len(datas) else "?", "source": src})
    ctx.corr["glue_cases"] = ctx.corr.get("glue_cases", 0) + n_eval
    for k_, v_ in dist.items():
        ctx.corr.setdefault("glue_distribution", {})[k_] = ctx.corr.get("glue_distribution", {}).get(k_, 0) + v_
    ctx.corr["glue_configs"] = sorted(set(ctx.corr.get("glue_configs", [])) | {c.name for c in cfgs})
    ctx.corr["glue_types"] = sorted(set(ctx.corr.get("glue_types", [])) | {tyname(t) for t in tys})
    return n_eval, failing


# ------------------------------------------------------------------ (3) conversions
CONV_PRELUDE = COQ_PRELUDE + """From Verif Require Import C03.ConvSpec.
Definition cspec_row (a b : cty) (G : list Z) : list Z := map (fun v => oc (c_enc_out b (conv_spec a b v))) G.
Definition clev_row (a : cty) (t : lir) (G : list Z) : list Z :=
  map (fun v => oc (leval [("x"%string, c_enc a v)] t)) G.
Definition cvev_row (a : cty) (t : vtemplate) (G : list Z) : list Z :=
  map (fun v => oc (vrun [("%1"%string, c_enc a v)] t)) G.
"""


def c_grid(key, rnd, size=None):
    """boundary values of a word type; key as in c03_export.conv_types"""
    if key[0] == "num":
        return type_grid(key[1:], rnd, size)
    if key[0] == "bool":
        return [0, 1]
    if key[0] == "addr":
        return [0, 1, 2**159, 2**160 - 1, rnd.randrange(2**160)]
    if key[0] == "bytes":
        b = 8 * key[1]
        vals = {0, 1, 2**b - 1, 2**(b - 1), 2**(b - 1) - 1, 2**(b - 1) + 1, 0x80, 0x7F, 0xFF, rnd.randrange(2**b)}
        if key[1] >= 2:
            vals |= {1 << 8, 1 << (b - 8), (2**b - 1) ^ 0xFF, 0xFF << (b - 8), 0x100 - 1}
        if key[1] >= 21:
            vals |= {1 << 160, (1 << 160) - 1, 1 << 167, (1 << 168) - 1}
        return sorted(v for v in vals if 0 <= v < 2**b)
    if key[0] == "flag":
        n = key[1]
        return sorted({0, 1, 2**n - 1, 2**(n - 1), rnd.randrange(2**n)})
    raise ValueError(key)


def c_enc(key, v):
    if key[0] == "bytes":
        return v << (8 * (32 - key[1]))
    return v % (2**256)


def c_src_name(key):
    return {"num": lambda: tyname(key[1:]), "bool": lambda: "bool", "addr": lambda: "address",
            "bytes": lambda: f"bytes{key[1]}", "flag": lambda: f"F{key[1]}"}[key[0]]()


def convert_differential(ctx, templates, kind, sample=None, force_idx=(), tag=""):
    """exported convert templates: real back end on EVM vs Coq evaluator vs conv_spec."""
    rnd = ctx.rng(kind + "conv" + tag)
    force_idx = set(force_idx)
    idx = [j for j in range(len(templates)) if j in force_idx or sample is None or rnd.random() < sample]
    grids, gnames = {}, {}
    imports = CONV_PRELUDE
    def gkey(j):
        ki, ko = templates[j][2], templates[j][3]
        return (ki, ko[1]) if ko[0] == "flag" and ki[0] != "flag" else ki
    for j in idx:
        ki, gk = templates[j][2], gkey(j)
        if gk not in grids:
            grids[gk] = c_grid(ki, rnd, 9)
            if gk != ki:    # target is a flag with n members: the boundary of its range check
                lo, hi = (0, 1) if ki[0] == "bool" else bounds(ki[1], ki[2]) if ki[0] == "num" else (0, 2**256 - 1)
                grids[gk] = sorted(set(grids[gk]) | {v for v in (2**gk[1] - 1, 2**gk[1], 2**gk[1] + 1) if lo <= v <= hi})
            gnames[gk] = f"CG{len(gnames)}"
            imports += f"Definition {gnames[gk]} := {zlist(grids[gk])}.\n"
    chain = Chain("cancun")
    rows, meta = [], []
    n_eval = 0
    for j in idx:
        ci, co, ki, ko, n = templates[j]
        g = grids[gkey(j)]
        cs = [(c_enc(ki, v), 0) for v in g]
        code = ir_snippet_code(n) if kind == "legacy" else venom_snippet_code(n)
        obs = run_code(chain, code, cs)
        n_eval += len(cs)
        gn = gnames[gkey(j)]
        rows.append({"spec": f"cspec_row {ci} {co} {gn}",
                     "model": (f"clev_row {ci} {X.lir_term(n)} {gn}" if kind == "legacy"
                               else f"cvev_row {ci} {X.vtemplate_term(*n)} {gn}"), "obs": obs})
        meta.append((ki, ko, n, g, obs))
    res = compare_rows(imports, rows, "c03conv" + kind + tag, shard=150)
    failing, bad_model = [], []
    for (ki, ko, n, g, obs), (sm, mm) in zip(meta, res):
        for i, e, _ in sm[:1]:
            failing.append((ki, ko, g[i] if 0 <= i < len(g) else "?", e, obs[i] if 0 <= i < len(obs) else None, n))
        for i, e, _ in mm[:1]:
            bad_model.append((ki, ko, g[i] if 0 <= i < len(g) else "?", e, obs[i] if 0 <= i < len(obs) else None))
    ctx.corr[kind + tag + "_convert_cases"] = n_eval
    ctx.corr[kind + tag + "_convert_templates_run"] = len(idx)
    return n_eval, failing, bad_model


def mismatching_converts(kind):
    gen, fn, tbl = ("GenConvLegacy", "ctie_one", "legacy_converts") if kind == "legacy" else \
        ("GenConvVenom", "vctie_one", "venom_converts")
    try:
        out = coqrun.eval_zlists(f"From Verif Require Import C03.TieModels C03.ConvTie C03.{gen}.\n",
                                 [f"bad_idx {fn} 0 {tbl}"], "c03badc" + kind, timeout=300)
        return out[0]
    except Exception:  # noqa
        return None


def flag_decl(n):
    return f"flag F{n}:\n" + "\n".join(f"    m{i}" for i in range(n)) + "\n"


def convert_glue(ctx, pairs_by_in, cterm, cfgs):
    """convert() probes through the full compiler vs conv_spec.  pairs_by_in: {key_in: [key_out, ...]}"""
    rnd = ctx.rng("convglue")
    imports = CONV_PRELUDE
    grids, gnames = {}, {}
    for ki in pairs_by_in:
        grids[ki] = c_grid(ki, rnd, 9)
        gnames[ki] = f"CG{len(gnames)}"
        imports += f"Definition {gnames[ki]} := {zlist(grids[ki])}.\n"
    groups = {}
    n_eval = 0
    for cfg in cfgs:
        chain = Chain(cfg.evm)
        for ki, outs in pairs_by_in.items():
            flags = sorted({k[1] for k in [ki] + outs if k[0] == "flag"})
            src = "".join(flag_decl(n) + "\n" for n in flags)
            for j, ko in enumerate(outs):
                src += f"@external\ndef c{j}(x: {c_src_name(ki)}) -> {c_src_name(ko)}:\n    return convert(x, {c_src_name(ko)})\n\n"
            try:
                out = compile_src(src, cfg, formats=("bytecode", "method_identifiers"))
            except Exception as e:  # noqa
                ctx.violation("correspondence-broken", f"convert probe does not compile under {cfg.name}",
                              {"source": src, "config": cfg.name, "error": f"{type(e).__name__}: {e}"[:600]})
                continue
            addr = chain.deploy(bytes.fromhex(out["bytecode"][2:]))
            sels = {sig.split("(")[0]: int(h, 16).to_bytes(4, "big") for sig, h in out["method_identifiers"].items()}
            for j, ko in enumerate(outs):
                datas = [sels[f"c{j}"] + word(c_enc(ki, v)) for v in grids[ki]]
                obs = [call_word(chain, addr, dt) for dt in datas]
                n_eval += len(obs)
                g = groups.setdefault((ki, ko), {"spec": f"cspec_row {cterm[ki]} {cterm[ko]} {gnames[ki]}", "runs": []})
                g["runs"].append((cfg, obs, datas, src, j))
    keys = list(groups)
    rows = [{"spec": groups[k]["spec"], "multi": [r[1] for r in groups[k]["runs"]]} for k in keys]
    res = compare_rows(imports, rows, "c03convglue", shard=80)
    failing = []
    for (ki, ko), (sm, _) in zip(keys, res):
        seen = set()
        for i, e, m in sm:
            if m in seen:
                continue
            seen.add(m)
            cfg, obs, datas, src, j = groups[(ki, ko)]["runs"][m]
            g = grids[ki]
            failing.append({"convert": f"{c_src_name(ki)} -> {c_src_name(ko)}", "function": f"c{j}", "config": cfg.name,
                            "value": str(g[i]) if 0 <= i < len(g) else "?",
                            "expected": "revert" if e == -1 else hex(e),
                            "observed": "revert" if obs[i] == -1 else hex(obs[i]),
                            "calldata": datas[i].hex(), "source": src})
    ctx.corr["convert_glue_cases"] = ctx.corr.get("convert_glue_cases", 0) + n_eval
    ctx.corr["convert_glue_pairs"] = len(keys)
    return n_eval, failing


def bytes_convert_glue(ctx, cterm, cfgs):
    """convert(b, T) for b: Bytes[N] (memory operand; not in the template families): the result must be conv_spec of
    bytes<len> for the ACTUAL length (sign taken from the first byte), whatever the padding after the data is."""
    rnd = ctx.rng("bytesconv")
    N_ = lambda k, s: ("num", k, s, False)  # noqa: E731
    outs_all = [N_(32, False), N_(32, True), N_(1, True), N_(1, False), N_(16, True), ("num", 21, True, True), ("bool",),
                ("addr",), ("bytes", 32), ("bytes", 4)]
    groups = {}
    n_eval = 0
    for cfg in cfgs:
        chain = Chain(cfg.evm)
        for n in (1, 4, 20, 32):
            outs = [ko for ko in outs_all if not (ko[0] == "bytes" and ko[1] < n)]
            src = ""
            for j, ko in enumerate(outs):
                src += f"@external\ndef c{j}(b: Bytes[{n}]) -> {c_src_name(ko)}:\n    return convert(b, {c_src_name(ko)})\n\n"
            try:
                out = compile_src(src, cfg, formats=("bytecode", "method_identifiers"))
            except Exception as e:  # noqa
                ctx.violation("correspondence-broken", f"Bytes convert probe does not compile under {cfg.name}",
                              {"source": src, "config": cfg.name, "error": f"{type(e).__name__}: {e}"[:600]})
                continue
            addr = chain.deploy(bytes.fromhex(out["bytecode"][2:]))
            sels = {sig.split("(")[0]: int(h, 16).to_bytes(4, "big") for sig, h in out["method_identifiers"].items()}
            key = ("cases", n)
            if key not in groups:
                cs = []
                for ln in sorted({0, 1, n // 2, n - 1, n} - {-1}):
                    for pat in (b"\x00", b"\xff", b"\x80", b"\x7f", None):
                        data = (pat * ln) if pat else bytes(rnd.randrange(256) for _ in range(ln))
                        if ln and pat == b"\x00":
                            data = b"\x00" * (ln - 1) + b"\x01"
                        for dirty in (False, True):
                            cs.append((ln, data, dirty))
                groups[key] = cs
            cs = groups[key]
            for j, ko in enumerate(outs):
                obs = []
                for ln, data, dirty in cs:
                    pad = (b"\xee" if dirty else b"\x00") * ((32 - ln % 32) % 32 if ln else 0)
                    cd = sels[f"c{j}"] + word(32) + word(ln) + data + pad
                    obs.append(call_word(chain, addr, cd))
                n_eval += len(obs)
                g = groups.setdefault((n, ko), {"runs": []})
                g["runs"].append((cfg, obs, src, j))
    keys = [k for k in groups if k[0] != "cases"]
    rows = []
    for n, ko in keys:
        cs = groups[("cases", n)]
        pl = "[" + "; ".join(f"({ln}, {X.zl(int.from_bytes(data, 'big') if ln else 0)})" for ln, data, _ in cs) + "]"
        rows.append({"spec": f"map (fun p => oc (c_enc_out {cterm[ko]} (if fst p =? 0 then conv_spec (CBytes 1) {cterm[ko]} 0 "
                             f"else conv_spec (CBytes (fst p)) {cterm[ko]} (snd p)))) {pl}",
                     "multi": [r[1] for r in groups[(n, ko)]["runs"]]})
    res = compare_rows(CONV_PRELUDE, rows, "c03bytesconv", shard=40)
    failing = []
    for (n, ko), (sm, _) in zip(keys, res):
        seen = set()
        for i, e, m in sm:
            if m in seen:
                continue
            seen.add(m)
            cfg, obs, src, j = groups[(n, ko)]["runs"][m]
            ln, data, dirty = groups[("cases", n)][i]
            failing.append({"convert": f"Bytes[{n}] -> {c_src_name(ko)}", "function": f"c{j}", "config": cfg.name,
                            "bytes": "0x" + data.hex(), "length": ln, "dirty_padding": dirty,
                            "expected": "revert" if e == -1 else hex(e),
                            "observed": "revert" if obs[i] == -1 else hex(obs[i]), "source": src})
    ctx.corr["bytes_convert_glue_cases"] = n_eval
    return n_eval, failing


def choose_convert_pairs(ctx, allowed, tier):
    """{key_in: [key_out...]} : boundary in-types x a seeded sample of allowed out-types"""
    rnd = ctx.rng("convpairs")
    by_in = {}
    for ki, ko in allowed:
        if ki != ko:   # same-type convert of a variable is rejected by the type checker
            by_in.setdefault(ki, []).append(ko)
    N = lambda k, s: ("num", k, s, False)  # noqa: E731
    must_in = [N(32, True), N(32, False), N(16, True), N(1, False), N(1, True), ("num", 21, True, True), ("bytes", 32),
               ("bytes", 1), ("bytes", 20), ("addr",), ("bool",), ("flag", 3)]
    ins = must_in + (rnd.sample([k for k in by_in if k not in must_in], 3 if tier == "quick" else 25))
    must_out = [N(1, True), N(1, False), N(32, True), N(32, False), N(16, True), ("num", 21, True, True), ("bool",),
                ("addr",), ("bytes", 32), ("bytes", 1), ("flag", 3)]
    out = {}
    for ki in ins:
        outs = [ko for ko in must_out if ko in by_in.get(ki, []) and not (ko[0] == "flag" and ko[1] > 3)]
        rest = [ko for ko in by_in.get(ki, []) if ko not in outs and not (ko[0] == "flag" and ko[1] > 3)]
        outs += rnd.sample(rest, min(len(rest), 3 if tier == "quick" else 10))
        if outs:
            out[ki] = outs
    return out


def convert_acceptance_differential(ctx):
    """Source level: both pipelines must agree on which convert(x, T) pairs compile (the conversion rules are enforced by
    code generation, not by semantic analysis).  Includes Bytes[N] / String[N] sources, which the template families
    do not enumerate."""
    rnd = ctx.rng("convaccept")
    names = ["uint256", "int256", "int8", "uint8", "int128", "uint160", "decimal", "bool", "address", "bytes4", "bytes20",
             "bytes32", "F3", "Bytes[4]", "Bytes[32]", "Bytes[33]", "String[4]", "String[32]"]
    prs = [(a, b) for a in names for b in names]
    if ctx.tier == "quick":
        prs = rnd.sample(prs, 70)
    disagree = []
    n = 0
    for a, b in prs:
        src = flag_decl(3) + f"\n@external\ndef f(x: {a}) -> {b}:\n    return convert(x, {b})\n"
        res = []
        for venom in (False, True):
            try:
                compile_src(src, Config(venom, "gas", "prague"), formats=("bytecode",))
                res.append("compiles")
            except Exception as e:  # noqa
                res.append(type(e).__name__)
        n += 1
        if (res[0] == "compiles") != (res[1] == "compiles"):
            disagree.append((a, b, res, src))
    ctx.corr["convert_acceptance_pairs"] = n
    return disagree


def venom_extra_conversions(ctx, extras):
    """Pairs the Venom convert lowering accepts although the conversion rules (and the legacy pipeline) reject
    them.  Confirm on the real compiler with a truncation witness and report it as a failing input."""
    if not extras:
        return False
    ctx.extra["venom_convert_extra_pairs"] = len(extras)
    src = flag_decl(40) + "\n@external\ndef f(x: F40) -> bytes4:\n    return convert(x, bytes4)\n"
    cfg = Config(True, "gas", "prague")
    try:
        out = compile_src(src, cfg, formats=("bytecode", "method_identifiers"))
    except Exception:  # noqa
        return False     # rejected at source level: nothing reachable
    chain = Chain(cfg.evm)
    addr = chain.deploy(bytes.fromhex(out["bytecode"][2:]))
    sel = int(list(out["method_identifiers"].values())[0], 16).to_bytes(4, "big")
    got = call_word(chain, addr, sel + word(2**39))
    try:
        compile_src(src, Config(False, "gas", "prague"), formats=("bytecode",))
        legacy = "compiles"
    except Exception as e:  # noqa
        legacy = f"rejected: {type(e).__name__}"
    if got != -1:
        ctx.violation(
            "failing-input", "venom pipeline accepts convert(flag, bytes4) and silently truncates",
            {"source": src, "config": cfg.name, "call": "f(2**39)  (flag member m39)", "calldata": (sel + word(2**39)).hex(),
             "expected": "compile-time TypeMismatch (as in the legacy pipeline) or revert: the value does not fit in 4 bytes",
             "observed": hex(got), "legacy_pipeline": legacy,
             "extra_pairs_accepted_by_venom_lowering": len(extras),
             "examples": sorted({f"{c_src_name(x[2])}->{c_src_name(x[3])}" for x in extras})[:40]},
            key="venom-convert-accepts:flag->bytes4")
        return True
    return False


# ------------------------------------------------------------------ (4) safe_pow templates
def pow_grid(kd, ty, lit, p1, p2, rnd):
    """operand values for the non-literal side of a pow template"""
    k, s, _ = ty
    lo, hi = bounds(k, s)
    if kd == 0:   # literal base, variable exponent: around the bound, small, huge, negative
        vals = {0, 1, 2, 3, p1 - 1, p1, p1 + 1, p1 + 2, 255, 256, 257, hi, hi - 1, lo, -1, rnd.randrange(0, 300)}
    else:         # literal exponent, variable base: around the interval ends + type boundaries
        vals = {0, 1, 2, -1, -2, p1 - 1, p1, p1 + 1, p2 - 1, p2, p2 + 1, lo, lo + 1, hi, hi - 1, rnd.randrange(lo, hi + 1)}
    return sorted(v for v in vals if lo <= v <= hi)


def pow_differential(ctx, templates, kind, sample=None, force_idx=()):
    rnd = ctx.rng(kind + "pow")
    force_idx = set(force_idx)
    idx = [j for j in range(len(templates)) if j in force_idx or sample is None or rnd.random() < sample]
    chain = Chain("cancun")
    rows, meta = [], []
    n_eval = 0
    for j in idx:
        kd, ty, lit, p1, p2, n = templates[j]
        g = pow_grid(kd, ty, lit, p1, p2, rnd)
        sh = 1 if kd == 0 else 2
        cs = pairs(sh, lit, g)
        code = ir_snippet_code(n) if kind == "legacy" else venom_snippet_code(n)
        obs = run_code(chain, code, cs)
        n_eval += len(cs)
        gl = zlist(g)
        rows.append({"spec": f"pspec_row {X.nty(*ty)} {sh} {X.zl(lit)} {gl}",
                     "model": (f"lev_row {X.lir_term(n)} {sh} {X.zl(lit)} {gl}" if kind == "legacy"
                               else f"vev_row {X.vtemplate_term(*n)} {sh} {X.zl(lit)} {gl}"), "obs": obs})
        meta.append((kd, ty, lit, n, cs, obs))
    res = compare_rows(COQ_PRELUDE, rows, "c03pow" + kind, shard=60)
    failing, bad_model = [], []
    for (kd, ty, lit, n, cs, obs), (sm, mm) in zip(meta, res):
        for i, e, _ in sm[:1]:
            failing.append((kd, ty, lit, cs[i] if 0 <= i < len(cs) else ("?", "?"), e, obs[i] if 0 <= i < len(obs) else None, n))
        for i, e, _ in mm[:1]:
            bad_model.append((kd, ty, lit, cs[i] if 0 <= i < len(cs) else ("?", "?"), e, obs[i] if 0 <= i < len(obs) else None))
    ctx.corr[kind + "_pow_cases"] = n_eval
    ctx.corr[kind + "_pow_templates_run"] = len(idx)
    return n_eval, failing, bad_model


def mismatching_pows(kind):
    gen, fn, tbl = ("GenPowLegacy", "ptie_one", "legacy_pows") if kind == "legacy" else ("GenPowVenom", "vptie_one", "venom_pows")
    try:
        out = coqrun.eval_zlists(f"From Verif Require Import C03.TieModels C03.PowTie C03.{gen}.\n",
                                 [f"bad_idx {fn} 0 {tbl}"], "c03badp" + kind, timeout=300)
        return out[0]
    except Exception:  # noqa
        return None


# ------------------------------------------------------------------ (5) unchecked operations
UNSAFE_PRELUDE = COQ_PRELUDE + """From Verif Require Import C03.UnsafeExact.
(* umath without astronomically large intermediate values *)
Definition umath_safe (o : uop) (x y : Z) : Z :=
  match o with
  | UPowMod => powmod x y W
  | UShl => if 256 <=? y then 0 else x * 2 ^ y
  | UShr => if 256 <=? y then (if x <? 0 then -1 else 0) else x / 2 ^ y
  | _ => umath o x y
  end.
Definition uspec_row (T : nty) (o : uop) (P : list (Z * Z)) : list Z :=
  map (fun p => wrap (twrap T (umath_safe o (fst p) (snd p)))) P.
Definition ulev_row (t : lir) (P : list (Z * Z)) : list Z :=
  map (fun p => oc (leval [("x"%string, wrap (fst p)); ("y"%string, wrap (snd p))] t)) P.
Definition uvev_row (t : vtemplate) (P : list (Z * Z)) : list Z :=
  map (fun p => oc (vrun [("%2"%string, wrap (snd p)); ("%1"%string, wrap (fst p))] t)) P.
"""
SHIFT_GRID = [0, 1, 8, 255, 256, 257, 2**255, 2**256 - 1]


def plist(cs):
    return "[" + "; ".join(f"({X.zl(x)}, {X.zl(y)})" for x, y in cs) + "]"


def unsafe_cases(uop, ty, rnd, size):
    g = type_grid(ty, rnd, size)
    if uop in ("UShl", "UShr"):
        return [(x, y) for x in g for y in SHIFT_GRID]
    if uop == "UPowMod":
        return [(x, y) for x in g[:8] for y in [0, 1, 2, 3, 255, 256, 257, 2**255 + 1, 2**256 - 1]]
    return [(x, y) for x in g for y in g]


def unsafe_differential(ctx, templates, kind, sample=None, force_idx=()):
    rnd = ctx.rng(kind + "unsafe")
    force_idx = set(force_idx)
    idx = [j for j in range(len(templates)) if j in force_idx or sample is None or rnd.random() < sample]
    chain = Chain("cancun")
    rows, meta = [], []
    n_eval = 0
    for j in idx:
        uop, ty, n = templates[j]
        cs = unsafe_cases(uop, ty, rnd, 7)
        code = ir_snippet_code(n) if kind == "legacy" else venom_snippet_code(n)
        obs = run_code(chain, code, cs)
        n_eval += len(cs)
        pl = plist(cs)
        rows.append({"spec": f"uspec_row {X.nty(*ty)} {uop} {pl}",
                     "model": (f"ulev_row {X.lir_term(n)} {pl}" if kind == "legacy" else f"uvev_row {X.vtemplate_term(*n)} {pl}"),
                     "obs": obs})
        meta.append((uop, ty, n, cs, obs))
    res = compare_rows(UNSAFE_PRELUDE, rows, "c03uns" + kind, shard=40)
    failing, bad_model = [], []
    for (uop, ty, n, cs, obs), (sm, mm) in zip(meta, res):
        for i, e, _ in sm[:1]:
            failing.append((uop, ty, cs[i] if 0 <= i < len(cs) else ("?", "?"), e, obs[i] if 0 <= i < len(obs) else None, n))
        for i, e, _ in mm[:1]:
            bad_model.append((uop, ty, cs[i] if 0 <= i < len(cs) else ("?", "?"), e, obs[i] if 0 <= i < len(obs) else None))
    ctx.corr[kind + "_unsafe_cases"] = n_eval
    return n_eval, failing, bad_model


def mismatching_unsafes(kind):
    gen, fn, tbl = ("GenUnsafeLegacy", "utie_one", "legacy_unsafes") if kind == "legacy" else ("GenUnsafeVenom", "vutie_one", "venom_unsafes")
    try:
        out = coqrun.eval_zlists(f"From Verif Require Import C03.TieModels C03.UnsafeTie C03.{gen}.\n",
                                 [f"bad_idx {fn} 0 {tbl}"], "c03badu" + kind, timeout=300)
        return out[0]
    except Exception:  # noqa
        return None


# exact (checked) builtins on the 256-bit types, probed with the same machinery: name -> (type key, source, Coq result)
EXTRA_BUILTINS = {
    "Xabs": ((32, True, False), "abs(x)", "fun x y => if x =? MINS then -1 else wrap (Z.abs x)"),
    "Xnot": ((32, False, False), "~x", "fun x y => wrap (W - 1 - x)"),
    "Xaddmod": ((32, False, False), "uint256_addmod(x, x, y)", "fun x y => if y =? 0 then -1 else (x + x) mod y"),
    "Xmulmod": ((32, False, False), "uint256_mulmod(x, x, y)", "fun x y => if y =? 0 then -1 else (x * x) mod y"),
}
UNSAFE_SRC = {"UAdd": "unsafe_add(x, y)", "USub": "unsafe_sub(x, y)", "UMul": "unsafe_mul(x, y)", "UDiv": "unsafe_div(x, y)",
              "UAnd": "x & y", "UOr": "x | y", "UXor": "x ^ y", "UShl": "x << y", "UShr": "x >> y", "UPowMod": "pow_mod256(x, y)"}


def unsafe_glue(ctx, tys, cfgs):
    """the unchecked builtins / operators through the full compiler vs the Coq spec"""
    rnd = ctx.rng("unsafeglue")
    groups = {}
    n_eval = 0
    tys = [t for t in tys if not t[2]]
    cases = {}
    for cfg in cfgs:
        chain = Chain(cfg.evm)
        for ty in tys:
            t = tyname(ty)
            ops = ["UAdd", "USub", "UMul", "UDiv", "UAnd", "UOr", "UXor"] + (["UShl", "UShr"] if ty[0] == 32 else []) + \
                  (["UPowMod"] if ty[0] == 32 and not ty[1] else []) + [k for k, v in EXTRA_BUILTINS.items() if v[0] == ty]
            src = ""
            for uop in ops:
                yt = "uint256" if uop in ("UShl", "UShr") else t
                expr = EXTRA_BUILTINS[uop][1] if uop in EXTRA_BUILTINS else UNSAFE_SRC[uop]
                src += f"@external\ndef f{uop}(x: {t}, y: {yt}) -> {t}:\n    return {expr}\n\n"
            try:
                out = compile_src(src, cfg, formats=("bytecode", "method_identifiers"))
            except Exception as e:  # noqa
                ctx.violation("correspondence-broken", f"unchecked-ops probe does not compile under {cfg.name}",
                              {"source": src, "config": cfg.name, "error": f"{type(e).__name__}: {e}"[:600]})
                continue
            addr = chain.deploy(bytes.fromhex(out["bytecode"][2:]))
            sels = {sig.split("(")[0]: int(h, 16).to_bytes(4, "big") for sig, h in out["method_identifiers"].items()}
            for uop in ops:
                if (ty, uop) not in cases:
                    cases[(ty, uop)] = unsafe_cases(uop, ty, rnd, 5 if ctx.tier == "quick" else 7) if uop not in EXTRA_BUILTINS else \
                        [(x, y) for x in type_grid(ty, rnd, 9) for y in (0, 1, 2, 7, 2**255, 2**256 - 1)]
                cs = cases[(ty, uop)]
                datas = [sels[f"f{uop}"] + word(x) + word(y) for x, y in cs]
                obs = [call_word(chain, addr, dt) for dt in datas]
                n_eval += len(cs)
                spec = (f"map (fun p => ({EXTRA_BUILTINS[uop][2]}) (fst p) (snd p)) {plist(cs)}" if uop in EXTRA_BUILTINS
                        else f"uspec_row {X.nty(*ty)} {uop} {plist(cs)}")
                g = groups.setdefault((ty, uop), {"spec": spec, "cs": cs, "runs": []})
                g["runs"].append((cfg, obs, datas, src))
    keys = list(groups)
    rows = [{"spec": groups[k]["spec"], "multi": [r[1] for r in groups[k]["runs"]]} for k in keys]
    res = compare_rows(UNSAFE_PRELUDE, rows, "c03unsglue", shard=60)
    failing = []
    for (ty, uop), (sm, _) in zip(keys, res):
        seen = set()
        for i, e, m in sm:
            if m in seen:
                continue
            seen.add(m)
            cfg, obs, datas, src = groups[(ty, uop)]["runs"][m]
            cs = groups[(ty, uop)]["cs"]
            failing.append({"type": tyname(ty), "operation": EXTRA_BUILTINS[uop][1] if uop in EXTRA_BUILTINS else UNSAFE_SRC[uop],
                            "config": cfg.name,
                            "args": [str(cs[i][0]), str(cs[i][1])], "expected": "revert" if e == -1 else hex(e),
                            "observed": "revert" if obs[i] == -1 else hex(obs[i]), "calldata": datas[i].hex(), "source": src})
    ctx.corr["unsafe_glue_cases"] = n_eval
    return n_eval, failing


# ------------------------------------------------------------------ (6) clamps on all word types, venom usub
CLAMP_PRELUDE = CONV_PRELUDE + """From Verif Require Import C03.ClampExact.
Definition canon_row (T : cty) (G : list Z) : list Z := map (fun w => if c_canonb T w then w else -1) G.
Definition cl_row (t : lir) (G : list Z) : list Z := map (fun w => oc (leval [("x"%string, w)] t)) G.
Definition cv_row (t : vtemplate) (G : list Z) : list Z := map (fun w => oc (vrun [("%1"%string, w)] t)) G.
"""


def dirty_words(key, rnd):
    """canonical words of boundary values and near-misses (dirty high/low bits)"""
    vals = c_grid(key, rnd, 7)
    ws = {c_enc(key, v) for v in vals}
    out = set(ws)
    for w in list(ws)[:6]:
        out |= {(w + 1) % 2**256, w ^ (1 << 255), w | 1, w ^ (1 << 160), w ^ (1 << 8), (w - 1) % 2**256}
    out |= {2**256 - 1, 2**255, 1 << 160, 2, 1 << 248}
    return sorted(out)


def clamp_differential(ctx, fam, sample):
    """fam: dict from c03_export.gen_clamps"""
    rnd = ctx.rng("clamps")
    chain = Chain("cancun")
    rows, meta = [], []
    n_eval = 0
    for name, kind in (("legacy", "legacy"), ("venom_arith", "venom"), ("venom_abi", "venom")):
        for ci, ki, n in fam[name]:
            if sample is not None and rnd.random() > sample:
                continue
            g = dirty_words(ki, rnd)
            code = ir_snippet_code(n) if kind == "legacy" else venom_snippet_code(n)
            obs = run_code(chain, code, [(w, 0) for w in g])
            n_eval += len(g)
            gl = zlist(g)
            rows.append({"spec": f"canon_row {ci} {gl}",
                         "model": (f"cl_row {X.lir_term(n)} {gl}" if kind == "legacy" else f"cv_row {X.vtemplate_term(*n)} {gl}"),
                         "obs": obs})
            meta.append((name, ki, n, g, obs))
    res = compare_rows(CLAMP_PRELUDE, rows, "c03clamp", shard=60)
    failing, bad_model = [], []
    for (name, ki, n, g, obs), (sm, mm) in zip(meta, res):
        for i, e, _ in sm[:1]:
            failing.append((name, ki, g[i], e, obs[i], n))
        for i, e, _ in mm[:1]:
            bad_model.append((name, ki, g[i], e, obs[i]))
    ctx.corr["clamp_cases"] = n_eval
    return n_eval, failing, bad_model


def usub_differential(ctx, fam):
    rnd = ctx.rng("vusub")
    chain = Chain("cancun")
    rows, meta = [], []
    n_eval = 0
    for ci, ty, n in fam["venom_usub"]:
        if ctx.tier == "quick" and rnd.random() > 0.3:
            continue
        g = type_grid(ty, rnd, 9)
        cs = pairs(3, 0, g)
        obs = run_code(chain, venom_snippet_code(n), cs)
        n_eval += len(cs)
        gl = zlist(g)
        rows.append({"spec": f"spec_row {ci} AUSub 3 0 {gl}", "model": f"vev_row {X.vtemplate_term(*n)} 3 0 {gl}", "obs": obs})
        meta.append((ty, n, cs, obs))
    res = compare_rows(COQ_PRELUDE, rows, "c03vusub", shard=60)
    failing = []
    for (ty, n, cs, obs), (sm, mm) in zip(meta, res):
        for i, e, _ in (sm + mm)[:1]:
            failing.append((ty, cs[i][0], e, obs[i], n))
    return n_eval, failing


# ------------------------------------------------------------------ (7) bytestring -> word conversion templates
BCONV_PRELUDE = CONV_PRELUDE + """From Verif Require Import C03.LIRMem C03.VSLMem C03.BytesConv.
Definition bmem (len dw : Z) (a : Z) : Z := if a =? 256 then len else if a =? 288 then dw else 0.
Definition bspec_row (T : cty) (P : list (Z * Z)) : list Z :=
  map (fun p => oc (c_enc_out T (conv_spec (blen_ty (fst p)) T (bval (fst p) (snd p))))) P.
Definition blev_row (t : mlir) (P : list (Z * Z)) : list Z :=
  map (fun p => oc (mleval (bmem (fst p) (snd p)) [("b"%string, 256)] t)) P.
Definition bvev_row (t : mvtemplate) (P : list (Z * Z)) : list Z :=
  map (fun p => oc (mvrun (bmem (fst p) (snd p)) [("%1"%string, 256)] t)) P.
"""


def bytes_snippet_code(kind, t):
    """runtime code: store calldata word 0 (length) at 0x100 and word 1 (first data word) at 0x120, then run the exported
    template on the pointer 0x100 through the REAL back end"""
    from vyper.codegen.ir_node import IRnode
    from vyper.compiler.settings import OptimizationLevel, Settings, VenomOptimizationFlags, anchor_settings
    from vyper.evm.assembler.core import assembly_to_evm
    if kind == "legacy":
        from vyper.ir import compile_ir
        with X.settings_ctx():
            ir = IRnode.from_list(["seq", ["mstore", 256, ["calldataload", 0]], ["mstore", 288, ["calldataload", 32]],
                                   ["with", "b", 256, ["seq", ["mstore", 0, t], ["return", 0, 32]]]])
            asm = compile_ir.compile_to_assembly(ir, OptimizationLevel.NONE)
            code, _ = assembly_to_evm(asm)
        return code
    from vyper.venom import generate_assembly_experimental, run_passes_on
    from vyper.venom.parser import parse_venom
    ins, r = t
    body = "\n".join("  " + str(i).rstrip() for i in ins)
    text = ("function main {\nmain:\n  %100 = calldataload 0\n  mstore 256, %100\n  %101 = calldataload 32\n  mstore 288, %101\n"
            f"  %1 = 256\n{body}\n  mstore 0, {r}\n  return 0, 32\n}}\n")
    with anchor_settings(Settings(optimize=OptimizationLevel.NONE)):
        vctx = parse_venom(text)
        run_passes_on(vctx, VenomOptimizationFlags(level=OptimizationLevel.NONE), disable_mem_checks=True)
        asm = generate_assembly_experimental(vctx, OptimizationLevel.NONE)
        code, _ = assembly_to_evm(asm)
    return code


def bytes_cases(n, signed_target, rnd):
    """(len, data word) pairs: every interesting length (0 included), data patterns, clean/dirty/stale padding"""
    out = []
    for ln in sorted({0, 1, n // 2, n - 1, n} - {-1}):
        for pat in (0x00, 0xFF, 0x80, 0x7F, None):
            data = bytes([pat]) * ln if pat is not None else bytes(rnd.randrange(256) for _ in range(ln))
            for pad in (0x00, 0xEE, 0x7F):
                dw = int.from_bytes(data + bytes([pad]) * (32 - ln), "big")
                out.append((ln, dw))
    return out


def bytes_template_differential(ctx, fam, sample, force=None):
    rnd = ctx.rng("bconv")
    chain = Chain("cancun")
    rows, meta = [], []
    n_eval = 0
    for kind in ("legacy", "venom"):
        for j, (is_str, n, co, ko, t) in enumerate(fam[kind]):
            if not ((force and (kind, j) in force) or sample is None or rnd.random() < sample):
                continue
            signed = (ko[0] == "num" and ko[2])
            cs = bytes_cases(n, signed, rnd)
            code = bytes_snippet_code(kind, t)
            obs = run_code(chain, code, cs)
            n_eval += len(cs)
            pl = plist(cs)
            rows.append({"spec": f"bspec_row {co} {pl}",
                         "model": (f"blev_row {X.mlir_term(t)} {pl}" if kind == "legacy" else f"bvev_row {X.mvtemplate_term(*t)} {pl}"),
                         "obs": obs})
            meta.append((kind, is_str, n, ko, t, cs, obs))
    res = compare_rows(BCONV_PRELUDE, rows, "c03bconv", shard=60)
    failing, bad_model = [], []
    for (kind, is_str, n, ko, t, cs, obs), (sm, mm) in zip(meta, res):
        for i, e, _ in sm[:1]:
            failing.append((kind, is_str, n, ko, cs[i], e, obs[i], t))
        for i, e, _ in mm[:1]:
            bad_model.append((kind, is_str, n, ko, cs[i], e, obs[i]))
    ctx.corr["bytes_convert_template_cases"] = n_eval
    return n_eval, failing, bad_model


def mismatching_bconverts():
    try:
        out = coqrun.eval_zlists("From Verif Require Import C03.TieModels C03.BytesConvTie C03.GenBytesConv.\n",
                                 ["bad_idx btie_one 0 legacy_bconverts", "bad_idx vbtie_one 0 venom_bconverts"], "c03badb", timeout=300)
        return {("legacy", i) for i in out[0]} | {("venom", i) for i in out[1]}
    except Exception:  # noqa
        return None


def empty_bytes_signed_probe(ctx):
    """Permanent regression for convert-empty-bytes-signed-stale (fixed in 762c8bd): assign a long all-0xff value, then
    the empty value, then convert to a signed type: must be 0 whatever stale bytes the variable's memory holds."""
    hit = False
    for n, ty in ((32, "int256"), (32, "int8"), (5, "int128"), (21, "decimal")):
        src = (f"@external\ndef f() -> {ty}:\n    b: Bytes[{n}] = b\"" + "\\xff" * n + "\"\n    b = b\"\"\n"
               f"    return convert(b, {ty})\n")
        for cfg in quick_glue_configs():
            try:
                out = compile_src(src, cfg, formats=("bytecode", "method_identifiers"))
            except Exception:  # noqa
                continue
            chain = Chain(cfg.evm)
            addr = chain.deploy(bytes.fromhex(out["bytecode"][2:]))
            sel = int(list(out["method_identifiers"].values())[0], 16).to_bytes(4, "big")
            got = call_word(chain, addr, sel)
            ctx.corr["empty_bytes_probe_runs"] = ctx.corr.get("empty_bytes_probe_runs", 0) + 1
            if got != 0:
                hit = True
                ctx.violation("failing-input", f"convert(empty Bytes[{n}], {ty}) depends on stale memory (must be 0)",
                              {"source": src, "config": cfg.name, "calldata": sel.hex(), "expected": "0x0",
                               "observed": "revert" if got == -1 else hex(got),
                               "cause": "_bytes_to_num must zero-extend (shr) and then signextend from byte len-1 (identity for "
                                        "len = 0); sar by 8*(32-len) = 256 returns the sign of the stale data word; "
                                        "theorems legacy/venom_bytes_convert_empty (PropsBytesConv.v)"},
                              key="convert-empty-bytes-signed-stale")
                break
        if hit:
            break
    return hit


# ------------------------------------------------------------------ (8) shift / abs / addmod / mulmod / pow_mod256 / ~ ; flags
BLT_PRELUDE = COQ_PRELUDE + """From Verif Require Import C03.ConvSpec C03.BuiltinExact C03.BuiltinTie.
Definition bspecs (f : bfn) (P : list (list Z)) : list Z := map (fun vs => oc (enc_out (b_spec_safe f vs))) P.
Definition blevs (t : lir) (P : list (list Z)) : list Z := map (fun vs => oc (leval (lenv vs) t)) P.
Definition bvevs (t : vtemplate) (P : list (list Z)) : list Z := map (fun vs => oc (vrun (venv vs) t)) P.
"""
SHIFT_AMOUNTS = [-2**255, -257, -256, -255, -9, -8, -1, 0, 1, 8, 9, 255, 256, 257, 2**255 - 1]


def builtin_snippet_code(kind, t, arity):
    """runtime code running the exported template on calldata words 0.. (x, y, z / %1 %2 %3) through the REAL back end"""
    from vyper.codegen.ir_node import IRnode
    from vyper.compiler.settings import OptimizationLevel, Settings, VenomOptimizationFlags, anchor_settings
    from vyper.evm.assembler.core import assembly_to_evm
    if kind == "legacy":
        from vyper.ir import compile_ir
        with X.settings_ctx():
            ir = ["seq", ["mstore", 0, t], ["return", 0, 32]]
            for i in reversed(range(arity)):
                ir = ["with", "xyz"[i], ["calldataload", 32 * i], ir]
            asm = compile_ir.compile_to_assembly(IRnode.from_list(ir), OptimizationLevel.NONE)
            code, _ = assembly_to_evm(asm)
        return code
    from vyper.venom import generate_assembly_experimental, run_passes_on
    from vyper.venom.parser import parse_venom
    ins, r = t
    body = "\n".join("  " + str(i).rstrip() for i in ins)
    params = "".join(f"  %{i + 1} = calldataload {32 * i}\n" for i in range(arity))
    text = f"function main {{\nmain:\n{params}{body}\n  mstore 0, {r}\n  return 0, 32\n}}\n"
    with anchor_settings(Settings(optimize=OptimizationLevel.NONE)):
        vctx = parse_venom(text)
        run_passes_on(vctx, VenomOptimizationFlags(level=OptimizationLevel.NONE), disable_mem_checks=True)
        asm = generate_assembly_experimental(vctx, OptimizationLevel.NONE)
        code, _ = assembly_to_evm(asm)
    return code


def builtin_cases(key, lits, rnd):
    """operand tuples inside the domain of the builtin (b_domb); literal positions fixed to the literal"""
    U = [0, 1, 2, 7, 2**128, 2**255 - 1, 2**255, 2**256 - 2, 2**256 - 1, rnd.randrange(2**256)]
    if key[0] == "shift":
        lo, hi = bounds(*key[2])
        xs = type_grid((32, key[1], False), rnd, 9)
        ns = sorted({n for n in SHIFT_AMOUNTS + [2**255, lo, hi, rnd.randrange(lo, hi + 1)] if lo <= n <= hi})
        grids = [xs, ns]
    elif key[0] == "abs":
        grids = [type_grid((32, True, False), rnd, 11)]
    elif key[0] in ("addmod", "mulmod"):
        grids = [U[2:], U[2:], [0, 1, 2, 7, 2**255, 2**256 - 1, rnd.randrange(1, 2**256)]]
    elif key[0] == "powmod":
        grids = [U, [0, 1, 2, 3, 255, 256, 257, 2**255 + 1, 2**256 - 1]]
    else:
        grids = [c_grid(key[1], rnd, 9)]
    out = [[]]
    for g, l in zip(grids, lits):
        out = [o + [v] for o in out for v in ([l] if l is not None else g)]
    return out


def pll(cs):
    return "[" + "; ".join("[" + "; ".join(X.zl(v) for v in c) + "]" for c in cs) + "]"


def builtin_template_differential(ctx, fam, sample, force=None):
    from vyper.exceptions import StaticAssertionException
    rnd = ctx.rng("builtins")
    chain = Chain("cancun")
    rows, meta = [], []
    n_eval = 0
    for kind in ("legacy", "venom"):
        for j, (cterm, key, lits, t) in enumerate(fam[kind]):
            if not ((force and (kind, j) in force) or sample is None or rnd.random() < sample):
                continue
            cs = builtin_cases(key, lits, rnd)
            try:
                addr = chain.set_code(None, builtin_snippet_code(kind, t, len(lits)))
                obs = [call_word(chain, addr, b"".join(word(v) for v in c)) for c in cs]
            except StaticAssertionException:
                # a literal operand makes the assertion fail for every input (abs(MIN), addmod(.., 0)): the back end rejects
                # the program at compile time = a revert on every case
                obs = [-1] * len(cs)
            n_eval += len(cs)
            pl = pll(cs)
            rows.append({"spec": f"bspecs {cterm} {pl}",
                         "model": (f"blevs {X.lir_term(t)} {pl}" if kind == "legacy" else f"bvevs {X.vtemplate_term(*t)} {pl}"),
                         "obs": obs})
            meta.append((kind, key, lits, t, cs, obs))
    res = compare_rows(BLT_PRELUDE, rows, "c03blt", shard=60)
    failing, bad_model = [], []
    for (kind, key, lits, t, cs, obs), (sm, mm) in zip(meta, res):
        for i, e, _ in sm[:1]:
            failing.append((kind, key, lits, cs[i], e, obs[i], t))
        for i, e, _ in mm[:1]:
            bad_model.append((kind, key, lits, cs[i], e, obs[i]))
    ctx.corr["builtin_template_cases"] = n_eval
    return n_eval, failing, bad_model


def mismatching_builtins():
    try:
        out = coqrun.eval_zlists("From Verif Require Import C03.BuiltinExact C03.BuiltinTie C03.TieModels C03.GenBuiltins.\n",
                                 ["bad_idx btie_l 0 legacy_builtins", "bad_idx btie_v 0 venom_builtins"], "c03badblt", timeout=300)
        return {("legacy", j) for j in out[0]} | {("venom", j) for j in out[1]}
    except Exception:  # noqa
        return None


def mismatching_flag_converts(kind):
    fn, tbl = ("ctie_one", "legacy_flag_converts") if kind == "legacy" else ("vctie_one", "venom_flag_converts")
    try:
        out = coqrun.eval_zlists("From Verif Require Import C03.TieModels C03.ConvTie C03.BuiltinExact C03.GenBuiltins.\n",
                                 [f"bad_idx {fn} 0 {tbl}"], "c03badflag" + kind, timeout=300)
        return out[0]
    except Exception:  # noqa
        return None


SHIFT_PROBES = [("int256", "int256"), ("uint256", "int256"), ("uint256", "int8"), ("int256", "uint8"), ("uint256", "uint256"),
                ("int256", "int128")]
SHIFT_LIT_PROBES = [("uint256", "shift(x, 3)"), ("uint256", "shift(x, -3)"), ("int256", "shift(x, -255)"), ("int256", "shift(x, 255)"),
                    ("uint256", "shift(x, 256)"), ("int256", "shift(x, -256)")]


def shift_glue(ctx, cfgs):
    """shift(x, n) through the full compiler vs shift_safe (BuiltinTie.v, = shift_spec on the domain); the probes of a uint256
    amount >= 2^255 are the permanent regression for shift-builtin-unsigned-amount-negative (fixed in 1d5ff18)"""
    import re
    rnd = ctx.rng("shiftglue")
    tk = {"int256": (32, True), "uint256": (32, False), "int8": (1, True), "uint8": (1, False), "int128": (16, True)}
    groups, n_eval, failing, defect = {}, 0, [], None
    src = "".join(f"@external\ndef s{i}(x: {tx}, n: {tn}) -> {tx}:\n    return shift(x, n)\n\n" for i, (tx, tn) in enumerate(SHIFT_PROBES))
    src += "".join(f"@external\ndef l{i}(x: {tx}) -> {tx}:\n    return {e}\n\n" for i, (tx, e) in enumerate(SHIFT_LIT_PROBES))
    cases = {}
    for i, (tx, tn) in enumerate(SHIFT_PROBES):
        lo, hi = bounds(*tk[tn])
        xs = type_grid((32, tk[tx][1], False), rnd, 7)
        ns = sorted({n for n in SHIFT_AMOUNTS + [2**255, lo, hi] if lo <= n <= hi})
        cases[f"s{i}"] = (tk[tx][1], [(x, n) for x in xs for n in ns])
    for i, (tx, e) in enumerate(SHIFT_LIT_PROBES):
        n = int(re.search(r", (-?\d+)\)", e).group(1))
        cases[f"l{i}"] = (tk[tx][1], [(x, n) for x in type_grid((32, tk[tx][1], False), rnd, 9)])
    import warnings
    for cfg in cfgs:
        try:
            with warnings.catch_warnings():
                warnings.simplefilter("ignore")     # "shift() is deprecated"
                out = compile_src(src, cfg, formats=("bytecode", "method_identifiers"))
        except Exception as e:  # noqa
            ctx.violation("correspondence-broken", f"shift() probe does not compile under {cfg.name}",
                          {"source": src, "config": cfg.name, "error": f"{type(e).__name__}: {e}"[:600]})
            continue
        chain = Chain(cfg.evm)
        addr = chain.deploy(bytes.fromhex(out["bytecode"][2:]))
        sels = {sig.split("(")[0]: int(h, 16).to_bytes(4, "big") for sig, h in out["method_identifiers"].items()}
        for fn, (sx, cs) in cases.items():
            datas = [sels[fn] + word(x) + (word(n) if fn[0] == "s" else b"") for x, n in cs]
            obs = [call_word(chain, addr, dt) for dt in datas]
            n_eval += len(cs)
            g = groups.setdefault(fn, {"spec": f"map (fun p => wrap (shift_safe {'true' if sx else 'false'} (fst p) (snd p))) {plist(cs)}",
                                       "cs": cs, "runs": []})
            g["runs"].append((cfg, obs, datas))
        # the defect: amount of type uint256 with the top bit set
        if defect is None:
            for x, n in ((12, 2**256 - 1), (2**256 - 1, 2**256 - 2), (1, 2**255)):
                dt = sels["s4"] + word(x) + word(n)
                got = call_word(chain, addr, dt)
                n_eval += 1
                if got != 0:
                    defect = {"source": src, "config": cfg.name, "calldata": dt.hex(), "function": "s4 = shift(x: uint256, n: uint256)",
                              "args": [str(x), str(n)], "expected": "0x0", "observed": "revert" if got == -1 else hex(got),
                              "cause": "Shift.build_IR / lower_shift must test the sign of the amount (slt) only for a signed amount type; "
                                       "an unsigned amount >= 2**255 was shifted RIGHT by 2**256-n (theorem shift_amount_regression)"}
                    break
    keys = list(groups)
    rows = [{"spec": groups[k]["spec"], "multi": [r[1] for r in groups[k]["runs"]]} for k in keys]
    res = compare_rows(BLT_PRELUDE, rows, "c03shiftglue", shard=60)
    for fn, (sm, _) in zip(keys, res):
        seen = set()
        for i, e, m in sm:
            if m in seen:
                continue
            seen.add(m)
            cfg, obs, datas = groups[fn]["runs"][m]
            cs = groups[fn]["cs"]
            what = SHIFT_PROBES[int(fn[1:])] if fn[0] == "s" else SHIFT_LIT_PROBES[int(fn[1:])]
            failing.append({"function": f"{fn}: {what}", "config": cfg.name, "args": [str(cs[i][0]), str(cs[i][1])],
                            "expected": "revert" if e == -1 else hex(e), "observed": "revert" if obs[i] == -1 else hex(obs[i]),
                            "calldata": datas[i].hex(), "source": src})
    ctx.corr["shift_glue_cases"] = n_eval
    return n_eval, failing, defect


def literal_convert_glue(ctx, litfam, tie_ok, cfgs):
    """convert(<literal>, T) through the full compiler under both pipelines vs conv_spec (evaluated by Coq): cases the
    generators accept must return exactly the value (or revert / be rejected statically when conv_spec is Revert or the pair
    is not allowed); cases rejected by a generator must not have a value.  If the Coq tie is broken, the mismatching cases are searched first."""
    rnd = ctx.rng("litglue")
    picks = []
    if not tie_ok:
        try:
            out = coqrun.eval_zlists("From Verif Require Import C03.TieModels C03.ConvTie C03.LitConvTie C03.GenLitConv.\n",
                                     ["bad_idx lit_tie_l 0 legacy_litconverts", "bad_idx lit_tie_v 0 venom_litconverts"], "c03badlit", timeout=300)
            lk = [a for a in litfam if a[6][0] != "crash"]
            vk = [a for a in litfam if a[7][0] != "crash"]
            picks = [lk[j] for j in out[0][:12]] + [vk[j] for j in out[1][:12]]
            ctx.log(f"search literal converts: {len(out[0])} legacy / {len(out[1])} venom cases differ from conv_spec")
        except Exception:  # noqa
            pass
    pool = [a for a in litfam]
    rnd.shuffle(pool)
    picks += pool[:(14 if ctx.tier == "quick" else 120)]
    seen, cases = set(), []
    for a in picks:
        if (a[0], a[4]) not in seen:
            seen.add((a[0], a[4]))
            cases.append(a)
    if not cases:
        return 0, []
    spec = coqrun.eval_zlists(CONV_PRELUDE, ["[" + "; ".join(f"(if conv_allowed {a[1]} {a[2]} then oc (c_enc_out {a[2]} (conv_spec {a[1]} {a[2]} {X.zl(a[5])})) else -1)" for a in cases) + "]"],
                              "c03litglue", timeout=300)[0]
    failing, n_eval = [], 0
    for a, e in zip(cases, spec):
        lit, _, _, ki, ko, v, rl, rv = a
        tname = c_src_name(ko)
        src = f"@external\ndef f() -> {tname}:\n    return convert({lit}, {tname})\n"
        for cfg in cfgs:
            n_eval += 1
            try:
                out = compile_src(src, cfg, formats=("bytecode", "method_identifiers"))
            except Exception as ex:  # noqa  -- compile-time rejection
                got, how = -1, f"rejected at compile time: {type(ex).__name__}"
            else:
                chain = Chain(cfg.evm)
                addr = chain.deploy(bytes.fromhex(out["bytecode"][2:]))
                sel = int(list(out["method_identifiers"].values())[0], 16).to_bytes(4, "big")
                got, how = call_word(chain, addr, sel), "executed"
            if got != e:
                failing.append({"source": src, "config": cfg.name, "convert": f"{lit} ({c_src_name(ki)}) -> {tname}",
                                "calldata": "?", "expected": "revert or compile-time rejection" if e == -1 else hex(e),
                                "observed": ("revert / " + how) if got == -1 else hex(got)})
                break
    ctx.corr["literal_convert_glue_cases"] = n_eval
    return n_eval, failing


# ------------------------------------------------------------------ main

class PhaseCtx:
    """what a differential phase may use of the Ctx; violations and counters are recorded and replayed by run_phases"""

    def __init__(self, ctx):
        self._ctx = ctx
        self.tier = ctx.tier
        self.corr, self.extra, self.samples, self.calls = {}, {}, [], []

    def rng(self, salt=""):
        return self._ctx.rng(salt)

    def log(self, *a):
        self._ctx.log(*a)

    def is_known(self, key):
        return self._ctx.is_known(key)

    def violation(self, kind, name, detail, key=None):
        self.calls.append((kind, name, detail, key))


def run_phases(ctx, phases, order, workers=3):
    """Run the phases (name, fn(PhaseCtx) -> (found, evaluations)) in forked children, at most `workers` at a time (the
    compiler keeps global state, so threads are not an option); C03_SERIAL=1 runs them in this process instead."""
    import pickle
    import tempfile
    import traceback
    fns = dict(phases)
    res = {}
    if os.environ.get("C03_SERIAL") == "1" or not hasattr(os, "fork"):
        for name, fn in phases:
            p = PhaseCtx(ctx)
            res[name] = ("ok", p.calls, p.corr, p.extra, p.samples, fn(p))
    else:
        tmpd = tempfile.mkdtemp(prefix="c03ph")
        pending, running = [n for n in order if n in fns] + [n for n, _ in phases if n not in order], {}
        try:
            while pending or running:
                while pending and len(running) < workers:
                    name = pending.pop(0)
                    out = os.path.join(tmpd, name)
                    sys.stdout.flush()
                    sys.stderr.flush()
                    pid = os.fork()
                    if pid == 0:
                        try:
                            try:
                                p = PhaseCtx(ctx)
                                ret = fns[name](p)
                                payload = ("ok", p.calls, p.corr, p.extra, p.samples, ret)
                            except BaseException:  # noqa
                                payload = ("err", traceback.format_exc())
                            with open(out, "wb") as f:
                                pickle.dump(payload, f)
                            sys.stdout.flush()
                            sys.stderr.flush()
                        finally:
                            os._exit(0)
                    running[pid] = (name, out)
                for pid in list(running):
                    done, _ = os.waitpid(pid, os.WNOHANG)
                    if done:
                        name, out = running.pop(pid)
                        try:
                            with open(out, "rb") as f:
                                res[name] = pickle.load(f)
                        except Exception as e:  # noqa
                            res[name] = ("err", f"phase {name} died without a result: {e}")
                time.sleep(0.05)
        finally:
            import shutil
            shutil.rmtree(tmpd, ignore_errors=True)
    rets, errors = [], []
    for name, _ in phases:
        r = res[name]
        if r[0] != "ok":
            errors.append(f"C03 phase {name} failed:\n{r[1]}")     # raised below, after the other phases were replayed
            continue
        _, calls, corr, extra, samples, ret = r
        for kind, nm, detail, key in calls:
            ctx.violation(kind, nm, detail, key=key)
        for k, v in corr.items():
            o = ctx.corr.get(k)
            if isinstance(o, int) and isinstance(v, int) and not isinstance(o, bool):
                ctx.corr[k] = o + v                       # counters of a phase that was split (glue sweeps)
            elif isinstance(o, list) and isinstance(v, list):
                ctx.corr[k] = sorted(set(o) | set(v))
            elif isinstance(o, dict) and isinstance(v, dict):
                ctx.corr[k] = {kk: o.get(kk, 0) + v.get(kk, 0) for kk in sorted(set(o) | set(v))}
            else:
                ctx.corr[k] = v
        ctx.extra.update(extra)
        ctx.samples.extend(samples)
        rets.append(ret)
    if errors:
        raise RuntimeError("\n".join(errors))
    return rets

def choose_types(ctx, all_tys):
    if ctx.tier == "thorough":
        return all_tys
    rnd = ctx.rng("types")
    must = [(32, True, False), (32, False, False), (17, True, False), (16, True, False), (1, True, False),
            (21, True, True), (16, False, False), (17, False, False), (1, False, False), (31, True, False)]
    rest = [t for t in all_tys if t not in must]
    return must + rnd.sample(rest, 2)


class report_quick:
    """view of a Ctx that answers like the quick tier (to reuse the seeded quick type selection in thorough)"""

    def __init__(self, ctx):
        self.tier = "quick"
        self.rng = ctx.rng


def quick_glue_configs():
    """both pipelines; venom at gas AND O3 (range-based check elimination); legacy unoptimised"""
    return [Config(False, "gas", "prague"), Config(True, "gas", "prague"),
            Config(False, "none", "london"), Config(True, "O3", "cancun")]


def generate_and_build(ctx):
    """regenerate every Gen*.v from the current tree and build (with content-keyed reuse) all chains"""
    t0 = time.time()
    # ---- regenerate templates from the current tree
    gen_err = None
    ltempl, vtempl = [], []
    try:
        text, ltempl, lclamps = X.gen_legacy()
        (COQ / "C03" / "GenLegacy.v").write_text(text)
    except Exception as e:  # noqa
        gen_err = f"legacy export: {type(e).__name__}: {e}"
    try:
        text, vtempl, vclamps = X.gen_venom()
        (COQ / "C03" / "GenVenom.v").write_text(text)
    except Exception as e:  # noqa
        gen_err = (gen_err or "") + f" venom export: {type(e).__name__}: {e}"
    lconv, vconv, vextra = [], [], []
    try:
        text, lconv, _ = X.gen_convert("legacy")
        (COQ / "C03" / "GenConvLegacy.v").write_text(text)
        allowed = {(x[2], x[3]) for x in lconv}
        text, vconv, vextra = X.gen_convert("venom", restrict_to=allowed)
        (COQ / "C03" / "GenConvVenom.v").write_text(text)
    except Exception as e:  # noqa
        gen_err = (gen_err or "") + f" convert export: {type(e).__name__}: {e}"
    lpow, vpow = [], []
    try:
        text, lpow = X.gen_pow("legacy")
        (COQ / "C03" / "GenPowLegacy.v").write_text(text)
        text, vpow = X.gen_pow("venom")
        (COQ / "C03" / "GenPowVenom.v").write_text(text)
    except Exception as e:  # noqa
        gen_err = (gen_err or "") + f" pow export: {type(e).__name__}: {e}"
    luns, vuns = [], []
    try:
        text, luns = X.gen_unsafe("legacy")
        (COQ / "C03" / "GenUnsafeLegacy.v").write_text(text)
        text, vuns = X.gen_unsafe("venom")
        (COQ / "C03" / "GenUnsafeVenom.v").write_text(text)
    except Exception as e:  # noqa
        gen_err = (gen_err or "") + f" unsafe export: {type(e).__name__}: {e}"
    clampfam = None
    try:
        text, clampfam = X.gen_clamps()
        (COQ / "C03" / "GenClamp.v").write_text(text)
    except Exception as e:  # noqa
        gen_err = (gen_err or "") + f" clamp export: {type(e).__name__}: {e}"
    bfam = None
    try:
        text, bl_, bv_ = X.gen_bytes_convert()
        (COQ / "C03" / "GenBytesConv.v").write_text(text)
        bfam = {"legacy": bl_, "venom": bv_}
    except Exception as e:  # noqa
        gen_err = (gen_err or "") + f" bytes-convert export: {type(e).__name__}: {e}"
    bltfam = None
    try:
        text, l_, v_, fl_, fv_ = X.gen_builtins()
        (COQ / "C03" / "GenBuiltins.v").write_text(text)
        bltfam = {"legacy": l_, "venom": v_, "flag_legacy": fl_, "flag_venom": fv_}
    except Exception as e:  # noqa
        gen_err = (gen_err or "") + f" builtins export: {type(e).__name__}: {e}"
    litfam = None
    try:
        # quick: a seeded sample of literal x target type; thorough: the whole cross product (14k cases)
        text, litfam = X.gen_literal_converts(None if ctx.tier == "thorough" else 0.05, ctx.rng("litconv"))
        (COQ / "C03" / "GenLitConv.v").write_text(text)
        crashes = [(a[0], a[4], k, r[1]) for a in litfam for k, r in (("legacy", a[6]), ("venom", a[7])) if r[0] == "crash"]
        if crashes:
            ctx.extra["literal_convert_generator_crashes"] = [str(c) for c in crashes[:10]]
    except Exception as e:  # noqa
        gen_err = (gen_err or "") + f" literal-convert export: {type(e).__name__}: {e}"
    if any(X.CRASHES.get(k) for k in ("legacy", "venom")):
        ctx.extra["convert_generator_crashes"] = {k: v[:10] for k, v in X.CRASHES.items() if v}
    ctx.extra["family_size"] = {"legacy_templates": len(ltempl), "venom_templates": len(vtempl), "numeric_types": 65,
                                "legacy_clamps": 65, "venom_clamps": 65,
                                "legacy_converts": len(lconv), "venom_converts": len(vconv), "word_types": 103,
                                "legacy_pows": len(lpow), "venom_pows": len(vpow),
                                "legacy_unchecked": len(luns), "venom_unchecked": len(vuns)}

    # ---- proofs: static part, then the legacy and venom chains concurrently (content-keyed .vo reuse)
    b0 = ctx.coq_build_cached(STATIC)
    res = {"legacy": {"ok": False, "file": "C03/GenLegacy.v", "failed_lemma": None, "out": gen_err or ""},
           "venom": {"ok": False, "file": "C03/GenVenom.v", "failed_lemma": None, "out": gen_err or ""},
           "convl": {"ok": False, "file": "C03/GenConvLegacy.v", "failed_lemma": None, "out": gen_err or ""},
           "convv": {"ok": False, "file": "C03/GenConvVenom.v", "failed_lemma": None, "out": gen_err or ""},
           "powl": {"ok": False, "file": "C03/GenPowLegacy.v", "failed_lemma": None, "out": gen_err or ""},
           "powv": {"ok": False, "file": "C03/GenPowVenom.v", "failed_lemma": None, "out": gen_err or ""},
           "unsl": {"ok": False, "file": "C03/GenUnsafeLegacy.v", "failed_lemma": None, "out": gen_err or ""},
           "unsv": {"ok": False, "file": "C03/GenUnsafeVenom.v", "failed_lemma": None, "out": gen_err or ""},
           "clamp": {"ok": False, "file": "C03/GenClamp.v", "failed_lemma": None, "out": gen_err or ""},
           "bconv": {"ok": False, "file": "C03/GenBytesConv.v", "failed_lemma": None, "out": gen_err or ""},
           "blt": {"ok": False, "file": "C03/GenBuiltins.v", "failed_lemma": None, "out": gen_err or ""},
           "litc": {"ok": False, "file": "C03/GenLitConv.v", "failed_lemma": None, "out": gen_err or ""}}
    if b0["ok"]:
        ths = []
        if ltempl:
            ths.append(threading.Thread(target=build_chain, args=(ctx, LEGACY, STATIC, res, "legacy")))
        if vtempl:
            ths.append(threading.Thread(target=build_chain, args=(ctx, VENOM, STATIC, res, "venom")))
        if lconv:
            ths.append(threading.Thread(target=build_chain, args=(ctx, CONVL, STATIC, res, "convl")))
        if vconv:
            ths.append(threading.Thread(target=build_chain, args=(ctx, CONVV, STATIC, res, "convv")))
        if lpow:
            ths.append(threading.Thread(target=build_chain, args=(ctx, POWL, STATIC, res, "powl")))
        if vpow:
            ths.append(threading.Thread(target=build_chain, args=(ctx, POWV, STATIC, res, "powv")))
        if luns:
            ths.append(threading.Thread(target=build_chain, args=(ctx, UNSL, STATIC, res, "unsl")))
        if vuns:
            ths.append(threading.Thread(target=build_chain, args=(ctx, UNSV, STATIC, res, "unsv")))
        if clampfam:
            ths.append(threading.Thread(target=build_chain, args=(ctx, CLAMP, STATIC, res, "clamp")))
        if bfam:
            ths.append(threading.Thread(target=build_chain, args=(ctx, BCONV, STATIC, res, "bconv")))
        if bltfam:
            ths.append(threading.Thread(target=build_chain, args=(ctx, BLT, STATIC, res, "blt")))
        if litfam:
            ths.append(threading.Thread(target=build_chain, args=(ctx, LITC, STATIC, res, "litc")))
        for t in ths:
            t.start()
        for t in ths:
            t.join()
    bl, bv, bcl, bcv, bpl, bpv = res["legacy"], res["venom"], res["convl"], res["convv"], res["powl"], res["powv"]
    bul, buv, bclamp, bbconv, bblt, blitc = res["unsl"], res["unsv"], res["clamp"], res["bconv"], res["blt"], res["litc"]
    ctx.log(f"coq done {time.time()-t0:.0f}s static={b0['ok']} legacy={bl['ok']} venom={bv['ok']} "
            f"convert-legacy={bcl['ok']} convert-venom={bcv['ok']} pow-legacy={bpl['ok']} pow-venom={bpv['ok']} "
            f"unchecked-legacy={bul['ok']} unchecked-venom={buv['ok']} clamps={bclamp['ok']} bytes-convert={bbconv['ok']} builtins={bblt['ok']} literal-convert={blitc['ok']}")
    if all(b["ok"] for b in (bl, bv, bcl, bcv, bpl, bpv, bul, buv, bclamp, bbconv, bblt, blitc)):
        ctx.extra["syntactic_matches"] = (len(ltempl) + len(vtempl) + 130 + len(lconv) + len(vconv) + len(lpow) + len(vpow)
                                          + len(luns) + len(vuns))

    return dict(gen_err=gen_err, ltempl=ltempl, vtempl=vtempl, lconv=lconv, vconv=vconv, vextra=vextra, lpow=lpow, vpow=vpow,
                luns=luns, vuns=vuns, clampfam=clampfam, b0=b0, bl=bl, bv=bv, bcl=bcl, bcv=bcv, bpl=bpl, bpv=bpv,
                bul=bul, buv=buv, bclamp=bclamp, bfam=bfam, bbconv=bbconv, bltfam=bltfam, bblt=bblt, litfam=litfam, blitc=blitc,
                bx=BX.generate_and_build(ctx, STATIC, b0))    # as_wei_value / floor / ceil / min / max (vlib/c03_bx.py)


def prebuild(ctx):
    """Called by setup_cmd: generate and compile once so that the checks reuse byte-identical inputs."""
    generate_and_build(ctx)


def replay(ctx):
    """--replay <file>: re-execute exactly the recorded failing input of a glue-type finding (source + configuration +
    calldata + expected outcome) and report whether it still fails."""
    import json
    rec = json.loads(Path(ctx.replay).read_text())
    det = rec.get("detail", {})
    if not all(k in det for k in ("source", "config", "calldata", "expected")) or det.get("calldata") in (None, "?"):
        ctx.log("replay: this record has no (source, config, calldata); running the full check instead")
        return False
    by_name = {c.name: c for c in configs("thorough") + configs("quick") + quick_glue_configs()}
    cfg = by_name.get(det["config"].split(" ")[0])
    if cfg is None:
        ctx.log(f"replay: unknown configuration {det['config']}")
        return False
    out = compile_src(det["source"], cfg, formats=("bytecode",))
    chain = Chain(cfg.evm)
    addr = chain.deploy(bytes.fromhex(out["bytecode"][2:]))
    got = call_word(chain, addr, bytes.fromhex(det["calldata"]))
    obs = "revert" if got == -1 else hex(got)
    exp = det["expected"]
    still = not (obs == exp or (exp.startswith("compile-time") and got == -1))
    ctx.log(f"replay {rec.get('name')}: expected {exp}, observed {obs} -> {'STILL FAILING' if still else 'passes now'}")
    if still:
        ctx.violation("failing-input", rec.get("name", "replayed finding"), dict(det, observed=obs), key=rec.get("key"))
    ctx.corr["evaluations"] = 1
    ctx.corr["distinct_nontrivial"] = 1
    ctx.corr["rule"] = "single replayed case"
    return True


def run(ctx):
    t0 = time.time()
    if getattr(ctx, "replay", None) and replay(ctx):
        return
    g = generate_and_build(ctx)
    gen_err, ltempl, vtempl, lconv, vconv, vextra, lpow, vpow = (g[k] for k in
        ("gen_err", "ltempl", "vtempl", "lconv", "vconv", "vextra", "lpow", "vpow"))
    b0, bl, bv, bcl, bcv, bpl, bpv = (g[k] for k in ("b0", "bl", "bv", "bcl", "bcv", "bpl", "bpv"))
    luns, vuns, bul, buv = g["luns"], g["vuns"], g["bul"], g["buv"]
    clampfam, bclamp = g["clampfam"], g["bclamp"]
    bfam, bbconv = g["bfam"], g["bbconv"]
    bltfam, bblt = g["bltfam"], g["bblt"]
    litfam, blitc = g["litfam"], g["blitc"]

    # ---- correspondence / search
    # ---- correspondence / search
    all_tys = [(k, s, d) for k, s, d, _ in X.num_types()]
    tys = choose_types(ctx, all_tys)
    def ph_templates(ctx):
        found, total = False, 0
        for kind, templ, b in (("legacy", ltempl, bl), ("venom", vtempl, bv)):
            if not templ or not b0["ok"]:
                continue
            # quick tier: a seeded subset of types / literal shapes, unless a proof or tie is broken
            # (then Search over the whole family)
            if b["ok"]:
                only = set(tys[:5] + tys[-1:]) if ctx.tier == "quick" else None
                frac = 0.12 if ctx.tier == "quick" else 0.5
                force = ()
            else:
                # Search: the templates that differ from the proved model (all of them if Coq cannot tell), plus the
                # usual sample
                bad = mismatching_templates(kind)
                if bad is None:
                    only, frac, force = None, (0.3 if ctx.tier == "quick" else None), ()
                else:
                    step = max(1, len(bad) // 300)
                    force = bad[::step]
                    only = set(tys[:6] + tys[-2:]) if ctx.tier == "quick" else None
                    frac = 0.2 if ctx.tier == "quick" else 0.5
                ctx.log(f"search {kind}: {None if bad is None else len(bad)} templates differ from the model")
            n, failing, bad_model = template_differential(ctx, templ, kind, only, frac, force)
            total += n
            for op, ty, shape, c, e, g, node in failing[:5]:
                found = True
                tstr = str(node) if kind == "legacy" else "; ".join(str(i).strip() for i in node[0]) + f" -> {node[1]}"
                ctx.violation(
                    "failing-input", f"{kind} {OPSYM[op]} template for {tyname(ty)} ({shape}) is not exact-or-revert",
                    {"generator": f"{'vyper.codegen.arithmetic / expr.py' if kind == 'legacy' else 'vyper.codegen_venom.arithmetic'}"
                                  f", op {op}, type {tyname(ty)}, operand shape {shape} (VV: variables x, y; LV: x literal; VL: y literal)",
                     "template": tstr, "x": str(c[0]), "y": str(c[1]),
                     "expected": "revert" if e == -1 else hex(e),
                     "observed_on_evm": "revert" if g == -1 else (hex(g) if g is not None else "?"),
                     "how": "template compiled by the real back end (compile_ir / venom -O none) + assembler, executed on pyrevm"},
                    key=f"{kind}-template:{op}:{tyname(ty)}:{shape}")
            for op, ty, shape, c, l, g in bad_model[:5]:
                if not found:
                    ctx.violation("correspondence-broken", f"Coq evaluator disagrees with the real back end + EVM on an exported {kind} template",
                                  {"op": op, "type": tyname(ty), "shape": shape, "x": str(c[0]), "y": str(c[1]), "coq": str(l), "evm": str(g)})
        ctx.log(f"template differential done {time.time()-t0:.0f}s")

        return found, total

    def ph_pow(ctx):
        found, total = False, 0
        # ---- safe_pow templates
        for kind, templ, b in (("legacy", lpow, bpl), ("venom", vpow, bpv)):
            if not templ or not b0["ok"]:
                continue
            if b["ok"]:
                frac, force = (0.03 if ctx.tier == "quick" else 0.5), ()
            else:
                bad = mismatching_pows(kind)
                ctx.log(f"search pow {kind}: {None if bad is None else len(bad)} templates differ from the model / have a wrong bound")
                frac, force = (0.3, ()) if bad is None else (0.06, bad[::max(1, len(bad) // 300)])
            n, failing, bad_model = pow_differential(ctx, templ, kind, frac, force)
            total += n
            for kd, ty, lit, c, e, g, node in failing[:5]:
                found = True
                tstr = str(node) if kind == "legacy" else "; ".join(str(i).strip() for i in node[0]) + f" -> {node[1]}"
                what = f"{lit} ** y" if kd == 0 else f"x ** {lit}"
                ctx.violation(
                    "failing-input", f"{kind} safe_pow template {what} for {tyname(ty)} is not exact-or-revert",
                    {"generator": ("vyper.codegen.arithmetic.safe_pow" if kind == "legacy" else "vyper.codegen_venom.arithmetic.safe_pow")
                                  + f", type {tyname(ty)}, {'literal base' if kd == 0 else 'literal exponent'} {lit}",
                     "template": " ".join(tstr.split()), "x": str(c[0]), "y": str(c[1]),
                     "expected": "revert" if e == -1 else hex(e),
                     "observed_on_evm": "revert" if g == -1 else (hex(g) if g is not None else "?"),
                     "how": "template compiled by the real back end + assembler, executed on pyrevm"},
                    key=f"{kind}-pow:{tyname(ty)}:{'b' if kd == 0 else 'e'}{lit}")
            for kd, ty, lit, c, l, g in bad_model[:5]:
                if not found:
                    ctx.violation("correspondence-broken", f"Coq evaluator disagrees with the real back end + EVM on an exported {kind} pow template",
                                  {"type": tyname(ty), "literal": str(lit), "x": str(c[0]), "y": str(c[1]), "coq": str(l), "evm": str(g)})
        ctx.log(f"pow differential done {time.time()-t0:.0f}s")

        return found, total

    def ph_unchecked(ctx):
        found, total = False, 0
        # ---- unchecked operations (must wrap exactly)
        for kind, templ, b in (("legacy", luns, bul), ("venom", vuns, buv)):
            if not templ or not b0["ok"]:
                continue
            if b["ok"]:
                frac, force = (0.02 if ctx.tier == "quick" else 0.5), ()
            else:
                bad = mismatching_unsafes(kind)
                ctx.log(f"search unchecked {kind}: {None if bad is None else len(bad)} templates differ from the model")
                frac, force = (0.5, ()) if bad is None else (0.08, bad[::max(1, len(bad) // 200)])
            n, failing, bad_model = unsafe_differential(ctx, templ, kind, frac, force)
            total += n
            for uop, ty, c, e, g_, node in failing[:5]:
                found = True
                tstr = str(node) if kind == "legacy" else "; ".join(str(i).strip() for i in node[0]) + f" -> {node[1]}"
                ctx.violation(
                    "failing-input", f"{kind} template of {UNSAFE_SRC[uop]} for {tyname(ty)} does not wrap exactly modulo 2**bits",
                    {"generator": f"{kind} front end, {UNSAFE_SRC[uop]} on {tyname(ty)} operands in variables x, y",
                     "template": " ".join(tstr.split()), "x": str(c[0]), "y": str(c[1]), "expected": hex(e),
                     "observed_on_evm": "revert" if g_ == -1 else (hex(g_) if g_ is not None else "?"),
                     "how": "template compiled by the real back end + assembler, executed on pyrevm"},
                    key=f"{kind}-unchecked:{uop}:{tyname(ty)}")
            for uop, ty, c, l, g_ in bad_model[:5]:
                if not found:
                    ctx.violation("correspondence-broken", f"Coq evaluator disagrees with the real back end + EVM on an exported {kind} unchecked-op template",
                                  {"op": uop, "type": tyname(ty), "x": str(c[0]), "y": str(c[1]), "coq": str(l), "evm": str(g_)})
        n, ufail = unsafe_glue(ctx, [(32, True, False), (32, False, False), (1, True, False), (1, False, False)] if ctx.tier == "quick" else tys, quick_glue_configs() if ctx.tier == "quick" else configs("quick"))
        total += n
        for f in ufail[:8]:
            found = True
            ctx.violation("failing-input", f"{f['operation']} on {f['type']} under {f['config']} is not exact / does not wrap exactly", f,
                          key=f"unchecked-glue:{f['operation']}:{f['type']}:{f['config']}")
        ctx.log(f"unchecked-ops differentials done {time.time()-t0:.0f}s")

        return found, total

    def ph_clamps(ctx):
        found, total = False, 0
        # ---- clamps of all word types (three implementations) and the venom unary minus
        if clampfam and b0["ok"]:
            n, failing, bad_model = clamp_differential(ctx, clampfam, (0.15 if ctx.tier == "quick" else None) if bclamp["ok"] else None)
            total += n
            for name, ki, w, e, g_, node in failing[:5]:
                found = True
                tstr = str(node) if name == "legacy" else "; ".join(str(i).strip() for i in node[0]) + f" -> {node[1]}"
                ctx.violation(
                    "failing-input", f"{name} clamp_basetype for {c_src_name(ki)} does not accept exactly the canonical words",
                    {"generator": {"legacy": "vyper.codegen.core.clamp_basetype", "venom_arith": "vyper.codegen_venom.arithmetic.clamp_basetype",
                                   "venom_abi": "vyper.codegen_venom.abi.abi_decoder.clamp_basetype"}[name] + f" on type {c_src_name(ki)}",
                     "template": " ".join(tstr.split()), "input_word": hex(w),
                     "expected": "revert" if e == -1 else hex(e), "observed_on_evm": "revert" if g_ == -1 else hex(g_),
                     "how": "template compiled by the real back end + assembler, executed on pyrevm"},
                    key=f"clamp:{name}:{c_src_name(ki)}")
            for name, ki, w, l, g_ in bad_model[:5]:
                if not found:
                    ctx.violation("correspondence-broken", f"Coq evaluator disagrees with the real back end + EVM on an exported {name} clamp",
                                  {"type": c_src_name(ki), "word": hex(w), "coq": str(l), "evm": str(g_)})
            n, failing = usub_differential(ctx, clampfam)
            total += n
            for ty, x, e, g_, node in failing[:5]:
                found = True
                ctx.violation("failing-input", f"venom unary minus template for {tyname(ty)} is not exact-or-revert",
                              {"generator": f"vyper.codegen_venom.expr.Expr.lower_UnaryOp (USub), type {tyname(ty)}",
                               "template": "; ".join(str(i).strip() for i in node[0]) + f" -> {node[1]}", "x": str(x),
                               "expected": "revert" if e == -1 else hex(e), "observed_on_evm": "revert" if g_ == -1 else hex(g_)},
                              key=f"venom-usub:{tyname(ty)}")
        ctx.log(f"clamp differentials done {time.time()-t0:.0f}s")

        return found, total

    def ph_bytesconv(ctx):
        found, total = False, 0
        # ---- bytestring -> word conversion templates (memory operand)
        if bfam and b0["ok"]:
            if bbconv["ok"]:
                frac, force = (0.01 if ctx.tier == "quick" else 0.15), None
            else:
                force = mismatching_bconverts()
                ctx.log(f"search bytes-convert: {None if force is None else len(force)} templates differ from the model")
                frac = 0.1 if force is None else 0.012
                if force and len(force) > 300:
                    force = set(sorted(force)[::len(force) // 300 + 1])
            n, failing, bad_model = bytes_template_differential(ctx, bfam, frac, force)
            total += n
            for kind, is_str, n_, ko, c, e, g_, node in failing[:5]:
                found = True
                tstr = str(node) if kind == "legacy" else "; ".join(str(i).strip() for i in node[0]) + f" -> {node[1]}"
                ctx.violation(
                    "failing-input", f"{kind} convert template {'String' if is_str else 'Bytes'}[{n_}] -> {c_src_name(ko)} is not exact-or-revert",
                    {"generator": ("vyper.builtins._convert.convert" if kind == "legacy" else "vyper.codegen_venom.builtins.convert.lower_convert")
                                  + f" on a memory bytestring operand, target {c_src_name(ko)}",
                     "template": " ".join(tstr.split()), "length": c[0], "first_data_word": hex(c[1]),
                     "expected": "revert" if e == -1 else hex(e), "observed_on_evm": "revert" if g_ == -1 else hex(g_),
                     "how": "length / data word stored at 0x100 / 0x120, template compiled by the real back end, executed on pyrevm"},
                    key=f"{kind}-bytes-convert:{n_}->{c_src_name(ko)}")
            for kind, is_str, n_, ko, c, l, g_ in bad_model[:5]:
                if not found:
                    ctx.violation("correspondence-broken", f"Coq evaluator disagrees with the real back end + EVM on an exported {kind} bytes-convert template",
                                  {"convert": f"Bytes[{n_}] -> {c_src_name(ko)}", "length": c[0], "data": hex(c[1]), "coq": str(l), "evm": str(g_)})
        if empty_bytes_signed_probe(ctx) and not ctx.is_known("convert-empty-bytes-signed-stale"):
            found = True
        ctx.log(f"bytes-convert differentials done {time.time()-t0:.0f}s")

        return found, total

    def ph_convert(ctx):
        found, total = False, 0
        # ---- conversions: template differential (+ Search), glue probes, venom-only pairs
        for kind, templ, b in (("legacy", lconv, bcl), ("venom", vconv, bcv)):
            if not templ or not b0["ok"]:
                continue
            if b["ok"]:
                frac, force = (0.01 if ctx.tier == "quick" else 0.15), ()
            else:
                bad = mismatching_converts(kind)
                ctx.log(f"search convert {kind}: {None if bad is None else len(bad)} templates differ from the model")
                if bad is None:
                    frac, force = 0.1, ()
                else:
                    frac, force = 0.02, bad[::max(1, len(bad) // 400)]
            n, failing, bad_model = convert_differential(ctx, templ, kind, frac, force)
            total += n
            for ki, ko, v, e, g, node in failing[:5]:
                found = True
                tstr = str(node) if kind == "legacy" else "; ".join(str(i).strip() for i in node[0]) + f" -> {node[1]}"
                ctx.violation(
                    "failing-input", f"{kind} convert template {c_src_name(ki)} -> {c_src_name(ko)} is not exact-or-revert",
                    {"generator": ("vyper.builtins._convert.convert" if kind == "legacy" else "vyper.codegen_venom.builtins.convert.lower_convert")
                                  + f" on a symbolic operand of type {c_src_name(ki)}, target {c_src_name(ko)}",
                     "template": " ".join(tstr.split()), "value": str(v), "input_word": hex(c_enc(ki, v)) if isinstance(v, int) else "?",
                     "expected": "revert" if e == -1 else hex(e),
                     "observed_on_evm": "revert" if g == -1 else (hex(g) if g is not None else "?"),
                     "how": "template compiled by the real back end + assembler, executed on pyrevm"},
                    key=f"{kind}-convert:{c_src_name(ki)}->{c_src_name(ko)}")
            for ki, ko, v, l, g in bad_model[:5]:
                if not found:
                    ctx.violation("correspondence-broken", f"Coq evaluator disagrees with the real back end + EVM on an exported {kind} convert template",
                                  {"convert": f"{c_src_name(ki)} -> {c_src_name(ko)}", "value": str(v), "coq": str(l), "evm": str(g)})
        if lconv:
            cterm = {}
            for ci, co, ki, ko, _ in lconv:
                cterm[ki] = ci
                cterm[ko] = co
            pairs_by_in = choose_convert_pairs(ctx, [(x[2], x[3]) for x in lconv], ctx.tier)
            n, cfail = convert_glue(ctx, pairs_by_in, cterm, quick_glue_configs() if ctx.tier == "quick" else configs("quick"))
            total += n
            for f in cfail[:8]:
                found = True
                ctx.violation("failing-input", f"convert {f['convert']} under {f['config']} is not exact-or-revert", f,
                              key=f"convert-glue:{f['convert']}:{f['config']}")
            n, bfail = bytes_convert_glue(ctx, cterm, quick_glue_configs() if ctx.tier == "quick" else configs("quick"))
            total += n
            for f in bfail[:8]:
                found = True
                ctx.violation("failing-input", f"convert {f['convert']} under {f['config']} is not exact-or-revert", f,
                              key=f"convert-glue:{f['convert']}:{f['config']}")
        witness = venom_extra_conversions(ctx, vextra)
        if witness:
            found = True
        dis = convert_acceptance_differential(ctx)
        if vextra and not witness and not dis:
            # the two convert lowerings disagree on which pairs they accept, but no sampled source program shows it
            ctx.violation("correspondence-broken", "venom lower_convert accepts type pairs that _convert.convert rejects",
                          {"count": len(vextra), "examples": sorted({f"{c_src_name(x[2])}->{c_src_name(x[3])}" for x in vextra})[:40]})
        venom_only = [d for d in dis if d[2][1] == "compiles"]
        if venom_only and not ctx.is_known("venom-convert-accepts:flag->bytes4"):
            found = True
        if venom_only:
            # same root cause as the truncation witness above: no input-type validation in the venom convert lowering
            ctx.violation("failing-input", "venom pipeline compiles convert() pairs that the legacy pipeline rejects",
                          {"pairs": [f"{a} -> {b}: legacy {r[0]}, venom {r[1]}" for a, b, r, _ in venom_only[:30]],
                           "source": venom_only[0][3], "config": "venom-gas-prague vs legacy-gas-prague",
                           "expected": "the same accept/reject decision in both pipelines", "observed": "venom compiles it"},
                          key="venom-convert-accepts:flag->bytes4")
        for a, b, r, src in [d for d in dis if d[2][0] == "compiles"][:3]:
            found = True
            ctx.violation("failing-input", f"legacy pipeline compiles convert({a} -> {b}) but venom rejects it",
                          {"source": src, "legacy": r[0], "venom": r[1], "expected": "the same accept/reject decision in both pipelines"},
                          key=f"convert-accept-disagree:{a}->{b}")
        ctx.log(f"convert differentials done {time.time()-t0:.0f}s")

        return found, total

    def glue_part(part):
        """thorough runs the three glue sweeps as separate phases (they dominate the wall time)"""
        def ph(ctx):
            found, total = False, 0
            if part == 0 and ctx.tier == "quick":
                n, gfail = glue_differential(ctx, tys, quick_glue_configs(), 9)
            elif part == 0:
                # all 65 types under the four most different pipelines
                n, gfail = glue_differential(ctx, tys, quick_glue_configs(), 12)
            elif part == 1:
                # the boundary types under the covering configuration set (with literal / pow / guard probes)
                qt = choose_types(report_quick(ctx), all_tys)
                n, gfail = glue_differential(ctx, qt, configs("quick"), 9, tag="q")
            else:
                # 5 types under every configuration (base probes only)
                deep = [(32, False, False), (32, True, False), (16, True, False), (17, True, False), (21, True, True)]
                n, gfail = glue_differential(ctx, deep, configs("thorough"), 9, with_lits=False, tag="d")
            total += n
            for f in gfail[:8]:
                found = True
                ctx.violation("failing-input", f"{f['type']} {f['function']} under {f['config']} is not exact-or-revert", f,
                              key=f"glue:{f['function']}:{f['type']}:{f['config']}")
            ctx.log(f"glue differential {part} done {time.time()-t0:.0f}s")
            return found, total
        return ph

    def ph_builtins(ctx):
        found, total = False, 0
        # ---- shift / abs / addmod / mulmod / pow_mod256 / ~ templates, flag conversions for every member count
        if bltfam and b0["ok"]:
            if bblt["ok"]:
                frac, force = (0.025 if ctx.tier == "quick" else 0.5), None
            else:
                force = mismatching_builtins()
                ctx.log(f"search builtins: {None if force is None else len(force)} templates differ from the model")
                frac = 0.3 if force is None else 0.03
            n, failing, bad_model = builtin_template_differential(ctx, bltfam, frac, force)
            total += n
            for kind, key, lits, c, e, g_, node in failing[:5]:
                found = True
                tstr = str(node) if kind == "legacy" else "; ".join(str(i).strip() for i in node[0]) + f" -> {node[1]}"
                ctx.violation(
                    "failing-input", f"{kind} template of builtin {key} (operands {lits}) is not exact-or-revert",
                    {"generator": f"{kind} front end, builtin {key}; operands: None = variable, else the literal",
                     "template": " ".join(tstr.split()), "operands": [str(v) for v in c],
                     "expected": "revert" if e == -1 else hex(e), "observed_on_evm": "revert" if g_ == -1 else hex(g_),
                     "how": "template compiled by the real back end + assembler, executed on pyrevm"},
                    key=f"{kind}-builtin:{key[0]}:{key[1:]}:{lits}")
            for kind, key, lits, c, l, g_ in bad_model[:5]:
                if not found:
                    ctx.violation("correspondence-broken", f"Coq evaluator disagrees with the real back end + EVM on an exported {kind} builtin template",
                                  {"builtin": str(key), "operands": [str(v) for v in c], "coq": str(l), "evm": str(g_)})
            for kind in ("legacy", "venom"):
                templ = bltfam["flag_" + kind]
                if bblt["ok"]:
                    frac, force = (0.015 if ctx.tier == "quick" else 0.3), ()
                else:
                    bad = mismatching_flag_converts(kind)
                    ctx.log(f"search flag converts {kind}: {None if bad is None else len(bad)} templates differ from the model")
                    frac, force = (0.2, ()) if bad is None else (0.02, bad[::max(1, len(bad) // 100)])
                n, failing, bad_model = convert_differential(ctx, templ, kind, frac, force, tag="flag")
                total += n
                for ki, ko, v, e, g_, node in failing[:5]:
                    found = True
                    tstr = str(node) if kind == "legacy" else "; ".join(str(i).strip() for i in node[0]) + f" -> {node[1]}"
                    ctx.violation(
                        "failing-input", f"{kind} convert template {c_src_name(ki)} -> {c_src_name(ko)} is not exact-or-revert",
                        {"generator": f"{kind} convert on a symbolic operand of type {c_src_name(ki)}, target {c_src_name(ko)}",
                         "template": " ".join(tstr.split()), "value": str(v), "expected": "revert" if e == -1 else hex(e),
                         "observed_on_evm": "revert" if g_ == -1 else (hex(g_) if g_ is not None else "?")},
                        key=f"{kind}-convert:{c_src_name(ki)}->{c_src_name(ko)}")
                for ki, ko, v, l, g_ in bad_model[:5]:
                    if not found:
                        ctx.violation("correspondence-broken", f"Coq evaluator disagrees with the real back end + EVM on an exported {kind} flag convert template",
                                      {"convert": f"{c_src_name(ki)} -> {c_src_name(ko)}", "value": str(v), "coq": str(l), "evm": str(g_)})
        n, sfail, defect = shift_glue(ctx, quick_glue_configs() if ctx.tier == "quick" else configs("quick"))
        total += n
        for f in sfail[:8]:
            found = True
            ctx.violation("failing-input", f"shift probe {f['function']} under {f['config']} is not exact", f,
                          key=f"shift-glue:{f['function']}:{f['config']}")
        if defect:
            if not ctx.is_known("shift-builtin-unsigned-amount-negative"):
                found = True
            ctx.violation("failing-input", "shift(x, n) with n: uint256 >= 2**255 shifts right instead of returning 0", defect,
                          key="shift-builtin-unsigned-amount-negative")
        if litfam:
            n, lfail = literal_convert_glue(ctx, litfam, blitc["ok"], quick_glue_configs()[:2] if ctx.tier == "quick" else quick_glue_configs())
            total += n
            for f in lfail[:8]:
                found = True
                ctx.violation("failing-input", f"convert of the literal {f['convert']} under {f['config']} is not exact-or-revert", f,
                              key=f"literal-convert:{f['convert']}:{f['config']}")
        ctx.log(f"builtin differentials done {time.time()-t0:.0f}s")
        return found, total

    # independent phases, run in forked children (longest first); their violations and counters are replayed in the
    # order below, so the report does not depend on scheduling
    phases = [("templates", ph_templates), ("pow", ph_pow), ("unchecked", ph_unchecked), ("clamps", ph_clamps),
              ("bytesconv", ph_bytesconv), ("builtins", ph_builtins), ("convert", ph_convert), ("glue", glue_part(0))]
    phases.append(("bx", BX.phase(g["bx"], quick_glue_configs(), configs("quick"))))
    if ctx.tier != "quick":
        phases += [("glue1", glue_part(1)), ("glue2", glue_part(2))]
    rets = run_phases(ctx, phases, order=("glue", "glue1", "glue2", "unchecked", "bytesconv", "convert", "builtins", "bx", "templates", "pow",
                                          "clamps"))
    found = any(r[0] for r in rets)
    total = sum(r[1] for r in rets)
    ctx.log(f"differentials done {time.time()-t0:.0f}s")

    # ---- verdicts for broken proofs / ties
    if gen_err and not found:
        ctx.violation("translator-rejected", "template export failed: " + gen_err, {"error": gen_err})
    for b, what in ((b0, "static"), (bl, "legacy"), (bv, "venom"), (bcl, "convert-legacy"), (bcv, "convert-venom"),
                    (bpl, "pow-legacy"), (bpv, "pow-venom"), (bul, "unchecked-legacy"), (buv, "unchecked-venom"), (bclamp, "clamps"), (bbconv, "bytes-convert"), (bblt, "builtins"), (blitc, "literal-convert")):
        if not b["ok"] and not found and not (gen_err and what != "static"):
            ctx.violation("theorem-broken", f"{b.get('failed_lemma')} in {b.get('file')} ({what})",
                          {"theorem": b.get("failed_lemma"), "file": b.get("file"), "coq_output": (b.get("out") or "")[-1500:]})

    BX.verdict(ctx, g["bx"], found)
    ctx.corr["evaluations"] = total
    ctx.corr["distinct_nontrivial"] = total
    ctx.corr["rule"] = ("distinct (template or probe function, configuration, operand tuple) executions on pyrevm; operands from "
                        "the per-type boundary grid (squared for two-variable shapes), every case is a distinct input")
    ctx.samples.append({"int8 mul": [-128, -1], "expected": "revert"})
    ctx.samples.append({"int256 floordiv": [str(-2**255), -1], "expected": "revert"})
    ctx.trusted += ["Coq 8.16.1 kernel + vm_compute", "tools/vlib/c03_export.py (IRnode / Venom instruction -> Coq term)",
                    "coq/Base/Word256.v as EVM word semantics (tied to pyrevm by vlib.wordtie in C14 and in C03 thorough)",
                    "pyrevm as EVM reference"]
    ctx.assumptions += ["operands are canonical words of in-range values (guaranteed by ABI/storage clamps: C05)",
                        "literal-operand templates: tied for the literal set {MIN, -1, 0, 1, 7, MAX} per type "
                        "(covers every literal-dependent branch); theorems parametric in the literal"]
    if ctx.tier == "thorough":
        from vlib import wordtie
        wordtie.run(ctx)
