"""C03: arithmetic and conversion are exact or revert.

O-tie: the real code generators (both front ends) are run on symbolic operands for the whole numeric type
family, their output exported as Coq terms, and tied by kernel-checked syntactic equality to parametric
template models whose exactness w.r.t. the mathematical spec is proved for all operand values.
H-ties: (1) every exported legacy template is compiled by the real compile_ir + assembler and executed on
pyrevm against the Coq evaluator and the Coq spec; (2) glue differential: probe contracts (one operation per
external function) through the full compiler under several configurations vs the Coq spec."""
import math
import time

from vlib import c03_export as X
from vlib import coqrun
from vlib.common import COQ
from vlib.configs import configs, core_configs, compile_src
from vlib.evm import Chain

LEVEL = "proof"
META = {
    "category": "proof",
    "text": "Every checked-arithmetic template (+ - * / // % unary-minus, range clamps) that the legacy and Venom code "
            "generators emit for all 64 integer types and decimal is proved (Coq, all operand values) to return the "
            "exact mathematical result when representable and to revert otherwise; the templates are re-exported "
            "from /repo on every run and tied to the proved parametric models by kernel-checked equality over the "
            "complete type family. The rest of the pipeline (ABI decode, optimiser passes, back ends) is covered by a "
            "differential of probe contracts against the Coq spec under several configurations.",
    "level_note": "Trusted: Coq kernel + vm_compute; the exporter tools/vlib/c03_export.py (IRnode/Venom instruction -> "
                  "Coq term; validated per run by executing the exported legacy templates through the real "
                  "compile_ir+assembler on pyrevm against the Coq evaluator); Word256.v (EVM word semantics, tied to "
                  "pyrevm by vlib.wordtie). Proved for operands held in variables (var/var shape); literal-operand "
                  "special cases, pow and convert() are covered by the glue differential only. Optimiser passes that "
                  "later rewrite/delete checks are covered by the glue differential only.",
    "technique": "Coq proof over exported code-generator templates (O-tie) + differential correspondence",
}

# static part (independent of /repo): models, word lemmas, the parametric exactness theorems
STATIC = ["C03/LIR.v", "C03/VSL.v", "C03/ArithSpec.v", "C03/WordArith.v", "C03/TypeLemmas.v", "C03/ArithModel.v",
          "C03/TieBase.v", "C03/LegacyExact.v", "C03/VenomExact.v"]
# regenerated templates + the ties + the property theorems about the REAL templates
LEGACY = ["C03/GenLegacy.v", "C03/TieLegacy.v", "C03/PropsLegacy.v"]
VENOM = ["C03/GenVenom.v", "C03/TieVenom.v", "C03/PropsVenom.v"]

W = 2**256
OPSYM = {"AAdd": "+", "ASub": "-", "AMul": "*", "ADiv": "//", "AMod": "%", "AUSub": "-"}


# ------------------------------------------------------------------ helpers
from vlib.c03_lib import (bounds, call_word, compare_rows, ir_snippet_code, run_code, type_grid, tyname,  # noqa: E402
                          venom_snippet_code, word)


def zlist(xs):
    return coqrun.zlist(xs)


COQ_PRELUDE = """From Verif Require Import Base.Word256 C03.LIR C03.VSL C03.ArithSpec.
Definition oc (o : outcome) : Z := match o with Val v => v | Revert => -1 | Stuck => -2 | Unit => -3 end.
Definition prs (G : list Z) (unary : bool) : list (Z * Z) := if unary then map (fun x => (x, 0)) G else list_prod G G.
Definition spec_row (T : nty) (op : aop) (G : list Z) (unary : bool) : list Z :=
  map (fun p => oc (enc_out (arith_spec T op (fst p) (snd p)))) (prs G unary).
"""


def pairs(g, unary):
    return [(x, 0) for x in g] if unary else [(x, y) for x in g for y in g]


def template_differential(ctx, templates, gen_compiled, kind, only_types=None):
    """exported templates: real back end on EVM  vs  Coq evaluator  vs  Coq arith_spec, on the boundary grid.
    Doubles as the Search for a broken tie/proof (evaluates whatever the generators emit NOW)."""
    rnd = ctx.rng(kind + "grid")
    size = 11 if ctx.tier == "quick" else 14
    idx = [j for j, (op, ty, n) in enumerate(templates) if only_types is None or ty in only_types]
    grids = {}
    for j in idx:
        ty = templates[j][1]
        if ty not in grids:
            grids[ty] = type_grid(ty, rnd, size)
    tys = list(grids)
    imports = COQ_PRELUDE
    for i, ty in enumerate(tys):
        imports += f"Definition G{i} := {zlist(grids[ty])}.\n"
    imports += ("Definition lev_row (t : lir) (G : list Z) (unary : bool) : list Z :=\n"
                "  map (fun p => oc (leval (env2 (fst p) (snd p)) t)) (prs G unary).\n"
                "Definition vev_row (t : vtemplate) (G : list Z) (unary : bool) : list Z :=\n"
                "  map (fun p => oc (vrun [(\"%2\"%string, enc (snd p)); (\"%1\"%string, enc (fst p))] t)) (prs G unary).\n")
    chain = Chain("cancun")
    rows, meta = [], []
    n_eval = 0
    for j in idx:
        op, ty, n = templates[j]
        un = "true" if op == "AUSub" else "false"
        gi = tys.index(ty)
        cs = pairs(grids[ty], op == "AUSub")
        code = ir_snippet_code(n) if kind == "legacy" else venom_snippet_code(n)
        obs = run_code(chain, code, cs)
        n_eval += len(cs)
        rows.append({"spec": f"spec_row {X.nty(*ty)} {op} G{gi} {un}",
                     "model": (f"lev_row {X.lir_term(n)} G{gi} {un}" if kind == "legacy"
                               else f"vev_row {X.vtemplate_term(*n)} G{gi} {un}"), "obs": obs})
        meta.append((op, ty, n, cs, obs))
    res = compare_rows(imports, rows, "c03" + kind)
    bad_model, failing = [], []
    for (op, ty, n, cs, obs), (sm, mm) in zip(meta, res):
        for i, e in sm[:1]:
            c = cs[i] if 0 <= i < len(cs) else ("?", "?")
            failing.append((op, ty, c, e, obs[i] if 0 <= i < len(obs) else None, n))
        for i, e in mm[:1]:
            c = cs[i] if 0 <= i < len(cs) else ("?", "?")
            bad_model.append((op, ty, c, e, obs[i] if 0 <= i < len(obs) else None))
    ctx.corr[kind + "_template_cases"] = n_eval
    return n_eval, failing, bad_model


# ------------------------------------------------------------------ (2) glue differential
def probe_source(ty):
    t = tyname(ty)
    k, s, d = ty
    src = []
    for name, sym in (("add", "+"), ("sub", "-"), ("mul", "*"), ("div", "/" if d else "//"), ("mod", "%")):
        src.append(f"@external\ndef {name}(x: {t}, y: {t}) -> {t}:\n    return x {sym} y\n")
    if s:
        src.append(f"@external\ndef usub(x: {t}) -> {t}:\n    return -x\n")
    # storage-operand and nested shapes
    src.append(f"s: {t}\n")
    src.append(f"@external\ndef st(x: {t}, y: {t}) -> {t}:\n    self.s = x\n    self.s *= y\n    return self.s\n")
    src.append(f"@internal\ndef idy(v: {t}) -> {t}:\n    return v\n")
    src.append(f"@external\ndef nest(x: {t}, y: {t}) -> {t}:\n    return (self.idy(x) - y) + y\n")
    return "\n".join(src)


GLUE_OPS = [("add", "AAdd"), ("sub", "ASub"), ("mul", "AMul"), ("div", "ADiv"), ("mod", "AMod"), ("usub", "AUSub")]


def selector(sig):
    from vyper.utils import method_id_int
    return method_id_int(sig).to_bytes(4, "big")


def glue_differential(ctx, tys, cfgs, size, want=None):
    """probe contracts through the full compiler, executed on pyrevm, vs arith_spec computed in Coq.
    want: optional {(ty, aop): [(x,y)...]} extra cases (Search)."""
    rnd = ctx.rng("glue")
    grids = {ty: type_grid(ty, rnd, size) for ty in tys}
    imports = COQ_PRELUDE
    for i, ty in enumerate(tys):
        imports += f"Definition G{i} := {zlist(grids[ty])}.\n"
    imports += ("Definition nest_row (T : nty) (G : list Z) : list Z :=\n"
                "  map (fun p => oc (enc_out (match arith_spec T ASub (fst p) (snd p) with\n"
                "     | Val v => arith_spec T AAdd v (snd p) | o => o end))) (list_prod G G).\n")
    specs = {}
    for i, ty in enumerate(tys):
        for fn, aop in GLUE_OPS:
            if aop == "AUSub" and not ty[1]:
                continue
            specs[(ty, fn)] = (f"spec_row {X.nty(*ty)} {aop} G{i} {'true' if aop == 'AUSub' else 'false'}",
                               pairs(grids[ty], aop == "AUSub"))
        specs[(ty, "st")] = (f"spec_row {X.nty(*ty)} AMul G{i} false", pairs(grids[ty], False))
        specs[(ty, "nest")] = (f"nest_row {X.nty(*ty)} G{i}", pairs(grids[ty], False))
    n_eval = 0
    dist = {}
    rows, meta = [], []
    for cfg in cfgs:
        chain = Chain(cfg.evm)
        for ty in tys:
            src = probe_source(ty)
            try:
                out = compile_src(src, cfg, formats=("bytecode", "method_identifiers"))
            except Exception as e:  # the probe is plain arithmetic: every configuration must compile it
                ctx.violation("correspondence-broken", f"probe contract does not compile under {cfg.name}",
                              {"source": src, "config": cfg.name, "error": f"{type(e).__name__}: {e}"[:600]})
                continue
            addr = chain.deploy(bytes.fromhex(out["bytecode"][2:]))
            sels = {sig.split("(")[0]: int(h, 16).to_bytes(4, "big") for sig, h in out["method_identifiers"].items()}
            for fn in ("add", "sub", "mul", "div", "mod", "usub", "st", "nest"):
                if (ty, fn) not in specs:
                    continue
                spec, cs = specs[(ty, fn)]
                sel = sels[fn]
                obs = [call_word(chain, addr, sel + word(x) + (b"" if fn == "usub" else word(y))) for x, y in cs]
                n_eval += len(cs)
                dist[fn] = dist.get(fn, 0) + len(cs)
                rows.append({"spec": spec, "obs": obs})
                meta.append((ty, fn, cfg, cs, obs, sel, src))
    res = compare_rows(imports, rows, "c03glue", shard=150)
    failing = []
    for (ty, fn, cfg, cs, obs, sel, src), (sm, _) in zip(meta, res):
        for i, e in sm[:1]:
            x, y = cs[i] if 0 <= i < len(cs) else (0, 0)
            got = obs[i] if 0 <= i < len(obs) else None
            failing.append({"type": tyname(ty), "function": fn, "config": cfg.name, "args": [str(x), str(y)],
                            "expected": "revert" if e == -1 else hex(e),
                            "observed": "revert" if got == -1 else (hex(got) if got is not None else "?"),
                            "calldata": (sel + word(x) + (b"" if fn == "usub" else word(y))).hex(), "source": src})
    ctx.corr["glue_cases"] = ctx.corr.get("glue_cases", 0) + n_eval
    for k_, v_ in dist.items():
        ctx.corr.setdefault("glue_distribution", {})[k_] = ctx.corr.get("glue_distribution", {}).get(k_, 0) + v_
    ctx.corr["glue_configs"] = sorted(set(ctx.corr.get("glue_configs", [])) | {c.name for c in cfgs})
    ctx.corr["glue_types"] = sorted(set(ctx.corr.get("glue_types", [])) | {tyname(t) for t in tys})
    return n_eval, failing


# ------------------------------------------------------------------ main
def choose_types(ctx, all_tys):
    if ctx.tier == "thorough":
        return all_tys
    rnd = ctx.rng("types")
    must = [(32, False, False), (32, True, False), (16, True, False), (16, False, False), (17, True, False),
            (17, False, False), (1, True, False), (1, False, False), (21, True, True), (31, True, False)]
    rest = [t for t in all_tys if t not in must]
    return must + rnd.sample(rest, 4)


def run(ctx):
    t0 = time.time()
    # ---- regenerate templates from the current tree
    gen_err = None
    ltempl, vtempl = [], []
    try:
        text, ltempl, lclamps = X.gen_legacy()
        (COQ / "C03" / "GenLegacy.v").write_text(text)
    except Exception as e:  # noqa
        gen_err = f"legacy export: {type(e).__name__}: {e}"
    venom_ok = True
    if venom_ok:
        try:
            text, vtempl, vclamps = X.gen_venom()
            (COQ / "C03" / "GenVenom.v").write_text(text)
        except Exception as e:  # noqa
            gen_err = (gen_err or "") + f" venom export: {type(e).__name__}: {e}"
    ctx.extra["family_size"] = {"legacy_templates": len(ltempl), "venom_templates": len(vtempl), "numeric_types": 65}

    # ---- proofs
    b0 = ctx.coq_build_cached(STATIC)          # content-keyed reuse: recompiled iff a source/Base file changed
    bl = ctx.coq_build(LEGACY) if b0["ok"] and ltempl else {"ok": False, "file": "C03/GenLegacy.v", "failed_lemma": None, "out": gen_err or ""}
    bv = ctx.coq_build(VENOM) if b0["ok"] and vtempl else {"ok": False, "file": "C03/GenVenom.v", "failed_lemma": None, "out": gen_err or ""}
    ctx.log(f"coq done {time.time()-t0:.0f}s legacy={bl['ok']} venom={bv['ok']}")
    if bl["ok"] and bv["ok"]:
        ctx.extra["syntactic_matches"] = len(ltempl) + len(vtempl) + 65 * (2 if venom_ok else 1)

    # ---- correspondence / search
    found = False
    total = 0
    all_tys = [(k, s, d) for k, s, d, _ in X.num_types()]
    tys = choose_types(ctx, all_tys)
    for kind, templ, b, gen in (("legacy", ltempl, bl, "GenLegacy"), ("venom", vtempl, bv, "GenVenom")):
        if not templ or not b0["ok"]:
            continue
        gen_compiled = (COQ / "C03" / f"{gen}.vo").exists() and gen not in str(b.get("file", ""))
        # quick tier: a seeded subset of types, unless a proof/tie is broken (then Search over the whole family)
        only = set(tys) if (ctx.tier == "quick" and b["ok"]) else None
        n, failing, bad_model = template_differential(ctx, templ, gen_compiled, kind, only)
        total += n
        for op, ty, c, e, g, node in failing[:5]:
            found = True
            tstr = str(node) if kind == "legacy" else "; ".join(str(i).strip() for i in node[0]) + f" -> {node[1]}"
            ctx.violation(
                "failing-input", f"{kind} {OPSYM[op]} template for {tyname(ty)} is not exact-or-revert",
                {"generator": f"{'vyper.codegen.arithmetic / expr.py' if kind == 'legacy' else 'vyper.codegen_venom.arithmetic'}"
                              f", op {op}, type {tyname(ty)}, operands in variables x, y",
                 "template": tstr, "x": str(c[0]), "y": str(c[1]),
                 "expected": "revert" if e == -1 else hex(e), "observed_on_evm": "revert" if g == -1 else hex(g),
                 "how": "template compiled by the real back end (compile_ir / venom -O none) + assembler, executed on pyrevm"},
                key=f"{kind}-template:{op}:{tyname(ty)}")
        for op, ty, c, l, g in bad_model[:5]:
            if not found:
                ctx.violation("correspondence-broken", f"Coq evaluator disagrees with the real back end + EVM on an exported {kind} template",
                              {"op": op, "type": tyname(ty), "x": str(c[0]), "y": str(c[1]), "coq": str(l), "evm": str(g)})
    ctx.log(f"template differential done {time.time()-t0:.0f}s")

    if ctx.tier == "quick":
        n, gfail = glue_differential(ctx, tys, core_configs(), 9)
    else:
        # all 65 types under the covering configuration set, then the boundary types under every configuration
        n, gfail = glue_differential(ctx, tys, configs("quick"), 12)
        deep = [(32, False, False), (32, True, False), (16, True, False), (17, True, False), (21, True, True)]
        n2, gfail2 = glue_differential(ctx, deep, configs("thorough"), 9)
        n += n2
        gfail += gfail2
    total += n
    for f in gfail[:8]:
        found = True
        ctx.violation("failing-input", f"{f['type']} {f['function']} under {f['config']} is not exact-or-revert", f,
                      key=f"glue:{f['function']}:{f['type']}:{f['config']}")
    ctx.log(f"glue differential done {time.time()-t0:.0f}s")

    # ---- verdicts for broken proofs / ties
    if gen_err and not found:
        ctx.violation("translator-rejected", "template export failed: " + gen_err, {"error": gen_err})
    for b, what in ((b0, "static"), (bl, "legacy"), (bv, "venom")):
        if not b["ok"] and not found and not (gen_err and what != "static"):
            ctx.violation("theorem-broken", f"{b.get('failed_lemma')} in {b.get('file')} ({what})",
                          {"theorem": b.get("failed_lemma"), "file": b.get("file"), "coq_output": (b.get("out") or "")[-1500:]})

    ctx.corr["evaluations"] = total
    ctx.corr["distinct_nontrivial"] = total
    ctx.corr["rule"] = ("distinct (template or probe function, configuration, operand pair) executions on pyrevm; operands from "
                        "the per-type boundary grid squared, every case is a distinct input")
    ctx.samples.append({"int8 mul": [-128, -1], "expected": "revert"})
    ctx.samples.append({"int256 floordiv": [str(-2**255), -1], "expected": "revert"})
    ctx.trusted += ["Coq 8.16.1 kernel + vm_compute", "tools/vlib/c03_export.py (IRnode / Venom instruction -> Coq term)",
                    "coq/Base/Word256.v as EVM word semantics (tied to pyrevm by vlib.wordtie in C14 and in C03 thorough)",
                    "pyrevm as EVM reference"]
    ctx.assumptions += ["operands are canonical words of in-range values (guaranteed by ABI/storage clamps: C05)",
                        "proved shape: operands in variables; literal operands / pow / convert: differential only"]
    if ctx.tier == "thorough":
        from vlib import wordtie
        wordtie.run(ctx)
