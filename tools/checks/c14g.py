"""C14G: test driver for the CFG-pass validator of C14 (helper; the real entry is tools/checks/c14.py)."""
LEVEL = "proof"
META = {"not_applicable": "helper part of C14"}


def prebuild(ctx):
    from vlib import c14g_part
    return c14g_part.prebuild(ctx)


def run(ctx):
    from vlib import c14g_part
    ctx.is_known = lambda key: next((f for f in ctx.known.get("findings", []) if f.get("property") == "C14"
                                     and f.get("key") == key and f.get("status") == "open"), None)
    n = c14g_part.part_cfg_passes(ctx)
    n += c14g_part.part_asm_cfg(ctx)
    ctx.corr["evaluations"] = n
    ctx.corr["distinct_nontrivial"] = n
    ctx.corr["rule"] = "one per distinct changing invocation (pass, function before, function after) validated by cfg_check"
