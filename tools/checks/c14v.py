"""C14V: helper part of C14 (Venom.v executions refine the RangeFix.v semantics; exporter tie); runnable on its own:
python3 tools/check.py C14V --tier quick.  Not registered (the coordinator calls vlib.c14_fixvenom.part_fixvenom from c14.py)."""
from vlib import c14_fixvenom

LEVEL = "proof"
META = {"not_applicable": "helper part of C14"}


def run(ctx):
    n = c14_fixvenom.part_fixvenom(ctx)
    ctx.corr["evaluations"] = n
    ctx.corr["distinct_nontrivial"] = n
    ctx.corr["rule"] = "functions exported by both exporters, matched and validated in Coq (vm_compute)"
