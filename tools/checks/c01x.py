"""C01X: helper part of C01 (the LARGER verified expression fragment, both front ends: coq/C01/ExprX*.v, coq/C01V/VExprX*.v);
runnable on its own: python3 tools/check.py C01X --tier quick.  Not registered (c01.py calls vlib.c01_exprx.part_expr_x)."""
from vlib import c01_exprx

LEVEL = "proof"
META = {"not_applicable": "helper part of C01"}


def prebuild(ctx):
    c01_exprx.prebuild(ctx)


def run(ctx):
    n = c01_exprx.part_expr_x(ctx)
    ctx.corr["evaluations"] = n
    ctx.corr["distinct_nontrivial"] = n
    ctx.corr["rule"] = ("random expressions of the larger fragment compiled by both real front ends and compared syntactically with the "
                        "models (vm_compute), plus executed samples (pyrevm vs ExprX.yeval)")
