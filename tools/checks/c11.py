"""C11: accepted programs keep their static promises; rule-breaking ones are rejected."""
import math
import warnings

from pyrevm import EVM, BlockEnv, Env

from vlib import c11_gen as G
from vlib import coqrun
from vlib.configs import Config
from vlib.evm import DEPLOYER, SENDER2, Chain

LEVEL = "proof"
META = {
    "category": "proof",
    "text": "Coq theorems on a core calculus (EffVy) of Vyper's mutability/constancy/loop/module rules: a program accepted by "
            "`check` runs its @view/@pure functions (and everything they call) without state writes, modifying calls or logs and "
            "leaves storage unchanged; @pure functions read no state/environment and their outcome is the same in every world; "
            "the call graph is acyclic, every run terminates within a statically computed fuel and performs at most a statically "
            "computed number of loop iterations; range(x, bound=K) runs x <= K times or reverts; an iterated state array is never "
            "written during the loop (directly or by called functions); every single-rule violation at any statement/expression "
            "nesting position makes `check` false. `check` is tied to the real analyser by generated programs (valid skeletons x "
            "one violation of each of ~60 rule variants at a random position, incl. an imported module with uses/initializes): "
            "the real compiler's accept/reject must equal `check` (evaluated in Coq), rule-breaking programs must be rejected with "
            "a user-facing diagnostic (a compiler panic is a failing input), and accepted programs are executed: view/pure under "
            "STATICCALL vs CALL, pure under perturbed storage/balance/block/sender; range bounds are probed at run time.",
    "level_note": "Proof is on the calculus, not on local.py itself (hand model + correspondence). The calculus has scalar "
                  "variables plus two array variables, one-argument functions, one imported module; struct/array access paths, "
                  "nested modules, abstract/override methods, default arguments and reentrancy are outside it.",
    "technique": "Coq proof over a hand-written calculus + generated-program differential against the real compiler + EVM execution",
}

# rules that the real compiler enforces only inside the code generators (build_IR / venom lowering of the builtin)
CODEGEN_CHECKED = {"view_send", "view_selfdestruct", "view_raw_log", "view_create_minimal", "view_create_copy"}
CODEGEN_KEY = "c11:modifying-builtin-in-constant-function-not-rejected-when-function-is-not-code-generated"
CODEGEN_MSG = ("rule-breaking program ({rule}: state-modifying builtin inside a @view/@pure function) is accepted: the check lives in "
               "the code generators and is skipped for functions that are not code-generated (unused imported-module function; "
               "any unreachable internal function under the venom pipeline)")



def _violating_fn_reachable(where, prog):
    try:
        fi = int(where.split(":")[0][1:])
    except ValueError:
        return False
    return fi in G.reachable_from_entry(prog["funs"])


def codegen_key(rule, where, prog):
    if _violating_fn_reachable(where, prog):
        return f"c11:modifying-builtin-in-REACHABLE-constant-function-accepted:{rule}"
    return CODEGEN_KEY


def codegen_msg(rule, where, prog):
    if _violating_fn_reachable(where, prog):
        return (f"rule-breaking program ({rule}: state-modifying builtin inside a @view/@pure function that IS reachable from an "
                "entry point) is accepted by at least one pipeline")
    return CODEGEN_MSG.format(rule=rule)


COQ_IMPORTS = "From Verif Require Import C11.Effects.\n"


def coq_check(progs, name):
    """evaluate `check` inside Coq for every program; returns list of bools"""
    if not progs:
        return []
    n = len(progs)
    per = max(1, math.ceil(n / 3))
    exprs = []
    for i in range(0, n, per):
        exprs.append("[" + "; ".join(f"(if check {G.c_prog(p)} then 1 else 0)" for p in progs[i:i + per]) + "]")
    outs = coqrun.eval_zlists(COQ_IMPORTS, exprs, name, shard=1, timeout=300)
    flat = [x for o in outs for x in o]
    assert len(flat) == n, (len(flat), n)
    return [bool(x) for x in flat]


def bundle(lib):
    from pathlib import PurePath
    from vyper.compiler.input_bundle import JSONInputBundle
    if lib is None:
        return None
    return JSONInputBundle({PurePath("lib1.vy"): {"content": lib}}, search_paths=[PurePath(".")])


def front_end(src, cfg, lib=None):
    """accept / reject by the real compiler front end alone (`annotated_ast_dict` runs the analyser but no code generator;
    note that `abi` does run the legacy code generator, whatever the pipeline setting)"""
    from vyper.compiler import compile_code
    from vyper.exceptions import VyperException
    with warnings.catch_warnings():
        warnings.simplefilter("ignore")
        try:
            compile_code(src, output_formats=["annotated_ast_dict"], settings=cfg.settings(), input_bundle=bundle(lib))
            return True, None
        except VyperException as e:
            return False, type(e).__name__
        except Exception as e:  # crash: not an acceptance, but worth telling apart
            return False, "CRASH:" + type(e).__name__


def compile_full(src, cfg, lib=None):
    from vyper.compiler import compile_code
    with warnings.catch_warnings():
        warnings.simplefilter("ignore")
        try:
            return compile_code(src, output_formats=["bytecode"], settings=cfg.settings(), input_bundle=bundle(lib))["bytecode"]
        except Exception as e:
            return e


class World:
    """A chain with Ext deployed first (deterministic address) and the program contract second."""

    def __init__(self, cfg, number=1, timestamp=1000):
        self.ch = Chain(cfg.evm)
        self.ch.evm = EVM(gas_limit=10**9, spec_id=cfg.evm, env=Env(block=BlockEnv(number=number, timestamp=timestamp)))
        self.ch.evm.set_balance(DEPLOYER, 10**30)
        self.ch.evm.set_balance(SENDER2, 10**30)
        self.ext = None

    def deploy_ext(self, code):
        self.ext = self.ch.deploy(bytes.fromhex(code[2:]))
        return self.ext


def selector(sig):
    from vyper.utils import method_id_int
    return method_id_int(sig).to_bytes(4, "big")


def call_fn(w, addr, name, a, static, value=0, sender=DEPLOYER):
    data = selector(f"{name}(uint256)") + a.to_bytes(32, "big")
    r = w.ch.call(addr, data, static=static, value=value, sender=sender)
    return (r.ok, r.out)


def storage_snapshot(w, addr):
    return tuple(w.ch.storage(addr, s) for s in range(14))


def dynamic_check(ctx, prog, src, cfg, ext_code, rule, where, lib=None, light=False):
    """Execute an accepted program: view/pure externals under CALL vs STATICCALL (same result, no storage change);
    pure externals under perturbed storage / balance / block context.  Returns (#calls, #failing)."""
    code = compile_full(src, cfg, lib)
    if isinstance(code, Exception):
        from vyper.exceptions import VyperException
        kind = "codegen" if isinstance(code, VyperException) else "codegen-internal"
        return 0, 0, f"{kind}:{type(code).__name__}"
    worlds = []
    for (num, ts, sx, sy, bal) in ((1, 1000, 11, 22, 10**18), (77, 5000, 5, 9, 12345))[: 1 if light else 2]:
        w = World(cfg, num, ts)
        if w.deploy_ext(ext_code) is None:
            return 0, 0, "ext-deploy-failed"
        addr = w.ch.deploy(bytes.fromhex(code[2:]))
        if addr is None:
            return 0, 0, "deploy-reverted"
        w.ch.call(addr, selector("setup(uint256,uint256)") + sx.to_bytes(32, "big") + sy.to_bytes(32, "big"))
        if bal:
            w.ch.evm.set_balance(addr, bal)
        worlds.append((w, addr))
    ncalls = 0
    nfail = 0
    for i, f in enumerate(prog["funs"]):
        if f["vis"] != "External" or G.RANK[f["mut"]] > 1:
            continue
        for a in (0, 1, 3, 12345):
            res = []
            for w, addr in worlds:
                before = storage_snapshot(w, addr)
                ext_before = w.ch.storage(w.ext, 0)
                sid = w.ch.snapshot()
                r_call = call_fn(w, addr, f"f{i}", a, static=False)
                after = storage_snapshot(w, addr)
                ext_after = w.ch.storage(w.ext, 0)
                w.ch.revert(sid)
                r_static = call_fn(w, addr, f"f{i}", a, static=True)
                ncalls += 2
                res.append(r_call)
                bad = None
                if r_call != r_static:
                    bad = {"what": "result under STATICCALL differs from result under CALL", "call": str(r_call), "staticcall": str(r_static)}
                elif before != after or ext_before != ext_after:
                    bad = {"what": "storage changed by a @view/@pure function", "before": str(before), "after": str(after)}
                if bad:
                    nfail += 1
                    bad.update({"source": src, "function": f"f{i}", "arg": a, "config": cfg.name, "rule": rule, "where": where})
                    ctx.violation("failing-input", f"@{f['mut'].lower()} function f{i} is not side-effect free", bad,
                                  key=f"c11:dyn:{rule}:{f['mut']}")
                    break
            if f["mut"] == "Pure":
                # same contract, same argument, perturbed storage / balance / block context between two calls
                w, addr = worlds[0]
                sid = w.ch.snapshot()
                r_a = call_fn(w, addr, f"f{i}", a, static=False)
                w.ch.revert(sid)
                sid = w.ch.snapshot()
                w.ch.call(addr, selector("setup(uint256,uint256)") + (901).to_bytes(32, "big") + (77).to_bytes(32, "big"))
                w.ch.evm.set_balance(addr, 10**18 + 3)
                w.ch.evm.set_block_env(BlockEnv(number=4242, timestamp=99999))
                r_b = call_fn(w, addr, f"f{i}", a, static=False, sender=SENDER2)
                w.ch.evm.set_block_env(BlockEnv(number=1, timestamp=1000))
                w.ch.revert(sid)
                ncalls += 2
                if r_a != r_b and r_a[0] and r_b[0]:
                    nfail += 1
                    ctx.violation("failing-input", f"@pure function f{i} changes its result when storage / balance / block / sender change",
                                  {"source": src, "function": f"f{i}", "arg": a, "config": cfg.name, "before": str(r_a), "after": str(r_b),
                                   "perturbation": "setup(901,77); balance += 1e18+3; block.number 1->4242, timestamp 1000->99999; other sender",
                                   "rule": rule, "where": where}, key=f"c11:pure:{rule}")
                    continue
            if f["mut"] == "Pure" and len(res) == 2 and res[0] != res[1] and res[0][0] and res[1][0]:
                nfail += 1
                ctx.violation("failing-input", f"@pure function f{i} depends on storage / balance / block context",
                              {"source": src, "function": f"f{i}", "arg": a, "config": cfg.name, "world1": str(res[0]), "world2": str(res[1]),
                               "worlds": "block (1,1000) storage (11,22) balance 0  vs  block (77,5000) storage (5,9) balance 12345"},
                              key=f"c11:pure:{rule}")
    return ncalls, nfail, None


_EXT_CACHE = {}


def ext_code_for(evm):
    if evm not in _EXT_CACHE:
        _EXT_CACHE[evm] = compile_full(G.EXT_SRC, Config(False, "gas", evm))
    return _EXT_CACHE[evm]


def staticcall_sweep(ctx, accepted, cfgs_of, tgt_lit):
    """Bytecode-level oracle under EVERY configuration: each external @view/@pure function of every accepted program is
    called under CALL and under STATICCALL (a state-modifying opcode halts under STATICCALL) and must give the same
    result and leave storage untouched.  Pre-cancun targets get the same program with `t0` as plain storage."""
    ncalls = nfail = 0
    skipped = {}
    used = set()
    for k, (prog, rule, where) in enumerate(accepted):
        src, lib = G.v_prog(prog, tgt_lit)
        for cfg in cfgs_of(k):
            s2 = src if cfg.evm in ("cancun", "prague") else src.replace("t0: transient(uint256)", "t0: uint256")
            ext = ext_code_for(cfg.evm)
            if isinstance(ext, Exception):
                skipped["ext:" + cfg.evm] = skipped.get("ext:" + cfg.evm, 0) + 1
                continue
            n, f, note = dynamic_check(ctx, prog, s2, cfg, ext, rule, where, lib, light=True)
            ncalls += n
            nfail += f
            used.add(cfg.name)
            if note:  # compile failure under this configuration: C02/C20 matter, not an accepted program here
                key = note.split(":")[-1]
                skipped[key] = skipped.get(key, 0) + 1
    ctx.corr["staticcall_sweep"] = {"programs": len(accepted), "configurations": len(used), "calls": ncalls, "skipped_compiles": skipped}
    return ncalls, nfail


def configs_all(ctx):
    from vlib.configs import configs
    return configs("quick")


BOUND_SRC = """
@external
@view
def f{K}(a: uint256) -> uint256:
    n: uint256 = 0
    for i: uint256 in range(a, bound={K}):
        n += 1
    return n

@external
@view
def g{K}(a: uint256, b: uint256) -> uint256:
    n: uint256 = 0
    for i: uint256 in range(a, b, bound={K}):
        n += 1
    return n
"""


def bound_probes(ctx, cfgs):
    """loop_bound_respected at run time: range(x, bound=K) runs x <= K iterations, and reverts when x > K."""
    Ks = [1, 3, 5, 256]
    src = "".join(BOUND_SRC.format(K=K) for K in Ks)
    n = fails = 0
    for cfg in cfgs:
        code = compile_full(src, cfg)
        if isinstance(code, Exception):
            ctx.violation("correspondence-broken", "range(x, bound=K) probe contract does not compile", {"config": cfg.name, "error": str(code)[:300]})
            continue
        ch = Chain(cfg.evm)
        addr = ch.deploy(bytes.fromhex(code[2:]))
        for K in Ks:
            for a in (0, 1, K - 1, K, K + 1, K + 2, 2 * K + 1, 2**128, 2**256 - 1):
                r = ch.call(addr, selector(f"f{K}(uint256)") + a.to_bytes(32, "big"))
                n += 1
                got = int.from_bytes(r.out, "big") if r.ok else "revert"
                want = a if a <= K else "revert"
                if got != want:
                    fails += 1
                    ctx.violation("failing-input", f"range(x, bound={K}) with x={a}: expected {want}, observed {got}",
                                  {"source": src, "call": f"f{K}({a})", "config": cfg.name, "expected": str(want), "observed": str(got)},
                                  key=f"c11:bound:{K}:{'over' if a > K else 'under'}")
            for (a, b) in ((0, K), (2, K + 2), (1, K + 2), (5, 5 + K + 1), (7, 7), (2**256 - 2, 2**256 - 1)):
                r = ch.call(addr, selector(f"g{K}(uint256,uint256)") + a.to_bytes(32, "big") + b.to_bytes(32, "big"))
                n += 1
                got = int.from_bytes(r.out, "big") if r.ok else "revert"
                want = (b - a) if b - a <= K else "revert"
                if got != want:
                    fails += 1
                    ctx.violation("failing-input", f"range({a}, {b}, bound={K}): expected {want}, observed {got}",
                                  {"source": src, "call": f"g{K}({a},{b})", "config": cfg.name, "expected": str(want), "observed": str(got)},
                                  key=f"c11:bound2:{K}")
    return n, fails


_T = "0x0000000000000000000000000000000000000123"
_RC = "convert(raw_call(" + _T + ", b\"\", max_outsize=32{kw}), uint256)"
# (name, source, expected) -- expected: "accept" | "reject" (user-facing error under BOTH pipelines)
FIXED_CASES = [
    ("raw_call_static_true_in_view", "@external\n@view\ndef f(a: uint256) -> uint256:\n    return " + _RC.format(kw=", is_static_call=True") + "\n", "accept"),
    ("raw_call_static_const_in_view", "S: constant(bool) = True\n@external\n@view\ndef f(a: uint256) -> uint256:\n    return " + _RC.format(kw=", is_static_call=S") + "\n", "accept"),
    ("raw_call_static_folded_expr_in_view", "@external\n@view\ndef f(a: uint256) -> uint256:\n    return " + _RC.format(kw=", is_static_call=(1 == 1)") + "\n", "accept"),
    ("raw_call_static_false_in_view", "@external\n@view\ndef f(a: uint256) -> uint256:\n    return " + _RC.format(kw=", is_static_call=False") + "\n", "reject"),
    ("raw_call_static_constfalse_in_view", "S: constant(bool) = False\n@external\n@view\ndef f(a: uint256) -> uint256:\n    return " + _RC.format(kw=", is_static_call=S") + "\n", "reject"),
    ("raw_call_default_in_view", "@external\n@view\ndef f(a: uint256) -> uint256:\n    return " + _RC.format(kw="") + "\n", "reject"),
    ("raw_call_static_variable", "@external\n@view\ndef f(a: uint256) -> uint256:\n    b: bool = True\n    return " + _RC.format(kw=", is_static_call=b") + "\n", "reject"),
    ("raw_call_static_with_value", "@external\n@view\ndef f(a: uint256) -> uint256:\n    return " + _RC.format(kw=", is_static_call=True, value=a") + "\n", "reject"),
    ("raw_call_static_in_pure", "@external\n@pure\ndef f(a: uint256) -> uint256:\n    return " + _RC.format(kw=", is_static_call=True") + "\n", "reject"),
    ("default_msgvalue_nonpayable_external", "@external\ndef f(a: uint256 = msg.value) -> uint256:\n    return a\n", "reject"),
    ("default_msgvalue_view_external", "@external\n@view\ndef f(a: uint256 = msg.value) -> uint256:\n    return a\n", "reject"),
    ("default_msgvalue_payable_external", "@external\n@payable\ndef f(a: uint256 = msg.value) -> uint256:\n    return a\n", "accept"),
    ("default_msgvalue_nonpayable_internal", "@internal\ndef g(a: uint256 = msg.value) -> uint256:\n    return a\n@external\n@payable\ndef f() -> uint256:\n    return self.g()\n", "reject"),
    ("default_msgvalue_payable_internal_from_payable", "@internal\n@payable\ndef g(a: uint256 = msg.value) -> uint256:\n    return a\n@external\n@payable\ndef f() -> uint256:\n    return self.g()\n", "accept"),
    # the default is evaluated in the nonpayable caller: either verdict is defensible, a panic or a pipeline disagreement is not
    ("default_msgvalue_payable_internal_from_nonpayable", "@internal\n@payable\ndef g(a: uint256 = msg.value) -> uint256:\n    return a\n@external\ndef f() -> uint256:\n    return self.g()\n", "either"),
    ("default_env_in_pure", "@external\n@pure\ndef f(a: uint256 = block.number) -> uint256:\n    return a\n", "reject"),
    ("default_state_in_pure", "s: uint256\n@external\n@pure\ndef f(a: uint256 = self.s) -> uint256:\n    return a\n", "reject"),
    ("default_blocknumber_view_internal", "@internal\n@view\ndef g(a: uint256 = block.number) -> uint256:\n    return a\n@external\n@view\ndef f() -> uint256:\n    return self.g()\n", "accept"),
]


# "constants never change after deployment": a module-level constant whose initializer contains an environment- or
# state-dependent sub-expression in ANY position must be rejected -- every expression constructor x every environment read
_ENV_READS = ["block.number", "block.timestamp", "msg.sender.balance", "tx.origin.balance", "self.balance", "ADDR.balance",
              "ADDR.codesize", "ADDR.is_contract", "convert(ADDR.codehash, uint256)", "len(msg.data)", "tx.gasprice", "chain.id"]
_CONST_POSITIONS = [
    ("direct", "{e}"), ("binop_left", "({e}) + 1"), ("binop_right", "1 + ({e})"), ("unary", "~({e})" ), ("compare", "convert(({e}) > 5, uint256)"),
    ("boolop", "convert((({e}) > 5) and True, uint256)"), ("subscript_index", "ARR[({e}) % 3]"), ("subscript_index_nested", "MAT[1][({e}) % 2]"),
    ("ternary_test", "30 if ({e}) > 100 else 7"), ("ternary_arm", "({e}) if True else 7"), ("list_elem_then_index", "[1, ({e}), 3][1]"),
    ("call_arg_min", "min(({e}), 5)"), ("call_arg_convert", "convert(convert(({e}), uint128), uint256)"),
    ("struct_member", "S(a=({e}), b=2).a"), ("shift", "({e}) << 1"), ("pow", "2 ** (({e}) % 3)"),
]


def _const_cases():
    out = []
    pre = ("ADDR: constant(address) = 0x1111111111111111111111111111111111111111\nARR: constant(uint256[3]) = [1, 2, 3]\n"
           "MAT: constant(uint256[2][2]) = [[1, 2], [3, 4]]\nstruct S:\n    a: uint256\n    b: uint256\n")
    for pname, tpl in _CONST_POSITIONS:
        for k, env in enumerate(_ENV_READS):
            ee = env if env.startswith("convert(") or "balance" in env or "codesize" in env or "len(" in env or "." in env else env
            if "is_contract" in env:
                ee = f"convert({env}, uint256)"
            src = pre + f"B: constant(uint256) = {tpl.format(e=ee)}\n\n@external\n@view\ndef f() -> uint256:\n    return B\n"
            out.append((f"const_env:{pname}:{env}", src, "reject"))
        # control: the same position with a genuine constant must stay acceptable or be rejected for an unrelated reason
        src = pre + f"B: constant(uint256) = {tpl.format(e='4')}\n\n@external\n@view\ndef f() -> uint256:\n    return B\n"
        out.append((f"const_env:{pname}:control", src, "either"))
    return out


def fixed_cases(ctx, cfgs):
    """hand-written programs for rule variants outside the calculus (raw_call flags, default arguments)"""
    from vyper.exceptions import VyperException
    n = fails = 0
    const_cases = _const_cases()
    ctx.corr["constant_initializer_env_cases"] = len(const_cases)
    for name, src, want in FIXED_CASES + const_cases:
        verdicts = {}
        for cfg in cfgs:
            c = compile_full(src, cfg)
            n += 1
            verdicts[cfg.name] = "accept" if not isinstance(c, Exception) else ("reject:" + type(c).__name__ if isinstance(c, VyperException) else "PANIC:" + type(c).__name__)
        kinds = {v.split(":")[0] for v in verdicts.values()}
        bad = None
        if "PANIC" in kinds:
            bad = "the compiler panics (internal error) instead of compiling or giving a user-facing diagnostic"
        elif len(kinds) > 1:
            bad = "pipelines disagree on acceptance"
        elif want != "either" and kinds != {want}:
            bad = f"expected {want}"
        if bad:
            fails += 1
            key = "c11:default-arg-msgvalue:legacy-panics-venom-accepts" if name == "default_msgvalue_payable_internal_from_nonpayable" else f"c11:fixed:{name}"
            ctx.violation("failing-input", f"{name}: {bad}", {"source": src, "verdicts": verdicts, "expected": want,
                          "how": "vyper.compiler.compile_code(source, output_formats=['bytecode'], settings=<config>)"}, key=key)
    return n, fails


LOOP_SRC = """
cnt: public(uint256)

@external
def r1(a: {T}) -> uint256:
    n: uint256 = 0
    for i: {T} in range(a, bound={N}):
        n += 1
        self.cnt = n
        if n == {N} + 3:
            break
    return n

@external
def r2(a: {T}, b: {T}) -> uint256:
    n: uint256 = 0
    for i: {T} in range(a, b, bound={N}):
        n += 1
        self.cnt = n
        if n == {N} + 3:
            break
    return n

@external
def r2sum(a: {T}, b: {T}) -> {T}:
    # the loop variable takes exactly the values a, a+1, ..., b-1
    last: {T} = a
    for i: {T} in range(a, b, bound={N}):
        last = i
    return last

@external
def dyn(xs: DynArray[{T}, {N}]) -> uint256:
    n: uint256 = 0
    for x: {T} in xs:
        n += 1
        if n == {N} + 3:
            break
    return n

@external
def sta(xs: {T}[{N}]) -> uint256:
    n: uint256 = 0
    for x: {T} in xs:
        n += 1
        if n == {N} + 3:
            break
    return n

@external
def lit() -> uint256:
    n: uint256 = 0
    for i: {T} in range({LO}, {LO} + {N}):
        n += 1
        if n == {N} + 3:
            break
    return n
"""


def loop_matrix(ctx, cfgs):
    """Every loop form x loop-variable type x configuration, with run-time start / end at the type bounds and spans around the
    bound and around 2^(bits-1), 2^bits: the body counts its iterations (and gives up after N+3).
    Oracle (docs): range(a, b, bound=N) reverts iff a > b or b - a > N, else runs exactly b - a times; never more than N."""
    from eth_abi import encode
    rnd = ctx.rng("loops")
    types = [(False, 8), (True, 8), (True, 128), (False, 256), (True, 256)] + rnd.sample([(s_, b_) for b_ in range(16, 256, 8) for s_ in (False, True)], 2 if ctx.tier == "quick" else 8)
    n = fails = 0
    for T in types:
        tn = ("int" if T[0] else "uint") + str(T[1])
        lo, hi = (-(2 ** (T[1] - 1)), 2 ** (T[1] - 1) - 1) if T[0] else (0, 2 ** T[1] - 1)
        for N in ((4,) if ctx.tier == "quick" else (1, 4, 7)):
            if N + 3 > hi:
                continue
            src = LOOP_SRC.format(T=tn, N=N, LO=lo)
            spans = sorted({0, 1, N - 1, N, N + 1, N + 2, 2 ** (T[1] - 1) - 1, 2 ** (T[1] - 1), 2 ** (T[1] - 1) + 1, 2 ** T[1] - 1, 2 ** T[1] - 2})
            starts = sorted({lo, lo + 1, -1 if T[0] else 1, 0, 1, hi - N, hi - 1, hi, -(2 ** (T[1] - 2)) if T[0] else 2 ** (T[1] - 2)})
            pairs = {(a, a + sp) for a in starts for sp in spans if lo <= a <= hi and lo <= a + sp <= hi}
            pairs |= {(hi, lo), (0, lo) if T[0] else (1, 0), (hi, hi - 1)}
            for cfg in cfgs:
                code = compile_full(src, cfg)
                if isinstance(code, Exception):
                    ctx.violation("correspondence-broken", "loop matrix contract does not compile", {"config": cfg.name, "type": tn, "error": str(code)[:300]})
                    continue
                ch = Chain(cfg.evm)
                addr = ch.deploy(bytes.fromhex(code[2:]))

                def call(sig, tys, args, signed_out=False):
                    r = ch.call(addr, selector(sig) + encode(tys, args))
                    if not r.ok:
                        return "revert"
                    v = int.from_bytes(r.out, "big")
                    return v - 2**256 if signed_out and v >= 2**255 else v

                def expect(what, got, want, callrepr):
                    nonlocal fails
                    if got != want:
                        fails += 1
                        over = isinstance(got, int) and isinstance(want, (int, str)) and (want == "revert" or got > N)
                        ctx.violation("failing-input", f"{what} on {tn} (bound={N}): expected {want}, observed {got}"
                                      + (" -- the loop ran although its span exceeds the bound" if over else ""),
                                      {"source": src, "call": callrepr, "config": cfg.name, "expected": str(want), "observed": str(got)},
                                      key=f"c11:loop:{what}:{'signed' if T[0] else 'unsigned'}{T[1]}:{'venom' if cfg.venom else 'legacy'}")

                for a, b in sorted(pairs):
                    want = (b - a) if (a <= b and b - a <= N) else "revert"
                    expect("range(a, b, bound=N)", call(f"r2({tn},{tn})", [tn, tn], [a, b]), want, f"r2({a}, {b})")
                    n += 1
                    if isinstance(want, int):
                        expect("range(a, b, bound=N) loop variable", call(f"r2sum({tn},{tn})", [tn, tn], [a, b], T[0]), (b - 1 if b > a else a), f"r2sum({a}, {b})")
                        n += 1
                for a in sorted({lo, -1 if T[0] else 0, 0, 1, N - 1, N, N + 1, min(hi, 2 ** (T[1] - 1) - 1), hi}):
                    want = a if 0 <= a <= N else "revert"
                    expect("range(a, bound=N)", call(f"r1({tn})", [tn], [a]), want, f"r1({a})")
                    n += 1
                for k in range(N + 1):
                    xs = [lo, hi, 0, 1, lo + 1, hi - 1, 2][:k]
                    expect("for x in DynArray", call(f"dyn({tn}[])", [f"{tn}[]"], [xs]), k, f"dyn({xs})")
                    n += 1
                expect("for x in DynArray (too long)", call(f"dyn({tn}[])", [f"{tn}[]"], [[0] * (N + 1)]), "revert", f"dyn([0]*{N + 1})")
                expect("for x in static array", call(f"sta({tn}[{N}])", [f"{tn}[{N}]"], [[lo, hi, 0, 1, 2, 3, 4][:N]]), N, "sta(...)")
                expect("range(LO, LO + N)", call("lit()", [], []), N, "lit()")
                n += 3
    ctx.corr["loop_matrix"] = {"types": [("int" if t[0] else "uint") + str(t[1]) for t in types], "configurations": [c.name for c in cfgs], "calls": n}
    return n, fails


def run(ctx):
    rnd = ctx.rng("gen")
    gen = G.Gen(rnd)
    front = Config(False, "gas", "cancun")
    front_venom = Config(True, "gas", "cancun")
    dyn_cfgs = [Config(False, "gas", "cancun"), Config(True, "gas", "cancun")]
    if ctx.tier == "thorough":
        dyn_cfgs += [Config(False, "none", "cancun"), Config(True, "O3", "cancun"), Config(True, "none", "cancun")]
        nvalid, per_prog = 150, 12
    else:
        nvalid, per_prog = 36, 9

    # O-tie of the venom range-loop guard: record the templates from the real code generator, then prove them correct
    guard_err = None
    try:
        from vlib import c11_guard
        from vlib.common import COQ
        (COQ / "C11" / "GenRangeGuard.v").write_text(c11_guard.generate())
    except Exception as e:  # noqa
        guard_err = f"{type(e).__name__}: {e}"
    b = ctx.coq_build(["C11/Effects.v", "C11/EffectsSound.v", "C11/EffectsPure.v", "C11/EffectsReject.v", "C11/EffectsTerm.v", "C11/EffectsIter.v", "C11/PropsEffects.v"] + ([] if guard_err else ["C11/GenRangeGuard.v", "C11/RangeGuard.v", "C11/PropsRange.v"]))
    model_ok = b["ok"] or not b.get("file", "").endswith("/Effects.v")

    ext_code = compile_full(G.EXT_SRC, front)
    if isinstance(ext_code, Exception):
        raise RuntimeError(f"helper contract Ext does not compile: {ext_code}")
    w = World(front)
    tgt = w.deploy_ext(ext_code)
    # checksum the address for the source text
    from eth_utils import to_checksum_address
    tgt_lit = to_checksum_address(tgt)

    cases = []  # (rule, where, prog)
    for i in range(nvalid):
        p = gen.valid_program(rnd.choice([2, 3, 4, 5]))
        cases.append(("valid", "-", p))
        for rule, where, p2 in G.mutants(p, rnd, per_prog):
            cases.append((rule, where, p2))
    ctx.log(f"{len(cases)} programs ({nvalid} valid skeletons)")
    verdict_model = coq_check([c[2] for c in cases], "c11chk") if model_ok else [None] * len(cases)

    stats = {"agree_accept": 0, "agree_reject": 0, "compiler_stricter": 0, "compiler_laxer": 0}
    by_rule = {}
    ncalls = 0
    nfail = 0
    mism = []
    accepted_progs = []
    for (rule, where, prog), vm in zip(cases, verdict_model):
        src, lib = G.v_prog(prog, tgt_lit)
        full_src = src if lib is None else src + "\n# ---- lib1.vy ----\n" + lib
        acc, why = front_end(src, front, lib)
        accepting_cfgs = dyn_cfgs
        by_rule.setdefault(rule, [0, 0])
        by_rule[rule][0 if acc else 1] += 1
        if why and why.startswith("CRASH"):
            if rule != "valid":
                # a rule-breaking program must be rejected with a user-facing diagnostic; an internal compiler panic is not one
                nfail += 1
                ctx.violation("failing-input", f"rule-breaking program ({rule}) is not rejected with a user-facing diagnostic: "
                              f"the compiler panics with {why[6:]}",
                              {"source": full_src, "rule": rule, "where": where, "exception": why[6:], "stage": "compile_code(output_formats=['annotated_ast_dict'])",
                               "expected": "a VyperException subclass (user-facing compile error)"}, key=f"c11:panic:{rule}:{why[6:]}")
            else:
                mism.append({"rule": rule, "where": where, "what": "front end crashed on a valid-set program", "error": why, "source": full_src})
        if acc:
            late = []
            for cfg in accepting_cfgs:
                n, f, note = dynamic_check(ctx, prog, src, cfg, ext_code, rule, where, lib)
                if note and note.startswith("codegen:"):
                    late.append((cfg.name, note.split(":")[1]))
                ncalls += n
                nfail += f
                if note and note.startswith("codegen-internal") and rule != "valid":
                    nfail += 1
                    ctx.violation("failing-input", f"rule-breaking program ({rule}) passes the front end and then makes code generation "
                                  f"panic with {note.split(':')[1]} instead of being rejected with a user-facing diagnostic",
                                  {"source": full_src, "rule": rule, "where": where, "exception": note.split(":")[1], "config": cfg.name,
                                   "stage": "compile_code(output_formats=['bytecode'])"}, key=f"c11:panic:{rule}:{note.split(':')[1]}")
                    break
                # StaticAssertionException = the optimiser proved the program always reverts (e.g. count > bound): allowed
                if note and note.startswith("codegen") and rule == "valid" and "StaticAssertion" not in note:
                    mism.append({"rule": rule, "where": where, "what": "accepted by the front end but code generation failed", "note": note, "config": cfg.name, "source": full_src})
            # user-facing rejection raised by the code generators (e.g. "Cannot send ether from a constant function"):
            # still a compile-time rejection; both pipelines must agree on it
            late = [x for x in late if x[1] != "StaticAssertionException"]
            if late:
                stats["rejected_in_codegen"] = stats.get("rejected_in_codegen", 0) + 1
                ctx.corr.setdefault("rejected_only_in_codegen_by_rule", {})
                ctx.corr["rejected_only_in_codegen_by_rule"][rule + ":" + late[0][1]] = ctx.corr["rejected_only_in_codegen_by_rule"].get(rule + ":" + late[0][1], 0) + 1
                if len(late) != len(accepting_cfgs):
                    if rule in CODEGEN_CHECKED:
                        nfail += 1
                        ctx.violation("failing-input", codegen_msg(rule, where, prog),
                                      {"source": src, "lib1.vy": lib, "rule": rule, "where": where, "rejected_by": late,
                                       "accepted_by": [c.name for c in accepting_cfgs if c.name not in [x[0] for x in late]],
                                       "how": "vyper.compiler.compile_code(source, output_formats=['bytecode'], settings=<config>, input_bundle={lib1.vy})",
                                       "expected": "StateAccessViolation under every configuration"}, key=codegen_key(rule, where, prog))
                    else:
                        mism.append({"rule": rule, "where": where, "what": "pipelines disagree on acceptance", "late": late, "source": full_src})
                acc = False
                by_rule[rule][0] -= 1
                by_rule[rule][1] += 1
        if vm is None:
            continue
        if acc and vm:
            stats["agree_accept"] += 1
            accepted_progs.append((prog, rule, where))
        elif not acc and not vm:
            stats["agree_reject"] += 1
        elif acc and not vm:
            stats["compiler_laxer"] += 1
            if rule in CODEGEN_CHECKED:
                nfail += 1
                ctx.violation("failing-input", codegen_msg(rule, where, prog),
                              {"source": src, "lib1.vy": lib, "rule": rule, "where": where, "accepted_by": [c.name for c in dyn_cfgs],
                               "how": "vyper.compiler.compile_code(source, output_formats=['bytecode'], settings=<config>, input_bundle={lib1.vy})",
                               "expected": "StateAccessViolation (\"Cannot ... from a constant function\")"}, key=codegen_key(rule, where, prog))
                continue
            # the property lists these rules explicitly ("... are rejected at compile time"): an accepted rule-breaking program
            # is a failing input of that oracle even when no run-time misbehaviour can be shown
            nfail += 1
            ctx.violation("failing-input", f"rule-breaking program ({rule}) is accepted by the compiler (all pipelines); `check` rejects it",
                          {"source": src, "lib1.vy": lib, "rule": rule, "where": where, "accepted_by": [c.name for c in accepting_cfgs],
                           "how": "vyper.compiler.compile_code(source, output_formats=['bytecode'], settings=<config>, input_bundle={lib1.vy})",
                           "expected": "a user-facing compile error"}, key=f"c11:accepted:{rule}")
        else:
            stats["compiler_stricter"] += 1
            if rule == "valid":
                mism.append({"rule": rule, "where": where, "what": "compiler rejects a program of the valid set that `check` accepts", "error": why, "source": full_src})
    # every seeded violation must be rejected by the real compiler (independent of the model)
    for rule, (a, r) in by_rule.items():
        if rule != "valid" and a:
            ctx.log(f"note: {a} programs with violation {rule} were accepted by the compiler")
    ctx.corr["programs"] = len(cases)
    ctx.corr["by_rule_accept_reject"] = by_rule
    ctx.corr["verdicts"] = stats
    ctx.corr["dynamic_calls"] = ncalls
    ctx.corr["evaluations"] = len(cases) + ncalls
    ctx.corr["distinct_nontrivial"] = len({G.c_prog(c[2]) for c in cases})
    from vlib.configs import configs as _cfgs
    qc = _cfgs("quick")
    if ctx.tier == "thorough":
        tc = _cfgs("thorough")
        rr = ctx.rng("sweep")
        cfgs_of = lambda k: qc + rr.sample(tc, 10)  # noqa
    else:
        cfgs_of = lambda k: qc  # noqa
    ns, fs = staticcall_sweep(ctx, accepted_progs, cfgs_of, tgt_lit)
    ncalls += ns
    nfail += fs
    ctx.corr["evaluations"] += ns
    nx, fx = fixed_cases(ctx, dyn_cfgs)
    ctx.corr["fixed_case_compiles"] = nx
    ctx.corr["evaluations"] += nx
    nfail += fx
    loop_cfgs = [Config(False, "none", "cancun"), Config(False, "gas", "cancun"), Config(False, "codesize", "cancun"),
                 Config(True, "none", "cancun"), Config(True, "gas", "cancun"), Config(True, "codesize", "cancun"), Config(True, "O3", "cancun")]
    nl, fl = loop_matrix(ctx, loop_cfgs if ctx.tier == "quick" else loop_cfgs + configs_all(ctx))
    ctx.corr["evaluations"] += nl
    nfail += fl
    nb, fb = bound_probes(ctx, dyn_cfgs if ctx.tier == "quick" else configs_all(ctx))
    ctx.corr["bound_probe_calls"] = nb
    ctx.corr["evaluations"] += nb
    nfail += fb
    ctx.corr["rule"] = "evaluations = programs classified by front end and by check + EVM calls on accepted programs; distinct = distinct program terms"
    ctx.samples.append({"rule": cases[1][0], "where": cases[1][1], "source_tail": G.v_prog(cases[1][2], tgt_lit)[0][-600:]})
    # known findings must not mask other reports: only NEW failing inputs replace the correspondence verdicts
    new_fail = sum(1 for v in ctx.violations if v["kind"] == "failing-input")
    if guard_err and not new_fail:
        ctx.violation("translator-rejected", "cannot record the venom range-loop guard from Stmt._lower_range_loop: " + guard_err, {"error": guard_err})
    if not new_fail:
        if not b["ok"]:
            ctx.violation("theorem-broken", f"{b.get('failed_lemma')} in {b['file']}",
                          {"theorem": b.get("failed_lemma"), "file": b["file"], "coq_output": b["out"][-1500:]})
        for m in mism[:6]:
            ctx.violation("correspondence-broken", f"EffVy check vs real front end: {m['what']} (rule {m['rule']})", m)
    ctx.trusted += ["Coq 8.16.1 kernel + vm_compute", "coq/C11/Effects.v: hand-written calculus and checker, tied to local.py/module.py only by the "
                    "generated-program differential", "tools/vlib/c11_gen.py printers (calculus term -> Vyper source, -> Coq term)",
                    "pyrevm STATICCALL semantics"]
    ctx.assumptions += ["external callees behave as their declared mutability says (a `pure` interface function is a function of its argument)"]
