"""C15: legacy IR optimiser and assembly peephole optimiser never change results."""
import re
import time

from vlib import coqrun
from vlib import c15_asm
from vlib.c15_evm import BRANCH_CONTEXTS, CONTEXTS, Differ
from vlib.c15_gen import gen_utils
from vlib.c15_ir import (BOPS_ARITH, HALF, PCS, W, coq_of, ir_of, lit_boundary, show_binop_result, show_shape)
from vlib.common import COQ
from vlib.py2coq import Unsupported

LEVEL = "proof"
META = {
    "category": "proof",
    "text": "Coq theorems, for every compositional semantics of the IR node kinds the optimiser does not interpret and every "
            "state space (hypotheses SemOk / MemOk, shown satisfiable): the optimiser's compile-time arithmetic equals the EVM "
            "word operation for all legal literals (fold table and utils helpers regenerated from /repo each run); every "
            "rewrite of _optimize_binop / _comparison_helper and the whole-tree recursion of _optimize (optimize_sound) preserve "
            "value, state and halting (truthiness in truthy contexts); the seq-level merges (memzero, calldataload/dload/"
            "mload copies with the overlap guard) preserve memory; each assembly peephole pass preserves halting behaviour on "
            "a labelled-program semantics; the unique_symbol bookkeeping (the optimiser never loses, duplicates or invents "
            "a marker a binop rewrite must keep); the compile_ir lowering pushes the value of pure expressions and keeps "
            "its stack-height bookkeeping exact on every path through if / repeat / break / continue; the return-sequence rewrite is the calling convention it is assumed to be in the frames the front end builds; optimize never raises the symbol panics on front-end-shaped trees; for the non-loop statement fragment the emitted assembly realises the IR meaning on a pc machine with a store, and this composes with optimiser soundness (opt_then_lower_sound); `with` / `set` (and repeat / break / continue) have a fixed environment-binding meaning (SemW.evalW) that is proved to coincide with the optimiser theorems' `eval` on every binder-free tree, and the lowering is proved value-level sound against it for the statement fragment including with / set (variables on the stack: DUPn reads, SWAPn POP writes, POP / SWAP1 POP leaves the scope), also for whole emitted programs; evalW is executed against compile_ir + pyrevm on seeded programs over with / set / repeat / break / continue. Models are tied to the source by exact output equality (complete boundary grid, "
            "seeded random trees, generated and compiler-emitted assemblies) and by executing the same IR / assembly / "
            "contracts with and without the optimisers on an EVM.",
    "level_note": "Trusted: Coq kernel + vm_compute, py2coq translator, Word256.v (tied to pyrevm by C14's wordtie), hand models "
                  "tied by exact-output differential (exhaustive on the grid, sampled beyond). Memory model without gas: "
                  "merges over negative literal offsets are declined (no claim). Per-pass hypotheses on uninterpreted "
                  "instructions (0/1 results of CALL-like ops, label names not inspected) and unique labels. optimize_assembly as a whole is "
                  "proved under the conjunction of these hypotheses (shown satisfiable). "
                  "The optimiser theorems are stated for `eval` (with/set uninterpreted), not for evalW: optimiser-then-lowering "
                  "composition is proved only for trees whose optimised form is binder-free; loops have a tied meaning but no "
                  "value-level lowering proof.",
    "technique": "Coq proof over py2coq-translated source and hand models + exact-output differential + EVM differential",
}

IMPORTS = ("From Verif Require Import Base.Word256 Base.PyInt C15.Syntax C15.GenUtils C15.Optimizer.\n"
           "Open Scope string_scope.\n")
STRS = re.compile(r'"([^"]*)"')
REPORTED = set()


MAX_FAILING = 4


def failing(ctx, name, detail, key):
    """failing-input with a global cap per run (one defect usually shows up in many grid cells)"""
    n = ctx.extra.get("failing_inputs_found", 0)
    ctx.extra["failing_inputs_found"] = n + 1
    if n < MAX_FAILING:
        ctx.violation("failing-input", name, detail, key=key)


def report_once(ctx, key, name, detail):
    """known-defect style reporting: one failing-input per stable key per run"""
    if key in REPORTED:
        return
    REPORTED.add(key)
    ctx.violation("failing-input", name, detail, key=key)


EXP_SMALL = [0, 1, 2, 3, 8, 255, 256, 257]
EXP_BIG = [HALF, W - 1, -1]
EXP_BIG_BASES = [0, 1, 2, 3, W - 1]


def grid_shapes(ctx):
    rnd = ctx.rng("binopgrid")
    lits = lit_boundary()
    if ctx.tier != "thorough":
        # quick: the boundary values every rule looks at + a seeded part of the rest
        core = [0, 1, 2, 8, 256, HALF - 1, HALF, HALF + 1, W - 2, W - 1, -1, -2, -HALF, -HALF + 1]
        rest = [v for v in lits if v not in core]
        lits = core + rnd.sample(rest, 4)
    lits = lits + [rnd.randrange(-HALF, W) for _ in range(1 if ctx.tier != "thorough" else 3)]
    a = [("lit", v) for v in lits] + [("var", "x"), ("var", "y"), ("var", "calldatasize"), ("cx", 1),
                                      ("bin", "add", ("var", "x"), ("lit", 1)), ("un", "iszero", ("var", "x"))]
    blits = lits
    if ctx.tier != "thorough":
        # quick: fewer second-operand literals (the literal x literal folds are covered by arith_fold_sound + the EVM folds)
        bcore = [0, 1, 2, 256, HALF - 1, HALF, W - 2, W - 1, -1, -HALF, -HALF + 1]
        blits = bcore + rnd.sample([v for v in lits if v not in bcore], 2)
    b = [("lit", v) for v in blits] + [("var", "x"), ("var", "y"), ("cx", 1), ("cx", 2),
                                       ("bin", "add", ("var", "x"), ("lit", 1))]
    return lits, a, b


def real_binop(op, a, b, pv):
    from vyper.codegen.ir_node import IRnode
    from vyper.ir import optimizer as O
    args = [IRnode.from_list(ir_of(a)), IRnode.from_list(ir_of(b))]
    try:
        return show_binop_result(O._optimize_binop(op, args, None, pv))
    except Exception as e:  # noqa
        return "E:" + type(e).__name__


def binop_grid_tie(ctx, differ):
    """exact output equality: real _optimize_binop vs Coq opt_binop on the complete grid."""
    lits, A, B = grid_shapes(ctx)
    nonlit_b = [s for s in B if s[0] != "lit"]
    exp_b_small = [("lit", v) for v in EXP_SMALL] + nonlit_b
    exp_a_big = [("lit", v) for v in EXP_BIG_BASES] + [s for s in A if s[0] != "lit"]
    exp_b_big = [("lit", v) for v in EXP_BIG]
    defs = (f"Definition AS := [{'; '.join(coq_of(s) for s in A)}].\n"
            f"Definition BS := [{'; '.join(coq_of(s) for s in B)}].\n"
            f"Definition EBS := [{'; '.join(coq_of(s) for s in exp_b_small)}].\n"
            f"Definition EAB := [{'; '.join(coq_of(s) for s in exp_a_big)}].\n"
            f"Definition EBB := [{'; '.join(coq_of(s) for s in exp_b_big)}].\n")
    exprs, meta = [], []
    pcs = list(PCS)
    if ctx.tier != "thorough":
        # PAssert behaves like PIf and POther like PNone in the code under test: quick keeps PNone / PIf / PIszero
        # (thorough: all five); the EVM grid below still runs assert and plain-argument contexts
        pcs = [p for p in pcs if p[0] not in ("PAssert", "POther")]
    for op in BOPS_ARITH:
        for pcn, pv in pcs:
            doms = [("AS", "BS", A, B)] if op != "exp" else [("AS", "EBS", A, exp_b_small), ("EAB", "EBB", exp_a_big, exp_b_big)]
            for da, db, la, lb in doms:
                exprs.append(f"map (fun p => show_res (opt_binop B_{op} (fst p) (snd p) {pcn})) (list_prod {da} {db})")
                meta.append((op, pv, la, lb))
    # Printing ~30 k result strings costs more than computing them: Coq returns one hash per (op, context) block of the
    # grid, python hashes the real optimiser's strings the same way; only blocks whose hashes differ are printed in full.
    P = 1 << 63       # primitive 63-bit integers: wrap-around arithmetic, fast under vm_compute
    hdefs = ("From Coq Require Import Ascii Uint63.\n"
             "Definition code (c : ascii) : int := match c with Ascii b0 b1 b2 b3 b4 b5 b6 b7 => "
             "((if b0 then 1 else 0) + (if b1 then 2 else 0) + (if b2 then 4 else 0) + (if b3 then 8 else 0) "
             "+ (if b4 then 16 else 0) + (if b5 then 32 else 0) + (if b6 then 64 else 0) + (if b7 then 128 else 0))%uint63 end.\n"
             "Fixpoint hstr (s : string) (h : int) : int := match s with EmptyString => (h * 131 + 10)%uint63 "
             "| String c t => hstr t (h * 131 + code c)%uint63 end.\n"
             "Definition hlist (l : list string) : Z := Uint63.to_Z (fold_left (fun h s => hstr s h) l 7%uint63).\n")

    def hlist(strs):
        h = 7
        for x in strs:
            for ch in x:
                h = (h * 131 + ord(ch)) % P
            h = (h * 131 + 10) % P
        return h

    reals = [[real_binop(op, a, b, pv) for a in la for b in lb] for (op, pv, la, lb) in meta]
    hexprs = [f"[Verif.Base.Hex.hexZ (hlist ({e}))]" for e in exprs]
    houts = coqrun.eval_cases(IMPORTS + defs + hdefs, hexprs, "c15binop", shard=(len(exprs) + 3) // 4,
                              timeout=220 if ctx.tier != "thorough" else 900)
    diff = [i for i, (o, rl) in enumerate(zip(houts, reals)) if STRS.findall(o) != [format(hlist(rl), "x")]]
    outs_full = {}
    if diff:
        full = coqrun.eval_cases(IMPORTS + defs, [exprs[i] for i in diff], "c15binopf", shard=max(1, (len(diff) + 3) // 4),
                                 timeout=220 if ctx.tier != "thorough" else 900)
        outs_full = dict(zip(diff, full))
    n, rewrites, mism = 0, 0, []
    for k, ((op, pv, la, lb), rl) in enumerate(zip(meta, reals)):
        n += len(rl)
        rewrites += sum(1 for r in rl if r != "N")
        if k not in outs_full:
            continue
        strs = STRS.findall(outs_full[k])
        if len(strs) != len(la) * len(lb):
            raise RuntimeError(f"coq output size mismatch for {op}: {len(strs)}")
        i = 0
        for a in la:
            for b in lb:
                r = rl[i]
                if r != strs[i] and len(mism) < 40:
                    mism.append((op, pv, a, b, r, strs[i]))
                i += 1
        if not any(m[0] == op and m[1] == pv for m in mism) and len(mism) < 40:
            raise RuntimeError(f"hash mismatch without string mismatch for {op} {pv}")
    ctx.corr["binop_grid_cases"] = n
    ctx.corr["binop_grid_rewrites"] = rewrites
    ctx.samples.append({"_optimize_binop": ["sdiv", "x", hex(W - 1)], "model=real": "(sub 0 x)"})
    found = False
    found_n = 0
    for op, pv, a, b, r, m in mism[:12]:
        if found_n >= 2:
            break
        # Search: run this very expression on the EVM with and without the optimiser
        s = ("bin", op, a, b)
        cn = {None: "value", "if": "if", "assert": "assert", "iszero": "iszero", "add": "other"}[pv]
        d = differ.run_shape(s, cn, ctx.rng("search"))
        if d is not None:
            found = True
            found_n += 1
            failing(ctx, "optimised IR behaves differently from unoptimised IR", d, key=f"iropt:{show_shape(s)}:{cn}")
    if mism and not found:
        op, pv, a, b, r, m = mism[0]
        ctx.violation("correspondence-broken", "opt_binop model != real _optimize_binop (exact output)",
                      {"op": op, "parent": pv, "a": show_shape(a), "b": show_shape(b), "real": r, "model": m,
                       "n_mismatches_shown": len(mism)})
    return n, found


def evm_grid(ctx, differ):
    """property's own observation on the op x shape x context grid."""
    rnd = ctx.rng("evmgrid")
    lits = lit_boundary()
    cxl = [0, 1, W - 1, -1, 2, HALF, -HALF]
    n, found = 0, 0
    reported = set()
    for op in BOPS_ARITH + ["shl", "shr", "sar"]:
        x, y, c1, c2 = ("var", "x"), ("var", "y"), ("cx", 1), ("cx", 2)
        shapes = [("bin", op, x, ("lit", c)) for c in lits] + [("bin", op, ("lit", c), x) for c in lits]
        shapes += [("bin", op, x, y), ("bin", op, x, x), ("bin", op, c1, x), ("bin", op, x, c1), ("bin", op, c1, c2)]
        shapes += [("bin", op, c1, ("lit", c)) for c in cxl] + [("bin", op, ("lit", c), c1) for c in cxl]
        if ctx.tier != "thorough":
            keep = set(rnd.sample(range(len(shapes)), len(shapes) // 3))
        for i, s in enumerate(shapes):
            for cn in CONTEXTS + BRANCH_CONTEXTS:
                if ctx.tier != "thorough" and i not in keep and cn not in ("value", "if") and \
                        not (op == "or" and cn in BRANCH_CONTEXTS):
                    continue
                d = differ.run_shape(s, cn, rnd, max_inputs=12 if ctx.tier != "thorough" else 40)
                n += 1
                if d is None:
                    continue
                if op == "or" and cn in BRANCH_CONTEXTS:
                    # known defect: the truthy-only rule (or x c) -> 1 fires on the VALUE of an if branch
                    d["note"] = ("_optimize_binop: is_truthy holds for every child of `if`, also the valued branches; "
                                 "source replay: `return (msg.value | 2) if c else 0` (legacy, optimize=gas)")
                    report_once(ctx, "truthy-or-under-if-branch",
                                "truthy-context rule (or x c)->1 applied to the value of an if branch", d)
                    continue
                if found < 3:
                    found += 1
                    failing(ctx, "optimised IR behaves differently from unoptimised IR", d, key=f"iropt:{show_shape(s)}:{cn}")
    # literal x literal: the constant folder against run-time evaluation (Search for arith_fold_sound)
    nl = 0
    for op in BOPS_ARITH:
        la = lits
        lb = lits if op != "exp" else EXP_SMALL + EXP_BIG
        pairs = [(a, b) for a in la for b in lb]
        if ctx.tier != "thorough":
            pairs = rnd.sample(pairs, min(len(pairs), 160 if op in ("sdiv", "smod", "div", "mod", "exp") else 70))
        for a, b in pairs:
            s = ("bin", op, ("lit", a), ("lit", b))
            d = differ.run_shape(s, "value", rnd, max_inputs=1)
            nl += 1
            if d is not None and found < 3:
                found += 1
                failing(ctx, "constant folding differs from run-time evaluation", d, key=f"iropt:{show_shape(s)}:value")
    # seq-level rewrites of _optimize (memzero / calldataload / mload->mcopy merges, empty seqs, if-on-literal, ...)
    from vlib.c15_evm import BASE_X, merge_programs
    nm = 0
    for prog in merge_programs(rnd):
        ins = [(x, y, rnd.choice(BASE_X), rnd.choice(BASE_X)) for x in (0, 3, 5, W - 1, HALF) for y in (0, 3, W - 1)]
        d = differ.run_program(prog, ins)
        nm += 1
        if d is not None and found < 3:
            found += 1
            failing(ctx, "optimised IR behaves differently from unoptimised IR (seq-level rewrite)", d, key="iropt:seq:" + str(nm))
    # permanent probe of the known IR-level finding `merge-negative-literal` (python adds literal offsets / lengths as
    # unbounded ints, the EVM wraps them): both replays, reported under one stable key
    probes = [
        ["seq", ["mstore", 0, 0], ["calldatacopy", 32, "calldatasize", -5], ["return", 0, 64]],
        ["seq", ["mstore", 0, ["calldataload", -32]], ["mstore", 32, ["calldataload", 0]], ["return", 0, 64]],
    ]
    for prog in probes:
        d = differ.run_program(prog, [(7, 9, 11, 13), (W - 1, 1, 2, 3)])
        nm += 1
        if d is not None:
            d["note"] = "_merge_memzero / _merge_load with a negative literal length / source offset (hand-written IR only)"
            report_once(ctx, "merge-negative-literal", "seq-level merge over a negative literal changes behaviour", d)
    ctx.corr["evm_seq_programs"] = nm
    ctx.corr["evm_grid_programs"] = n
    ctx.corr["evm_fold_programs"] = nl
    return found


def tree_tie(ctx, differ):
    """exact output equality: real optimizer.optimize vs the Coq model OptTree.optimize on seeded random trees
    (depth <= 5) over the vocabulary _optimize rewrites, under cancun and pre-cancun rules."""
    from vlib import c15_tree
    from vyper.codegen.ir_node import IRnode
    from vyper.compiler.settings import Settings, anchor_settings
    from vyper.exceptions import CompilerPanic
    rnd = ctx.rng("trees")
    want = 400 if ctx.tier != "thorough" else 6000
    cases = []
    while len(cases) < want:
        t = c15_tree.gen_tree(rnd, rnd.choice([2, 3, 4, 5]))
        ev = rnd.choice(["cancun", "shanghai"])
        try:
            with anchor_settings(Settings(evm_version=ev)):
                node = IRnode.from_list(t)
                cases.append((t, ev, c15_tree.coq_of_node(node), c15_tree.show_node(node)))
        except Exception:  # noqa: generator produced something the IRnode constructor rejects
            continue
    # directed: every binop with an identity/absorbing literal next to an operand that loses / keeps a unique_symbol
    # (the _check_symbols bookkeeping after dead-branch elimination)
    dead = ["if", 1, "y", ["seq", ["unique_symbol", "s1"], "x"]]
    keep = ["seq", ["unique_symbol", "s2"], ["sload", 0]]
    for o in list(BOPS_ARITH) + ["shl", "shr", "sar"]:
        for lit in (0, 1, W - 1):
            for opnd in (dead, keep):
                for t in ([o, opnd, lit], [o, lit, opnd]):
                    with anchor_settings(Settings(evm_version="cancun")):
                        node = IRnode.from_list(t)
                        cases.append((t, "cancun", c15_tree.coq_of_node(node), c15_tree.show_node(node)))
    # generated seq lists made of mergeable runs (exact-output tie of the merge functions through optimize)
    nseq = 200 if ctx.tier != "thorough" else 2000
    k = 0
    while k < nseq:
        body = []
        for _ in range(rnd.randrange(1, 5)):
            body += c15_tree.gen_run(rnd)
            if rnd.random() < 0.3:
                body.append(rnd.choice([["seq"], "pass", ["sstore", 0, 1], ["mstore", "x", 0]]))
        t = ["seq"] + body + [["stop"]]
        ev = rnd.choice(["cancun", "shanghai"])
        with anchor_settings(Settings(evm_version=ev)):
            node = IRnode.from_list(t)
            cases.append((t, ev, c15_tree.coq_of_node(node), c15_tree.show_node(node)))
        k += 1
    imports = ("From Verif Require Import Base.PyInt C15.Syntax C15.GenUtils C15.Optimizer C15.OptTree.\n"
               "Open Scope string_scope.\n")
    exprs = [f"show_opt (optimize {'true' if ev == 'cancun' else 'false'} {c})" for (_t, ev, c, _s) in cases]
    # direct tie of usyms against IRnode.unique_symbols (plain trees and under `deploy`, which skips its 2nd argument)
    sym_cases = []
    for (t, ev, _c, _s) in cases[:(150 if ctx.tier != "thorough" else 1500)]:
        for tt in (t, ["deploy", ["seq", ["unique_symbol", rnd.choice(c15_tree.SYMS)], 0], ["seq", t, ["stop"]],
                       rnd.choice([0, ["seq", ["unique_symbol", rnd.choice(c15_tree.SYMS)], 0]])]):
            try:
                n2 = IRnode.from_list(tt)
                c2 = c15_tree.coq_of_node(n2)
            except Exception:  # noqa
                continue
            try:
                real = ",".join(sorted(n2.unique_symbols))
            except CompilerPanic:
                real = "PANIC"
            sym_cases.append((tt, c2, real))
    nopt = len(exprs)
    exprs += [f"show_syms (usyms {c2})" for (_tt, c2, _r) in sym_cases]
    nsh = 3 if ctx.tier != "thorough" else 6
    outs = coqrun.eval_cases(imports, exprs, "c15tree", shard=(len(exprs) + nsh - 1) // nsh,
                             timeout=220 if ctx.tier != "thorough" else 1200)
    sym_out = {"PANIC": 0, "set": 0, "nonempty": 0}
    for (tt, _c2, real), o in zip(sym_cases, outs[nopt:]):
        m = o.strip('"')
        m = m if m == "PANIC" else ",".join(sorted(x for x in m.split(",") if x))
        sym_out["PANIC" if real == "PANIC" else "set"] += 1
        sym_out["nonempty"] += 1 if real not in ("", "PANIC") else 0
        if m != real:
            ctx.violation("correspondence-broken", "the Coq model of IRnode.unique_symbols (OptTree.usyms) disagrees with "
                          "vyper/codegen/ir_node.py", {"ir": str(tt)[:600], "real": real, "model": m})
            break
    ctx.corr["usyms_cases"] = sym_out
    outs = outs[:nopt]
    changed, merged, outcomes, mism, declined = 0, 0, {}, [], 0
    for (t, ev, _c, s0), o in zip(cases, outs):
        m = o.strip('"')
        r = c15_tree.real_optimize(t, ev)
        if m == "DECLINED":
            # a mergeable node with a negative literal offset/length: the model makes no claim (see notes)
            declined += 1
            continue
        if r != s0:
            changed += 1
        k = r if r in ("STATIC", "ASSERT", "PANIC") or r.startswith("EXC") else "tree"
        outcomes[k] = outcomes.get(k, 0) + 1
        for w in ("calldatacopy", "mcopy", "dloadbytes"):
            if r.count(w) > s0.count(w):
                merged += 1
                break
        if r != m:
            mism.append((t, ev, s0, r, m))
    # permanent regression probe (IR replay) of optimizer-symbol-check-stale-set
    probe = ["add", ["if", 1, 0, ["seq", ["unique_symbol", "s"], 2]], ["sload", 1]]
    pr = c15_tree.real_optimize(probe, "cancun")
    if pr == "PANIC":
        report_once(ctx, "optimizer-symbol-check-stale-set",
                    "optimizer.optimize panics (missing symbols) after dead-branch elimination under a rewritten binop",
                    {"ir": repr(probe), "observed": "CompilerPanic", "expected": "(sload 1)"})
    ctx.corr["tree_cases"] = len(cases)
    ctx.corr["tree_cases_rewritten"] = changed
    ctx.corr["tree_cases_with_merge"] = merged
    ctx.corr["tree_outcomes"] = outcomes
    ctx.corr["tree_cases_declined"] = declined
    if declined * 20 > len(cases):
        ctx.violation("correspondence-broken", "the optimize model declines too many trees", {"declined": declined})
    # observation: a sample of the trees executed with and without the optimisers on the EVM
    def as_program(t):
        body = t if IRnode.from_list(t).valency == 0 else ["mstore", 0, t]
        return ["with", "x", ["calldataload", 0], ["with", "y", ["calldataload", 32], ["seq", body, ["return", 0, 256]]]]

    nrun = 0
    for (t, ev, _c, s0) in cases[:(120 if ctx.tier != "thorough" else 1500)]:
        if ev != "cancun" or "dload" in s0 or "mcopy" in s0:
            continue
        ins = [(x, y, 1, 2) for x in (0, 5, W - 1) for y in (0, 1)]
        try:
            d = differ.run_program(as_program(t), ins)
        except Exception:  # noqa: the random tree does not assemble (e.g. stack too deep)
            continue
        nrun += 1
        if d is not None and "StaticAssertion" in str(d.get("iropt", "")):
            d = None      # an (assert 0) in a branch that is not taken: compile-time rejection is by design
        if d is not None:
            d["tree"] = s0
            failing(ctx, "optimised tree behaves differently from the unoptimised tree", d, key="tree:" + s0[:80])
            break
    ctx.corr["tree_cases_executed"] = nrun
    found = False
    for t, ev, s0, r, m in mism[:6]:
        # Search: execute the very tree with and without the optimiser (wrapped so that it leaves a result)
        prog = ["with", "x", ["calldataload", 0], ["with", "y", ["calldataload", 32],
                ["seq", t if IRnode.from_list(t).valency == 0 else ["mstore", 0, t], ["return", 0, 256]]]]
        ins = [(x, y, 0, 0) for x in (0, 1, 5, W - 1, HALF) for y in (0, 1, W - 1)]
        try:
            d = differ.run_program(prog, ins)
        except Exception:  # noqa: e.g. unbound variable names in the random tree
            d = None
        if d is not None:
            found = True
            d["tree"] = s0
            failing(ctx, "optimised tree behaves differently from the unoptimised tree", d, key="tree:" + s0[:80])
            break
    if mism and not found:
        t, ev, s0, r, m = mism[0]
        ctx.violation("correspondence-broken", "OptTree.optimize model != real optimizer.optimize (exact output)",
                      {"tree": s0, "evm": ev, "real": r, "model": m, "n_mismatches": len(mism)})
    return len(cases), found


def peephole_tie(ctx):
    """exact output equality: every pass of evm/assembler/optimizer.py and optimize_assembly itself vs the Coq models
    (Peephole.v, JumpOpt.v) on generated stack code / labelled code containing every pattern and on the unoptimised
    assemblies (runtime + deploy) the compiler emits for the corpus contracts."""
    rnd = ctx.rng("asm")
    k = 40 if ctx.tier != "thorough" else 1000
    asms = [("gen", c15_asm.gen_asm(rnd, rnd.randrange(3, 40))) for _ in range(k)]
    asms += [("genl", c15_asm.gen_labelled_asm(rnd, rnd.randrange(3, 45))) for _ in range(2 * k)]
    names = None
    if ctx.tier != "thorough":
        from vlib.c02_corpus import CORPUS
        from vlib.c15_corpus import OWN
        names = set(rnd.sample([c["name"] for c in CORPUS], 1) + rnd.sample([c["name"] for c in OWN], 2))
    try:
        corpus = c15_asm.corpus_assemblies(names)
    except Exception:  # noqa
        corpus = []
    if ctx.tier != "thorough":
        # quick: at most ~1100 items of compiler-emitted assembly (the whole-pipeline model is quadratic)
        corpus.sort(key=lambda p: len(p[1]))
        kept, tot = [], 0
        for p_ in corpus:
            if tot + len(p_[1]) <= 1100 or not kept:
                kept.append(p_)
                tot += len(p_[1])
        corpus = kept
    asms += corpus
    has_jump = (COQ / "C15" / "JumpOpt.vo").exists()
    passes = [("_stack_peephole_opts", "show_items (stack_peephole {})"), ("_merge_iszero", "show_items (merge_iszero {})")]
    if has_jump:
        passes += [("_prune_unreachable_code", "show_items (Ok (prune_unreachable {}))"),
                   ("_prune_inefficient_jumps", "show_items (Ok (prune_inefficient_jumps {}))"),
                   ("_optimize_inefficient_jumps", "show_items (Ok (optimize_inefficient_jumps {}))"),
                   ("_merge_jumpdests", "show_items (Ok (snd (merge_jumpdests {})))"),
                   ("_prune_unused_jumpdests", "show_items (Ok (prune_unused_jumpdests {}))"),
                   ("optimize_assembly", "show_items (optimize_assembly {})")]
    imports = ("From Verif Require Import Base.PyInt C15.Peephole" + (" C15.JumpOpt" if has_jump else "") + ".\n"
               "Open Scope string_scope.\n"
               "Definition show_items (r : res (list item)) : list string := "
               "match r with Ok l => map show_item l | Err Raised => [\"PANIC\"] | Err _ => [\"E\"] end.\n")
    # the opcode sets the passes consult are compared with the lists the models (and their proofs) use
    set_exprs = ["ret01", "comm_ops"] + (["terminal_ops"] if has_jump else [])
    exprs, meta = [], []
    for i, (_nm, a) in enumerate(asms):
        defs = c15_asm.coq_items(a)
        for fn, tmpl in passes:
            if len(a) > 400 and fn not in ("optimize_assembly", "_merge_jumpdests", "_prune_unused_jumpdests"):
                continue      # big corpus assemblies: the whole-pipeline model and the two global passes
            exprs.append(tmpl.format(defs))
            meta.append((i, fn))
    nsh = 3 if ctx.tier != "thorough" else 8
    outs = coqrun.eval_cases(imports, exprs + set_exprs, "c15asm", shard=(len(exprs) + len(set_exprs) + nsh - 1) // nsh,
                             timeout=220 if ctx.tier != "thorough" else 1500)
    model_sets = {nm: set(STRS.findall(o)) for nm, o in zip(set_exprs, outs[len(exprs):])}
    outs = outs[:len(exprs)]
    from vyper.evm.assembler import optimizer as AO
    from vyper.ir.optimizer import COMMUTATIVE_OPS
    live_sets = {"ret01": set(AO._RETURNS_ZERO_OR_ONE), "terminal_ops": set(AO._TERMINAL_OPS),
                 "comm_ops": {x.upper() for x in COMMUTATIVE_OPS} - {"NE"}}
    set_diff = {nm: sorted(live_sets[nm] ^ model_sets[nm]) for nm in model_sets if live_sets[nm] != model_sets[nm]}
    ctx.corr["asm_opcode_sets_checked"] = sorted(model_sets)
    changed, bad = 0, None
    for (i, fn), o in zip(meta, outs):
        a = asms[i][1]
        m = STRS.findall(o)
        r = c15_asm.real_pass(fn, a)
        if r != [c15_asm.show_item(x) for x in a]:
            changed += 1
        if r != m and bad is None:
            j = next((q for q in range(min(len(r), len(m))) if r[q] != m[q]), min(len(r), len(m)))
            bad = {"function": fn, "source": asms[i][0], "assembly": c15_asm.show(a)[:3000], "first_difference_at": j,
                   "real": " ".join(r[max(0, j - 5):j + 8]), "model": " ".join(m[max(0, j - 5):j + 8])}
    ctx.corr["peephole_cases"] = len(exprs)
    ctx.corr["peephole_cases_rewritten"] = changed
    ctx.corr["peephole_corpus_assemblies"] = len(corpus)
    ctx.corr["peephole_corpus_items"] = sum(len(a) for _n, a in corpus)
    # observation / Search: stack programs with every window, with and without optimize_assembly, on the EVM
    from vlib.evm import Chain
    found_here = False
    if set_diff:
        probe = c15_asm.opcode_set_probe(Chain("cancun"), set_diff.get("ret01", []))
        if probe is not None:
            found_here = True
            failing(ctx, "an opcode that does not return 0/1 is treated as such: X ISZERO ISZERO collapses to X", probe,
                    key="asmopt:ret01:" + probe["opcode"])
        else:
            ctx.violation("correspondence-broken", "opcode sets of evm/assembler/optimizer.py differ from the model's",
                          {"symmetric_difference": set_diff})
    npat, diff = c15_asm.pattern_evm_differential(Chain("cancun"), ctx.rng("asmevm"))
    ctx.corr["peephole_evm_programs"] = npat
    if diff is not None:
        failing(ctx, "optimize_assembly changes the result of a stack program", diff, key="asmopt:" + diff["assembly"][-60:])
    elif bad is not None and not found_here:
        ctx.violation("correspondence-broken", "Peephole model != real assembly optimiser pass (exact output)", bad)
    return len(exprs) + npat


def semantics_tie(ctx):
    """Syntax.v's meaning of the interpreted node kinds (incl. the pseudo-ops le ge sle sge ne ceil32 as compile_ir lowers
    them, argument order, shifts) vs the real compile_ir (no optimiser) + pyrevm, on a boundary grid of run-time operands."""
    from vyper.codegen.ir_node import IRnode
    from vyper.compiler.settings import OptimizationLevel
    from vyper.evm.assembler import assembly_to_evm
    from vyper.ir import compile_ir
    from vlib.evm import Chain
    rnd = ctx.rng("semtie")
    g = [0, 1, 2, 31, 32, 33, 255, 256, HALF - 1, HALF, HALF + 1, W - 33, W - 32, W - 2, W - 1, rnd.randrange(W), rnd.randrange(W)]
    if ctx.tier != "thorough":      # quick: 12 of the 17 operand values (the ends always)
        g = [0, 1, HALF - 1, HALF, W - 2, W - 1] + rnd.sample(g[2:8] + g[10:13] + g[15:], 6)
    ops2 = BOPS_ARITH + ["shl", "shr", "sar"]
    ge = [0, 1, 2, 3, 255, 256, 257]        # exponents: modular exponentiation with 256-bit exponents is slow in vm_compute
    exprs = [f"map (fun p => bop_sem B_{o} (fst p) (snd p)) (list_prod G {'GE' if o == 'exp' else 'G'})" for o in ops2]
    exprs += ["map (uop_sem U_iszero) G", "map (uop_sem U_not) G", "map ceil32_sem G"]
    imports = ("From Verif Require Import Base.Word256 C15.Syntax.\n" + f"Definition G := {coqrun.zlist(g)}.\n"
               f"Definition GE := {coqrun.zlist(ge)}.\n")
    outs = coqrun.eval_zlists(imports, exprs, "c15sem", shard=9)
    chain = Chain("cancun")

    def run_ir(ir_list, inputs):
        asm = compile_ir.compile_to_assembly(IRnode.from_list(ir_list), OptimizationLevel.NONE)
        addr = chain.set_code(None, assembly_to_evm(asm)[0])
        res = []
        for inp in inputs:
            r = chain.call(addr, b"".join(v.to_bytes(32, "big") for v in inp))
            res.append(int.from_bytes(r.out, "big") if r.ok and len(r.out) == 32 else None)
        return res
    n, bad = 0, None
    for o, exp in zip(ops2, outs):
        pairs = [(a, b) for a in g for b in (ge if o == "exp" else g)]
        got = run_ir(["seq", ["mstore", 0, [o, ["calldataload", 0], ["calldataload", 32]]], ["return", 0, 32]], pairs)
        for (a, b), e, r in zip(pairs, exp, got):
            n += 1
            if e != r and bad is None:
                bad = {"ir": f"({o} {a} {b})", "coq_semantics": str(e), "compile_ir+evm": str(r)}
    for o, exp in zip(["iszero", "not", "ceil32"], outs[len(ops2):]):
        got = run_ir(["seq", ["mstore", 0, [o, ["calldataload", 0]]], ["return", 0, 32]], [(a,) for a in g])
        for a, e, r in zip(g, exp, got):
            n += 1
            if e != r and bad is None:
                bad = {"ir": f"({o} {a})", "coq_semantics": str(e), "compile_ir+evm": str(r)}
    ctx.corr["semantics_tie_cases"] = n
    if bad is not None:
        ctx.violation("correspondence-broken", "C15/Syntax.v semantics != real compile_ir lowering executed on the EVM", bad)
    return n


def lower_tie(ctx):
    """exact output equality: real compile_ir lowering (_IRnodeLowerer, no optimiser) vs the Coq model Lower.lower_top
    on seeded random trees; plus the permanent regression probe of `compile-ir-seq-structural-eq`."""
    from vlib import c15_tree
    from vyper.codegen.ir_node import IRnode
    from vyper.compiler.settings import OptimizationLevel, Settings, anchor_settings
    from vyper.evm.assembler import assembly_to_evm
    from vyper.ir import compile_ir
    from vyper.ir.compile_ir import _IRnodeLowerer
    from vlib.evm import Chain
    rnd = ctx.rng("lower")
    want = 300 if ctx.tier != "thorough" else 3000
    dup = ["seq", ["calldataload", 32], ["calldataload", 0], ["calldataload", 32]]
    extra = [["mstore", 0, ["add", "x", dup]], ["seq", ["mload", 0], ["mload", 0], ["mload", 0]],
             ["mstore", 0, ["seq", "x", "y", "x"]]]
    # directed: loop clean-up inside function labels (cleanup_repeat skips the label parameters return_buffer / return_pc)
    for ps in ([], ["return_pc"], ["return_buffer", "return_pc"], ["a", "return_pc"], ["return_buffer"], ["a", "b"]):
        inner = ["seq", ["with", "w", 1, ["seq", "cleanup_repeat", ["if", "w", "break"]]], "cleanup_repeat",
                 ["if", ["calldataload", 0], "break"], ["if", ["calldataload", 32], "continue"]]
        extra.append(["label", "fd", ["var_list"] + ps, ["repeat", "k", 0, 5, 5, inner]])
        extra.append(["label", "fd", ["var_list"] + ps,
                      ["repeat", "k", 1, ["calldataload", 0], 5, ["repeat", "j", "k", 2, 2, inner]]])
    cases = []
    with anchor_settings(Settings(evm_version="cancun")):
        while len(cases) < want:
            if extra:
                t = extra.pop()
            elif len(cases) % 2 == 0:
                t = c15_tree.gen_tree(rnd, rnd.choice([2, 3, 4, 5]))
            else:       # control flow: repeat / break / continue / goto / label / ...
                t = c15_tree.gen_cf(rnd, rnd.choice([2, 3, 4]), ["x", "y"], 0, {"n": 0})
            t = ["with", "x", ["calldataload", 0], ["with", "y", ["calldataload", 32], t]]
            try:
                node = IRnode.from_list(t)
                c, s0 = c15_tree.coq_of_node(node), c15_tree.show_node(node)
            except Exception:  # noqa
                continue
            try:
                asm = _IRnodeLowerer(OptimizationLevel.NONE).compile_to_assembly(node)
                r = [c15_asm.show_item(x) for x in c15_asm.from_real(list(asm))]
            except Exception as e:  # noqa
                r = ["EXC:" + type(e).__name__]
            cases.append((s0, c, r))
    imports = ("From Verif Require Import Base.PyInt C15.Syntax C15.GenUtils C15.Peephole C15.Lower.\n"
               "Open Scope string_scope.\n"
               "Definition show_items (r : res (list item)) : list string := match r with Ok l => map show_item l "
               "| Err TypeErr => [\"DECLINED\"] | Err Raised => [\"EXC\"] | Err _ => [\"E\"] end.\n")
    outs = coqrun.eval_cases(imports, [f"show_items (lower_top {c})" for (_s, c, _r) in cases], "c15low",
                             shard=(len(cases) + 2) // 3, timeout=220 if ctx.tier != "thorough" else 900)
    declined, bad = 0, None
    for (s0, _c, r), o in zip(cases, outs):
        m = STRS.findall(o)
        if m == ["DECLINED"]:
            declined += 1
            continue
        if r[0].startswith("EXC") and m == ["EXC"]:
            continue
        if r != m and bad is None:
            j = next((q for q in range(min(len(r), len(m))) if r[q] != m[q]), min(len(r), len(m)))
            bad = {"tree": s0[:1500], "first_difference_at": j, "real": " ".join(r[max(0, j - 6):j + 8]),
                   "model": " ".join(m[max(0, j - 6):j + 8])}
    ctx.corr["lower_cases"] = len(cases)
    ctx.corr["lower_cases_declined"] = declined
    # regression probe (FIXED in /repo 16cacde): a valued seq element equal to the last one must still be popped
    probe = ["with", "t", 9, ["seq", ["mstore", 0, ["add", "t", dup]], ["return", 0, 32]]]
    asm = compile_ir.compile_to_assembly(IRnode.from_list(probe), OptimizationLevel.NONE)
    chain = Chain("cancun")
    res = chain.call(chain.set_code(None, assembly_to_evm(asm)[0]), (5).to_bytes(32, "big") + (100).to_bytes(32, "big"))
    got = int.from_bytes(res.out, "big") if res.ok else None
    if got != 109:
        failing(ctx, "compile_ir leaves the value of a non-last seq element on the stack (structural `!=`)",
                {"ir": repr(probe), "calldata_words": [5, 100], "expected": 109, "observed": got,
                 "assembly": c15_asm.show(c15_asm.from_real(list(asm)))}, key="compile-ir-seq-structural-eq")
    elif bad is not None:
        ctx.violation("correspondence-broken", "Lower.v model != real compile_ir lowering (exact output)", bad)
    if declined * 4 > len(cases):
        ctx.violation("correspondence-broken", "the lowering model declines too many trees", {"declined": declined})
    return len(cases)


def frame_shape(ir):
    """sites of _rewrite_return_sequences in a runtime IR tree and the ones outside the frame shape under which the
    rewritten code is proved to behave as intended (PropsLower.v return_sequence_*): only the label parameters on the stack"""
    sites, bad = {}, []

    def note(kind, ok, n):
        sites[kind] = sites.get(kind, 0) + 1
        if not ok:
            bad.append((kind, str(n)[:300]))

    def walk(n, params, path, prev):
        v = n.value
        if v == "label":
            ps = [t.value for t in n.args[1].args]
            for a in n.args[2:]:
                walk(a, ps, [], None)
            return
        ops = [p for p in path]
        if v == "return" and len(n.args) >= 2 and n.args[0].value == "ret_ofst" and n.args[1].value == "ret_len":
            note("return", params == ["ret_ofst", "ret_len"] and all(o == "seq" for o in ops), n)
        if v == "exit_to":
            in_frame = all(o in ("seq", "if", "repeat") for o in ops) and ("repeat" not in ops or prev == "cleanup_repeat")
            if n.args[0].value == "return_pc":
                note("exit_return", params == ["return_pc"] and all(o == "seq" for o in ops) and len(n.args) == 1, n)
            elif any(t.value == "return_pc" for t in n.args[1:]):
                note("exit_internal", params in (["return_buffer", "return_pc"], ["return_pc"]) and len(n.args) == 2
                     and in_frame, n)
            else:
                note("exit_external", params is not None and "return_buffer" not in params, n)
        for i, a in enumerate(n.args):
            walk(a, params, path + [v], n.args[i - 1].value if (v == "seq" and i > 0) else None)

    walk(ir, None, [], None)
    return sites, bad


def symbol_shape(ir):
    """raises if a unique_symbol marker is not named by a string leaf or unique_symbols fails at some node"""
    n_markers = 0
    stack = [ir]
    while stack:
        n = stack.pop()
        if n.value == "unique_symbol":
            n_markers += 1
            a = n.args[0]
            if not isinstance(a.value, str) or a.args:
                raise ValueError(f"marker not named by a leaf: {n}")
        n.unique_symbols      # CompilerPanic if non-unique
        stack.extend(n.args)
    return n_markers


def real_lower_tie(ctx):
    """exact output equality on whole compiled contracts (legacy pipeline, optimize none / gas / codesize): the runtime IR
    through compile_ir.compile_to_assembly(ir, NONE) (= _rewrite_return_sequences + lowering, no assembly optimiser)
    vs the Coq model RetRewrite.compile_to_assembly; plus the frame-shape check of every rewritten site."""
    import pathlib
    from vlib import c15_tree
    from vlib.c02_corpus import CORPUS
    from vlib.c15_corpus import OWN
    from vyper.compiler.input_bundle import FileInput
    from vyper.compiler.phases import CompilerData
    from vyper.compiler.settings import OptimizationLevel, Settings, anchor_settings
    from vyper.ir import compile_ir
    rnd = ctx.rng("reallower")
    contracts = OWN + list(CORPUS)
    if ctx.tier != "thorough":
        contracts = rnd.sample(OWN, 1) + rnd.sample(list(CORPUS), 2)

    def clean(x):      # label names are source text: keep them printable inside a Coq string, same on both sides
        return x.replace('"', "'").replace("\n", " ").replace("\\", "/")

    cases, sites_all, skipped = [], {}, 0
    shape_reported = sym_reported = False
    for c in contracts:
        for lvl in (OptimizationLevel.NONE, OptimizationLevel.GAS, OptimizationLevel.CODESIZE):
            st = Settings(optimize=lvl, evm_version="cancun", experimental_codegen=False)
            try:
                with anchor_settings(st):
                    fi = FileInput(0, pathlib.Path(c["name"] + ".vy"), pathlib.Path(c["name"] + ".vy"), c["src"])
                    cd = CompilerData(fi, settings=st)
                    ir = cd.ir_runtime
            except Exception as e:  # noqa: contract needs other settings (decimals) -> not this tie's concern
                skipped += 1
                ctx.log(f"real_lower: {c['name']} {lvl} skipped: {type(e).__name__}")
                continue
            # front-end shape assumed by optimize_never_symbol_panic: markers named by string leaves, unique_symbols
            # succeeds at every node -- on the tree the legacy pipeline hands to optimizer.optimize (deploy + runtime)
            try:
                with anchor_settings(st):
                    symbol_shape(cd.ir_nodes)
            except Exception as e:  # noqa
                if not sym_reported:
                    sym_reported = True
                    ctx.violation("correspondence-broken", "front-end IR violates the shape assumed by the symbol theorems "
                                  "(leaf-named markers, unique_symbols succeeds at every node)",
                                  {"contract": c["name"], "optimize": str(lvl), "error": f"{type(e).__name__}: {str(e)[:300]}"})
                continue
            try:
                with anchor_settings(st):
                    asm = compile_ir.compile_to_assembly(ir, OptimizationLevel.NONE)
                    r = [clean(c15_asm.show_item(x)) for x in c15_asm.from_real(list(asm))]
                    coq = c15_tree.coq_of_node_real(ir, clean)
            except Exception as e:  # noqa
                skipped += 1
                ctx.log(f"real_lower: {c['name']} {lvl} skipped: {type(e).__name__}")
                continue
            sites, bad = frame_shape(ir)
            for k, v in sites.items():
                sites_all[k] = sites_all.get(k, 0) + v
            if bad and not shape_reported:
                shape_reported = True
                ctx.violation("correspondence-broken", "the front end emits a return / exit_to site outside the frame shape "
                              "assumed by the return-sequence theorems (only label parameters on the stack)",
                              {"contract": c["name"], "optimize": str(lvl), "site": bad[0][0], "node": bad[0][1]})
            cases.append((c["name"], str(lvl), coq, r))
    imports = ("From Verif Require Import Base.PyInt C15.Syntax C15.GenUtils C15.Peephole C15.Lower C15.RetRewrite.\n"
               "Open Scope string_scope.\n"
               "Definition show_items (r : res (list item)) : list string := match r with Ok l => map show_item l "
               "| Err TypeErr => [\"DECLINED\"] | Err Raised => [\"EXC\"] | Err OutOfFuel => [\"FUEL\"] | Err _ => [\"E\"] end.\n")
    nsh = 3
    outs = coqrun.eval_cases(imports, [f"show_items (compile_to_assembly 400 {c})" for (_n, _l, c, _r) in cases], "c15real",
                             shard=max(1, (len(cases) + nsh - 1) // nsh), timeout=300 if ctx.tier != "thorough" else 1500)
    for (n, lvl, _c, r), o in zip(cases, outs):
        m = STRS.findall(o)
        if m != r:
            j = next((q for q in range(min(len(r), len(m))) if r[q] != m[q]), min(len(r), len(m)))
            ctx.violation("correspondence-broken", "RetRewrite/Lower model != compile_ir.compile_to_assembly on a compiled "
                          "contract (exact output)", {"contract": n, "optimize": lvl, "first_difference_at": j,
                                                      "real": " ".join(r[max(0, j - 6):j + 8]),
                                                      "model": " ".join(m[max(0, j - 6):j + 8])})
            break
    ctx.corr["real_lower_cases"] = len(cases)
    ctx.corr["real_lower_skipped"] = skipped
    ctx.corr["return_sequence_sites"] = sites_all
    if not cases:
        ctx.violation("correspondence-broken", "no contract could be compiled for the whole-contract lowering tie", {})
    return len(cases)


def glue_corpus(ctx):
    """legacy pipeline, optimize none vs gas vs codesize, same seeded ABI-derived call plan (boundary-biased arguments):
    status, returndata, logs, final storage must agree.  Catches optimiser mutants outside the modelled fragment."""
    from vlib.c02_corpus import CORPUS, HELPER
    from vlib.c02_runner import first_difference, make_plan, observe_contract
    from vlib.c15_corpus import OWN
    from vlib.configs import Config
    rnd = ctx.rng("glue")
    shared = list(CORPUS)
    if ctx.tier != "thorough":
        shared = rnd.sample(shared, 8)
    ncalls = 30 if ctx.tier != "thorough" else 80
    n, calls, found = 0, 0, 0
    for c in OWN + shared:
        evm = "cancun"
        try:
            plan, abi = make_plan(c["src"], HELPER, ctx.rng("glue:" + c["name"]), ncalls)
            if plan is None:
                continue
            ref = observe_contract(c["src"], Config(False, "none", evm), plan, HELPER, abi)
        except Exception as e:  # noqa: contract does not compile unoptimised -> not this property's concern
            if c["name"] == "c15_dead_extcall" and type(e).__name__ == "CompilerPanic" and "missing symbols" in str(e):
                # make_plan compiles with the default (optimising) settings
                report_once(ctx, "optimizer-symbol-check-stale-set",
                            "valid program: the legacy optimiser panics (_check_symbols) on a dead branch holding an extcall",
                            {"contract": c["name"], "source": c["src"], "error": str(e)[:200]})
            ctx.log(f"glue: {c['name']} skipped: {type(e).__name__}")
            continue
        n += 1
        for lvl in ("gas", "codesize"):
            try:
                o = observe_contract(c["src"], Config(False, lvl, evm), plan, HELPER, abi)
                d = first_difference(ref, o)
            except Exception as e:  # noqa
                d = {"what": "compile-exception", "error": f"{type(e).__name__}: {str(e)[:300]}"}
            calls += len(plan)
            if d is not None and c["name"] == "c15_ifexp_or":
                d.update({"contract": c["name"], "source": c["src"], "config_b": f"legacy-{lvl}-{evm}"})
                report_once(ctx, "truthy-or-under-if-branch",
                            "truthy-context rule (or x c)->1 applied to the value of an if branch", d)
            elif d is not None and c["name"] == "c15_dead_extcall" and d.get("what") == "compile-exception":
                d.update({"contract": c["name"], "source": c["src"], "config_b": f"legacy-{lvl}-{evm}"})
                report_once(ctx, "optimizer-symbol-check-stale-set",
                            "valid program compiles at optimize=none but the legacy optimiser panics (_check_symbols)", d)
            elif d is not None and found < 3:
                found += 1
                if "call" in d:
                    d["call_detail"] = {k: (v.hex() if isinstance(v, bytes) else v) for k, v in plan[d["call"]].items()}
                d.update({"contract": c["name"], "source": c["src"], "config_a": "legacy-none-" + evm,
                          "config_b": f"legacy-{lvl}-{evm}"})
                failing(ctx, f"contract behaves differently at optimize={lvl} vs none (legacy)", d, key=f"glue:{c['name']}:{lvl}:{d.get('what')}")
    ctx.corr["glue_contracts"] = n
    ctx.corr["glue_calls"] = calls
    return found, calls


# files without dependence on generated code (also listed in coq/STATIC), in dependency order
STATIC_FILES = ["C15/Syntax.v", "C15/WordFacts.v", "C15/Bytes.v", "C15/Peephole.v", "C15/PeepholeSound.v", "C15/JumpOpt.v",
                "C15/JumpSem.v", "C15/JumpSound.v", "C15/JumpSound2.v", "C15/JumpSound3.v", "C15/PropsPeephole.v"]
# regenerated model first: any change in /repo's translated code re-checks every proof after it
GEN_FILES = ["C15/GenUtils.v", "C15/Optimizer.v", "C15/OptTree.v", "C15/FoldSound.v", "C15/PropsFold.v", "C15/OptSound.v",
             "C15/OptTreeSound.v", "C15/MergeSound.v", "C15/MemInst.v", "C15/SymSound.v", "C15/SymHered.v", "C15/PropsOpt.v",
             "C15/Lower.v", "C15/LowerSound.v", "C15/LowerFlow.v", "C15/FlowSound.v", "C15/RetRewrite.v",
             "C15/RetRewriteSound.v", "C15/StmtSound.v", "C15/StmtLabels.v", "C15/JointInst.v", "C15/PropsLower.v"]


# session-3 extension: SemW.evalW (with / set / repeat with a fixed binding meaning), conservativity, lowering soundness
# with with/set.  They import Lower.v / StmtSound.v and so depend on the regenerated GenUtils.v.
W_FILES = ["C15/SemW.v", "C15/WInst.v", "C15/SemWSound.v", "C15/StmtSoundW.v", "C15/StmtLabelsW.v", "C15/PropsLowerW.v"]


def _build_w(ctx):
    return ctx.coq_build_cached(W_FILES, deps=["C15/Syntax.v", "C15/WordFacts.v", "C15/Bytes.v", "C15/Peephole.v"] + GEN_FILES,
                                timeout=1200)


def _build(ctx):
    """content-keyed build reuse (tools/README-dev.md "Build reuse"): a .vo is reused only if it was produced from
    byte-identical inputs (own source, every earlier file of the list, deps, Base, Coq version)"""
    bs = ctx.coq_build_cached(STATIC_FILES, timeout=1200)
    if not bs["ok"]:
        return bs
    return ctx.coq_build_cached(GEN_FILES, deps=["C15/Syntax.v", "C15/WordFacts.v", "C15/Bytes.v", "C15/Peephole.v"],
                                timeout=1200)


def prebuild(ctx):
    """called by setup_cmd: generate and compile once so that the checks reuse the proofs"""
    (COQ / "C15" / "GenUtils.v").write_text(gen_utils())
    if _build(ctx)["ok"]:
        _build_w(ctx)


def run(ctx):
    REPORTED.clear()
    differ = Differ("cancun")
    found = 0
    # ---- regenerate + prove
    gen_err = None
    try:
        (COQ / "C15" / "GenUtils.v").write_text(gen_utils())
    except Unsupported as e:
        gen_err = str(e)
    T = {}
    t0 = time.time()
    b = _build(ctx) if gen_err is None else {"ok": False}
    model_ok = gen_err is None and (COQ / "C15" / "OptTree.vo").exists() and \
        (b["ok"] or not any(x in b.get("file", "") for x in ("GenUtils", "Optimizer.v", "OptTree.v")))
    bw = _build_w(ctx) if (gen_err is None and b["ok"]) else None
    T["coq_build"] = round(time.time() - t0, 1); t0 = time.time()
    # ---- observation (always): EVM differential
    found += evm_grid(ctx, differ)
    T["evm_grid"] = round(time.time() - t0, 1); t0 = time.time()
    grid_panics = list(differ.panics)     # later phases feed random trees: there the IRnode range assertion of the
    #                                       ceil32 fold is an expected outcome ("ASSERT", agreed with the model)
    gf, gcalls = glue_corpus(ctx)
    found += gf
    T["glue"] = round(time.time() - t0, 1); t0 = time.time()
    nsem = semantics_tie(ctx)
    T["semantics_tie"] = round(time.time() - t0, 1); t0 = time.time()
    nlow = lower_tie(ctx) if (gen_err is None and (COQ / "C15" / "Lower.vo").exists()) else 0
    T["lower_tie"] = round(time.time() - t0, 1); t0 = time.time()
    nreal = real_lower_tie(ctx) if (gen_err is None and (COQ / "C15" / "RetRewrite.vo").exists()) else 0
    T["real_lower"] = round(time.time() - t0, 1); t0 = time.time()
    # semantics tie of SemW.evalW (with / set / repeat / break / continue) against compile_ir + pyrevm; it is also the
    # Search when the with/set lowering proof breaks (a mismatch is printed with the IR, the calldata and both results)
    nsemw = 0
    semw_ok = bw is not None and (COQ / "C15" / "WInst.vo").exists() and \
        (bw["ok"] or not any(x in bw.get("file", "") for x in ("SemW.v", "WInst.v")))
    if semw_ok:
        from vlib import c15_semw
        nviol = len(ctx.violations)
        nsemw = c15_semw.run(ctx)
        found += int(len(ctx.violations) > nviol)
    from vlib import c15_semw as _semw
    for d in _semw.opt_loop_probe(differ)[:2]:
        failing(ctx, "repeat with a round count the optimiser folds behaves differently optimised vs unoptimised", d,
                key="repeat-folded-rounds")
        found += 1
    T["semw_tie"] = round(time.time() - t0, 1); t0 = time.time()
    # ---- tie
    n = gcalls + nsem + nlow + nreal + nsemw
    if model_ok:
        n2, f = binop_grid_tie(ctx, differ)
        n += n2
        found += int(f)
    T["binop_tie"] = round(time.time() - t0, 1); t0 = time.time()
    if model_ok:
        n3, f = tree_tie(ctx, differ)
        n += n3
        found += int(f)
    T["tree_tie"] = round(time.time() - t0, 1); t0 = time.time()
    # ---- peephole tie (the Peephole model does not depend on the generated files)
    if (COQ / "C15" / "Peephole.vo").exists() and "Peephole.v" not in b.get("file", ""):
        n += peephole_tie(ctx)
    T["peephole"] = round(time.time() - t0, 1)
    ctx.corr["phase_seconds"] = T
    ctx.log("phase seconds", T)
    if gen_err is not None and not found:
        ctx.violation("translator-rejected", "cannot regenerate C15/GenUtils.v: " + gen_err, {"error": gen_err})
    elif gen_err is None and not b["ok"] and not found:
        ctx.violation("theorem-broken", f"{b.get('failed_lemma')} in {b['file']}",
                      {"theorem": b.get("failed_lemma"), "file": b["file"], "coq_output": b["out"][-1500:]})
    if bw is not None and not bw["ok"] and not found:
        ctx.violation("theorem-broken", f"{bw.get('failed_lemma')} in {bw['file']}",
                      {"theorem": bw.get("failed_lemma"), "file": bw["file"], "coq_output": bw["out"][-1500:]})
    for irl, msg in grid_panics[:3]:
        ctx.violation("correspondence-broken", "optimizer raised on a legal IR snippet", {"ir": repr(irl), "error": msg})
    ctx.corr["evm_programs"] = differ.programs
    ctx.corr["evm_calls"] = differ.calls
    ctx.corr["static_assert_inputs_checked"] = differ.static_asserts
    ctx.corr["evaluations"] = n + differ.calls
    ctx.corr["distinct_nontrivial"] = ctx.corr.get("binop_grid_rewrites", 0) + differ.programs
    ctx.corr["rule"] = ("grid cases on which the real optimiser rewrites (exact output compared with the model) + distinct "
                        "IR programs executed with/without the optimisers")
    ctx.trusted += ["Coq 8.16.1 kernel + vm_compute", "tools/vlib/py2coq.py (translator)",
                    "Word256.v as EVM word semantics (tied to pyrevm by vlib/wordtie, run by C14)",
                    "pyrevm as the EVM for the with/without-optimiser differential"]
