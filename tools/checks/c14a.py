"""C14A: test driver for the algebraic / SCCP part of C14 (helper; the real entry is tools/checks/c14.py)."""
LEVEL = "proof"
META = {"not_applicable": "helper part of C14"}


def prebuild(ctx):
    from vlib import c14a_part
    return c14a_part.prebuild(ctx)


def run(ctx):
    from vlib import c14a_part
    ctx.is_known = lambda key: next((f for f in ctx.known.get("findings", []) if f.get("property") == "C14"
                                     and f.get("key") == key and f.get("status") == "open"), None)
    n = c14a_part.part_algebraic(ctx)
    ctx.corr["evaluations"] = n
    ctx.corr["distinct_nontrivial"] = n
    ctx.corr["rule"] = ("one case per (opcode, operand shape, use context) of the peephole family, per chain (root, depth, user), "
                        "per lattice pair / _eval operand state")
