"""C14X: helper part of C14 (instruction selection of the Venom back end); runnable on its own:
python3 tools/check.py C14X --tier quick.  Not registered (the coordinator calls vlib.c14_isel.part_isel from c14.py)."""
from vlib import c14_isel

LEVEL = "proof"
META = {"not_applicable": "helper part of C14"}


def prebuild(ctx):
    c14_isel.prebuild(ctx)


def run(ctx):
    n = c14_isel.part_isel(ctx)
    ctx.corr["evaluations"] = n
    ctx.corr["distinct_nontrivial"] = n
    ctx.corr["rule"] = "opcode family members compared with the table + EVM executions of generated one-instruction programs"
