"""C20: the compiler terminates with output or a user-facing diagnostic.
Proof part (narrow): a Coq model of the dense selector-table builder and a machine-checked refutation
(`dense_table_refuted`: five valid method ids on which the builder ends in a raw RuntimeError), tied by running the
real function on the witness and by a differential on random id sets.  Everything else is exploration: an
outcome-classification harness over token-/AST-/type-level mutations of valid programs in fresh worker processes."""
import collections
import json
import os
import re
import subprocess
import sys
import tempfile
import warnings
from concurrent.futures import ThreadPoolExecutor
from pathlib import Path

from vlib import coqrun
from vlib import c19_gen
from vlib.c18_corpus import CORPUS
from vlib.common import REPO, VERIF

LEVEL = "other"
META = {
    "category": "other",
    "text": "The universal claim (every input text, every setting: output or user-facing diagnostic, in bounded time) quantifies "
            "over the whole compiler and is explored, not proved: mutated and generated programs are compiled in worker "
            "processes under both pipelines and several levels with a wall-time limit and every outcome is classified; any "
            "internal exception, raw Python exception, RecursionError or timeout is a failing input, as is a program accepted by "
            "semantic analysis that a back end cannot compile. Proved in Coq: a refutation for one guard (the dense selector "
            "table builder raises RuntimeError on a family of valid id sets), tied to the real function each run.",
    "level_note": "Exploration is bounded by the mutation corpus and the 5 s limit. The Coq part is a hand model of "
                  "jumptable_utils (H-tie by differential). PUSH totality is proved under C16 (push_total) and only cited here; "
                  "calculate_largest_power/base: loops proved total+exact for any guess in a window; that the real Decimal/math guess lies in the window is checked, not proved.",
    "technique": "outcome-classification exploration in subprocess workers + Coq refutation by vm_compute witness",
}

EXTRA_PROGRAMS = {
    "arith": """
@external
@pure
def f(a: uint256, b: int128, c: decimal) -> (uint256, int128, decimal):
    x: uint256 = (a * 3 + 7) // 2 % 1000
    y: int128 = (b - 5) * 2 // 3
    z: decimal = c * 1.5 / 2.0
    w: uint256 = 2 ** 10 + (a << 3) + (a >> 2) + (a & 255) + (a | 1) + (a ^ 3)
    return x + w + pow_mod256(a, 3), -y + min(y, 3), z

@external
@pure
def g(a: uint8, e: uint8) -> uint256:
    return convert(a, uint256) ** 3 + 3 ** convert(e % 10, uint256)
""",
    "control": """
s: DynArray[uint256, 10]
m: HashMap[bytes32, uint256[3]]

@internal
@view
def _h(i: uint256) -> uint256:
    return self.s[i] if i < len(self.s) else 0

@external
def loop(n: uint256) -> uint256:
    t: uint256 = 0
    for i: uint256 in range(n, bound=10):
        if i % 2 == 0:
            continue
        if i > 7:
            break
        self.s.append(i)
        t += self._h(i)
    for x: uint256 in self.s:
        t += x
    for j: uint256 in [1, 2, 3]:
        t += j
    assert t < 1000, "big"
    return t

@external
def store(k: bytes32, v: uint256):
    self.m[k][v % 3] = v
    if v == 0:
        raise "zero"
""",
    "builtins": """
interface Other:
    def ping(x: uint256) -> uint256: view

@external
def mk(t: address, data: Bytes[64]) -> Bytes[32]:
    ok: bool = False
    res: Bytes[32] = b""
    ok, res = raw_call(t, data, max_outsize=32, revert_on_failure=False)
    h: bytes32 = keccak256(data)
    h2: bytes32 = sha256(data)
    a: address = create_minimal_proxy_to(t)
    u: uint256 = staticcall Other(t).ping(convert(h, uint256))
    send(t, 0)
    return slice(concat(res, b"xy"), 0, 32)

@external
@view
def misc(b: Bytes[40], s: String[10]) -> uint256:
    return len(b) + len(s) + convert(slice(b, 0, 1), uint256) + block.timestamp + msg.sender.balance + len(uint2str(3))
""",
}

INT_REPL = ["0", "1", "-1", "2**256", "2**256 - 1", "2**255", "10**80", "115792089237316195423570985008687907853269984665640564039457584007913129639936",
            "340282366920938463463374607431768211456", "0x" + "f" * 64, "0x" + "f" * 65, "1.5", "1e3", "255", "256", "2**64", "2**200"]
TYPES = ["uint256", "int256", "uint8", "int8", "int128", "uint128", "bool", "address", "bytes32", "bytes4", "decimal", "Bytes[5]",
         "String[5]", "Bytes[0]", "uint256[2]", "DynArray[uint256, 3]", "DynArray[uint256, 0]", "uint256[0]", "uint256[2**200]",
         "HashMap[uint256, uint256]", "(uint256, bool)", "String[2**64]", "uint7", "int264", "bytes33", "Foo"]
OPS = ["+", "-", "*", "//", "/", "%", "**", "<<", ">>", "&", "|", "^", "<", ">", "==", "!=", "<=", ">=", "and", "or", "not", "in", "="]
KEYWORDS = ["self", "msg", "def", "return", "for", "if", "struct", "event", "import", "True", "None", "uint256", "block", "range", "len",
            "lambda", "class", "yield", "await", "pass", "extcall", "log", "__init__", "__default__", "empty", "max_value(uint256)"]
SNIPPETS = ["x_: uint8 = 256", "assert False", "raise", "for i_: uint256 in range(0):\n        pass", "x_: uint256[2**200] = empty(uint256[2**200])",
            "x_: uint256 = 1 // 0", "x_: int128 = -2**127 - 1", "x_: uint256 = 2**256", "x_: uint256 = 1 << 256", "x_: uint256 = 1 << 300",
            "x_: uint256 = 2 ** 2 ** 20", "x_: decimal = 1.0 / 0.0", "x_: Bytes[1] = slice(b'abc', 2, 2)", "x_: uint256 = max_value(uint256) + 1",
            "x_: uint256 = convert(-1, uint256)", "x_: address = 0x1234", "return 1, 2, 3", "x_: uint256 = self", "self = 1", "x_: uint256 = block",
            "x_: uint256 = empty(HashMap[uint256, uint256])", "x_: String[3] = \"abcd\"", "x_: uint256 = len(5)", "x_: uint256 = 7 % 0",
            "x_: uint256 = isqrt(-1)", "x_: uint256 = unsafe_add(1, 2, 3)", "x_: bytes32 = keccak256(1)", "x_: uint256 = abi_decode(b'', uint256)",
            "x_: uint256 = 1 if True else b'a'", "x_: uint256[3] = [1, 2]", "x_: DynArray[uint256, 2] = [1, 2, 3]", "log Nope(a=1)",
            "x_: uint256 = 0\n    x_ += -1", "x_: uint256 = ~1", "x_: int8 = -(-128)", "x_: uint256 = 10**77 * 10", "x_: uint256 = shift(1, 2)"]


def msg_class(msg):
    """Stable class of an exception message: quoted parts and digits removed, first 40 chars, slugged.
    (no line numbers, addresses or identifiers of the particular input)"""
    m = re.sub(r"'[^']*'|\"[^\"]*\"|`[^`]*`", "_", msg or "")
    m = m.split("\n")[0]
    m = re.sub(r"0x[0-9a-fA-F]+|\d+", "", m)
    m = re.sub(r"[^A-Za-z_]+", " ", m).strip()[:40].strip()
    return m.replace(" ", "-") or "-"


def tokens(src):
    return [m for m in re.finditer(r"[A-Za-z_]\w*|\d+\.\d+|0x[0-9a-fA-F]+|\d+|\*\*|//|<<|>>|[<>=!]=|->|\S", src)]


def mutate(src, rnd):
    toks = tokens(src)
    kind = rnd.randrange(20)
    lines = src.split("\n")

    def repl(m, new):
        return src[:m.start()] + new + src[m.end():]
    if not toks:
        return src + "x", "append"
    if kind == 0:
        m = rnd.choice(toks)
        return repl(m, ""), "delete-token"
    if kind == 1:
        m = rnd.choice(toks)
        return repl(m, m.group() + " " + m.group()), "dup-token"
    if kind == 2:
        i = rnd.randrange(len(toks) - 1)
        a, b = toks[i], toks[i + 1]
        return src[:a.start()] + b.group() + src[a.end():b.start()] + a.group() + src[b.end():], "swap-tokens"
    if kind in (3, 4):
        nums = [m for m in toks if re.fullmatch(r"\d+|0x[0-9a-fA-F]+|\d+\.\d+", m.group())]
        if nums:
            return repl(rnd.choice(nums), rnd.choice(INT_REPL)), "int-literal"
    if kind in (5, 6):
        tys = [m for m in toks if re.fullmatch(r"u?int\d+|bool|address|bytes\d+|decimal|Bytes|String|DynArray|HashMap", m.group())]
        if tys:
            return repl(rnd.choice(tys), rnd.choice(TYPES)), "type-name"
    if kind == 7:
        ops = [m for m in toks if m.group() in OPS]
        if ops:
            return repl(rnd.choice(ops), rnd.choice(OPS)), "operator"
    if kind == 8:
        i = rnd.randrange(len(lines))
        return "\n".join(lines[:i] + lines[i + 1:]), "delete-line"
    if kind == 9:
        i = rnd.randrange(len(lines))
        return "\n".join(lines[:i] + [lines[i]] + lines[i:]), "dup-line"
    if kind == 10:
        i = rnd.randrange(len(lines))
        lines[i] = rnd.choice(["    ", "  ", "\t", ""]) + lines[i].lstrip() if rnd.random() < 0.5 else "    " + lines[i]
        return "\n".join(lines), "indent"
    if kind == 11:
        ids = [m for m in toks if re.fullmatch(r"[A-Za-z_]\w*", m.group())]
        return repl(rnd.choice(ids), rnd.choice(KEYWORDS)), "identifier->keyword"
    if kind == 12:
        nums = [m for m in toks if re.fullmatch(r"\d+", m.group())]
        if nums:
            d = rnd.choice([30, 200, 1200])
            m = rnd.choice(nums)
            return repl(m, "(" * d + m.group() + ")" * d), f"deep-parens-{d}"
    if kind == 13:
        nums = [m for m in toks if re.fullmatch(r"\d+", m.group())]
        if nums:
            d = rnd.choice([100, 1500])
            m = rnd.choice(nums)
            return repl(m, "(" + "+".join(["1"] * d) + ")"), f"long-chain-{d}"
    if kind == 14:
        return src[:rnd.randrange(len(src))], "truncate"
    if kind == 15:
        i = rnd.randrange(len(src))
        return src[:i] + rnd.choice(["\x00", "é", " ", "\\", "\"", "'''", "#", "\r", "@", "$", "`", "﻿"]) + src[i:], "garbage-char"
    if kind == 16:
        decs = [m for m in toks if m.group() in ("view", "pure", "payable", "external", "internal", "deploy", "nonreentrant")]
        if decs:
            return repl(rnd.choice(decs), rnd.choice(["view", "pure", "payable", "external", "internal", "deploy", "nonreentrant", "foo"])), "decorator"
    if kind in (17, 18):
        body = [i for i, l in enumerate(lines) if l.startswith("    ") and not l.strip().startswith(("@", "#")) and ":" not in l[-1:]]
        if body:
            i = rnd.choice(body)
            return "\n".join(lines[:i] + ["    " + rnd.choice(SNIPPETS)] + lines[i:]), "insert-statement"
    m = rnd.choice(toks)
    return repl(m, rnd.choice(KEYWORDS + INT_REPL + TYPES + OPS)), "replace-token"


def base_programs(ctx):
    progs = {}
    for n in ("counter", "token", "many_internal", "structs", "strings", "with_layout"):
        progs[n] = list(CORPUS[n]["files"].values())[-1]
    progs.update(EXTRA_PROGRAMS)
    rnd = ctx.rng("gen")
    for i in range(3):
        progs[f"gen{i}"] = c19_gen.gen_contract(rnd, with_lib=False)["src"]
    return progs


def run_shard(tmp, k, items, limit, configs, want_bytecode=False):
    f = tmp / f"shard{k}.json"
    f.write_text(json.dumps({"items": items, "limit": limit, "configs": configs, "want_bytecode": want_bytecode}))
    env = dict(os.environ)
    env["PYTHONPATH"] = str(REPO)
    env["PYTHONDONTWRITEBYTECODE"] = "1"
    rows = []
    try:
        p = subprocess.run([sys.executable, str(VERIF / "tools" / "vlib" / "c20_worker.py"), str(f)], env=env, capture_output=True,
                           text=True, timeout=limit * len(items) * (len(configs) + 1) + 60)
        out = p.stdout
    except subprocess.TimeoutExpired as e:
        out = (e.stdout or b"").decode() if isinstance(e.stdout, bytes) else (e.stdout or "")
    for line in out.splitlines():
        if line.startswith("C20ROW"):
            rows.append(json.loads(line[6:]))
    done = {r["id"] for r in rows}
    for it in items:
        if it["id"] not in done:
            rows.append({"id": it["id"], "front": {"outcome": "INTERNAL", "exc": "WorkerDied", "frame": "?", "msg": "no row"}, "runs": {}})
            break  # only the first missing one is attributable
    return rows


def part_outcomes(ctx, tmp):
    rnd = ctx.rng("mut")
    progs = base_programs(ctx)
    n_mut = 150 if ctx.tier == "quick" else 3000
    items = [{"id": f"base:{n}", "src": s, "how": "unchanged", "base": n} for n, s in progs.items()]
    names = sorted(progs)
    for i in range(n_mut):
        b = names[i % len(names)]
        s, how = mutate(progs[b], rnd)
        if rnd.random() < 0.25:
            s, how2 = mutate(s, rnd)
            how += "+" + how2
        items.append({"id": f"mut{i}", "src": s, "how": how, "base": b})
    for i in range(40 if ctx.tier == "quick" else 600):
        txt, how = mutate_json(JSON_ABI, rnd)
        items.append({"id": f"json{i}", "files": {"iabi.json": txt, "user.vy": JSON_USER}, "target": "user.vy", "how": "json-abi:" + how,
                      "base": "JSON_ABI"})
    from vlib import c20_pyconstructs
    items += c20_pyconstructs.items()
    lay_src = CORPUS["with_layout"]["files"]["lay.vy"]
    for i in range(24 if ctx.tier == "quick" else 400):
        txt, how = mutate_json(CORPUS["with_layout"]["layout"], rnd)
        items.append({"id": f"layout{i}", "files": {"layout.json": txt, "lay.vy": lay_src}, "target": "lay.vy", "layout": "layout.json",
                      "how": "layout-override:" + how, "base": "with_layout"})
    configs = [[False, "gas"], [True, "gas"], [False, "none"], [True, "O3"]] if ctx.tier == "quick" else \
        [[v, l] for v in (False, True) for l in ("none", "gas", "codesize", "O3")]
    nsh = 3
    shards = [items[k::nsh] for k in range(nsh)]
    with ThreadPoolExecutor(max_workers=nsh) as ex:
        rows = [r for rs in ex.map(lambda k: run_shard(tmp, k, [{kk: v for kk, v in it.items() if kk in ("id", "src", "files", "target", "paths", "layout")}
                                                                  for it in shards[k]], 5, configs),
                                   range(nsh)) for r in rs]
    return classify_rows(ctx, rows, items, "mut")


ALL_CONFIGS = [[v, l] for v in (False, True) for l in ("none", "gas", "codesize", "O3")]

JSON_ABI = [
    {"type": "function", "name": "ping", "stateMutability": "view", "inputs": [{"name": "x", "type": "uint256"}],
     "outputs": [{"name": "", "type": "uint256"}]},
    {"type": "function", "name": "poke", "stateMutability": "nonpayable",
     "inputs": [{"name": "p", "type": "tuple", "components": [{"name": "a", "type": "address"}, {"name": "b", "type": "bytes"}]},
                {"name": "l", "type": "int8[]"}], "outputs": []},
    {"type": "event", "name": "Ev", "anonymous": False, "inputs": [{"name": "who", "type": "address", "indexed": True},
                                                                     {"name": "v", "type": "string", "indexed": False}]},
    {"type": "constructor", "stateMutability": "payable", "inputs": []},
]
JSON_USER = """
import iabi

@external
def f(t: address, x: uint256) -> uint256:
    return staticcall iabi(t).ping(x)
"""


def mutate_json(abi, rnd):
    """one structural mutation of a JSON ABI (kept valid JSON, except for the text-level cases)"""
    abi = json.loads(json.dumps(abi))
    paths = []

    def walk(o, path):
        if isinstance(o, dict):
            for k, v in o.items():
                paths.append(path + [k])
                walk(v, path + [k])
        elif isinstance(o, list):
            for i, v in enumerate(o):
                paths.append(path + [i])
                walk(v, path + [i])
    walk(abi, [])
    k = rnd.randrange(8)
    if k == 0:
        return rnd.choice(["5", "null", "{}", '{"abi": 5}', '"x"', "[1, 2]", "[[]]", "[null]"]), "toplevel"
    if k == 1:
        t = json.dumps(abi)
        return t[:rnd.randrange(len(t))], "truncate"
    path = rnd.choice(paths)
    parent = abi
    for q in path[:-1]:
        parent = parent[q]
    last = path[-1]
    if k in (2, 3):
        del parent[last]
        how = "delete " + str(last)
    elif k in (4, 5):
        parent[last] = rnd.choice([5, None, [], {}, "", "Pure", "uint7", "tuple", "uint256[", "function", True, -1, "int8[][", "bytes33",
                                   "fixed128x10", "uint256[0]", "()", "error", "fallback", "receive"])
        how = f"set {last}"
    elif k == 6 and isinstance(parent, list):
        parent.append(parent[last])
        how = "duplicate element"
    else:
        if isinstance(parent, dict):
            parent[rnd.choice(["type", "name", "stateMutability", "components", "payable", "constant", "indexed", "anonymous"])] = \
                rnd.choice(["x", 1, [], {}, None, True])
        how = "add key"
    return json.dumps(abi), how


def part_valid(ctx, tmp):
    """accepted by semantic analysis => compilable by both code generators at every level"""
    from vlib import c20_valid_gen
    rnd = ctx.rng("valid")
    items = []
    for n, p in CORPUS.items():
        if "layout" in p:
            continue
        items.append({"id": f"corpus:{n}", "files": p["files"], "target": p["target"], "how": "corpus", "base": n})
    ex_root = REPO / "examples"
    ex_files = {str(f.relative_to(ex_root)): f.read_text() for f in sorted(ex_root.rglob("*")) if f.suffix in (".vy", ".vyi", ".json")}
    ex_list = [rel for rel in sorted(ex_files) if rel.endswith(".vy")]
    if ctx.tier == "quick":
        ex_list = rnd.sample(ex_list, 4)
    for rel in ex_list:
        if rel.endswith(".vy"):
            items.append({"id": f"example:{rel}", "files": ex_files, "target": rel, "paths": [".", str(Path(rel).parent)],
                          "how": "example", "base": rel})
    for i in range(3 if ctx.tier == "quick" else 20):
        K = c19_gen.gen_contract(rnd)
        if K["lib"]:
            items.append({"id": f"abi{i}", "files": {"gen.vy": K["src"], "lib0.vy": K["lib"]}, "target": "gen.vy", "how": "c19_gen", "base": f"abi{i}"})
        else:
            items.append({"id": f"abi{i}", "src": K["src"], "how": "c19_gen", "base": f"abi{i}"})
    for i, (nm, src) in enumerate(nested_programs(ctx.tier == "quick")):
        items.append({"id": f"nested{i}", "src": src, "how": "nested-containers", "base": nm})
    for i in range(14 if ctx.tier == "quick" else 600):
        items.append({"id": f"valid{i}", "src": c20_valid_gen.gen_program(rnd), "how": "c20_valid_gen", "base": f"valid{i}"})
    # "at every optimisation level" holds for every EVM target: each accepted program is compiled by all 8 pipeline x level
    # configurations for ONE target, rotating over the programs (an offset from the seed moves the assignment between runs),
    # so that every (generator, level, target) triple is exercised by several programs in every run
    evms = ("london", "paris", "shanghai", "cancun", "prague")
    off = rnd.randrange(len(evms))
    per_evm = collections.Counter()
    for i, it in enumerate(items):
        text = it.get("src") or "\n".join(str(v) for v in it.get("files", {}).values())
        if "transient" in text or "tload" in text or "mcopy" in text or "blob" in text:      # cancun-only features
            it["evm"] = ("cancun", "prague")[(i + off) % 2]
        else:
            it["evm"] = evms[(i + off) % len(evms)]
        per_evm[it["evm"]] += 1
    ctx.corr["valid_programs_per_evm_target"] = dict(per_evm)
    nsh = 3
    shards = [items[k::nsh] for k in range(nsh)]
    strip = lambda it: {k: v for k, v in it.items() if k in ("id", "src", "files", "target", "paths", "evm")}  # noqa
    with ThreadPoolExecutor(max_workers=nsh) as ex:
        rows = [r for rs in ex.map(lambda k: run_shard(tmp, 10 + k, [strip(it) for it in shards[k]], 8, ALL_CONFIGS), range(nsh)) for r in rs]
    return classify_rows(ctx, rows, items, "valid")


ENV_EXPRS = [
    ("bytes32", "keccak256(msg.data)"), ("bytes32", "sha256(msg.data)"), ("uint256", "len(msg.data)"), ("Bytes[4]", "slice(msg.data, 0, 4)"),
    ("Bytes[36]", "msg.data"), ("uint256", "block.blobbasefee"), ("uint256", "block.basefee"), ("uint256", "block.prevrandao"),
    ("uint256", "block.difficulty"), ("bytes32", "blobhash(0)"), ("bytes32", "block.prevhash"), ("bytes32", "blockhash(block.number - 1)"),
    ("uint256", "tx.gasprice"), ("uint256", "msg.gas"), ("uint256", "msg.mana"), ("uint256", "chain.id"), ("uint256", "self.balance"),
    ("uint256", "self.codesize"), ("bytes32", "self.codehash"), ("address", "block.coinbase"), ("address", "tx.origin"), ("uint256", "self.tr_"),
    ("Bytes[32]", "slice(self.code, 0, 32)"), ("uint256", "msg.value"), ("uint256", "block.gaslimit"), ("Bytes[8]", "slice(msg.sender.code, 0, 8)"),
]
ENV_TYPES = ["Bytes[INF]", "String[INF]", "DynArray[uint256, INF]", "Bytes[2**256]", "String[2**64]", "DynArray[uint256, 2**200]"]


def nested_programs(quick=False):
    """deeply nested dynamic containers passed through an internal call and returned in a tuple: the legacy back end runs out
    of DUP-reachable stack (`with` nesting) depending on level / EVM target (no mcopy before cancun)"""
    out = []
    for depth in (3, 4):
        for elem in ("uint256", "Bytes[1]", "String[2]"):
            if quick and (depth, elem) not in ((3, "Bytes[1]"), (4, "uint256")):
                continue
            T = elem
            for _ in range(depth):
                T = f"DynArray[{T}, 1]"
            out.append((f"nested{depth}:{elem}", f"@internal\ndef _p(x: {T}) -> ({T}, uint256):\n    return x, 1\n\n"
                                                  f"@external\ndef f(x: {T}) -> ({T}, uint256):\n    return self._p(x)\n"))
    return out


# every place a NAME is looked up in some namespace, with a name that is not there -- for namespaces of size 0, 1 and several
# (diagnostics carry a lazily computed "did you mean" suggestion over the namespace: it must render for every size)
def unknown_name_programs():
    out = []
    ev = {0: "event E:\n    pass\n", 1: "event E:\n    a: uint256\n", 3: "event E:\n    a: uint256\n    bb: uint256\n    ccc: address\n"}
    for k, d in ev.items():
        out.append((f"event-field:{k}", d + "\n@external\ndef f():\n    log E(zz=1)\n", None))
    st = {1: "struct S:\n    a: uint256\n", 3: "struct S:\n    a: uint256\n    bb: uint256\n    ccc: address\n"}
    for k, d in st.items():
        out.append((f"struct-ctor-field:{k}", d + "\n@external\ndef f() -> uint256:\n    s: S = S(zz=1)\n    return 1\n", None))
        out.append((f"struct-member:{k}", d + "\nx: S\n\n@external\ndef f() -> uint256:\n    return self.x.zz\n", None))
    fl = {1: "flag F:\n    A\n", 3: "flag F:\n    A\n    BB\n    CCC\n"}
    for k, d in fl.items():
        out.append((f"flag-member:{k}", d + "\n@external\ndef f() -> F:\n    return F.ZZ\n", None))
    itf = {0: "interface I:\n    pass\n", 1: "interface I:\n    def a() -> uint256: view\n",
           3: "interface I:\n    def a() -> uint256: view\n    def bb(): nonpayable\n    def ccc(x: uint256): payable\n"}
    for k, d in itf.items():
        out.append((f"interface-function:{k}", d + "\n@external\ndef f(t: address) -> uint256:\n    return staticcall I(t).zz()\n", None))
    sv = {0: "", 1: "a: uint256\n", 3: "a: uint256\nbb: uint256\nccc: address\n"}
    for k, d in sv.items():
        out.append((f"self-variable:{k}", d + "\n@external\ndef f() -> uint256:\n    return self.zz\n", None))
        out.append((f"self-function:{k}", d + "\n@external\ndef f() -> uint256:\n    return self.zz()\n", None))
    libs = {0: "K: constant(uint256) = 1\n", 1: "@internal\ndef a() -> uint256:\n    return 1\n",
            3: "@internal\ndef a() -> uint256:\n    return 1\n\n@internal\ndef bb() -> uint256:\n    return 2\n\n@internal\ndef ccc() -> uint256:\n    return 3\n"}
    for k, d in libs.items():
        out.append((f"module-function:{k}", "import lib\n\n@external\ndef f() -> uint256:\n    return lib.zz()\n", {"lib.vy": d}))
        out.append((f"module-export:{k}", "import lib\nexports: lib.zz\n\n@external\ndef f() -> uint256:\n    return 1\n", {"lib.vy": d}))
        out.append((f"module-override:{k}", "import lib\ninitializes: lib\n\n@override(lib)\n@internal\ndef zz():\n    pass\n\n@external\ndef f() -> uint256:\n    return 1\n",
                    {"lib.vy": d}))
        out.append((f"module-constant:{k}", "import lib\n\n@external\ndef f() -> uint256:\n    return lib.ZZ\n", {"lib.vy": d}))
    out.append(("local-variable:0", "@external\ndef f() -> uint256:\n    return zz\n", None))
    out.append(("local-variable:2", "@external\ndef f(a: uint256, bb: uint256) -> uint256:\n    return zz\n", None))
    out.append(("type-name", "@external\ndef f(a: uint257) -> uint256:\n    return 1\n", None))
    out.append(("builtin-name", "@external\ndef f(a: uint256) -> uint256:\n    return isqrtt(a)\n", None))
    out.append(("kwarg-name", "@external\ndef f(a: address) -> Bytes[32]:\n    return raw_call(a, b\"\", max_outsiz=32)\n", None))
    out.append(("decorator-name", "@externl\ndef f() -> uint256:\n    return 1\n", None))
    out.append(("msg-attribute", "@external\ndef f() -> uint256:\n    return msg.valu\n", None))
    out.append(("loop-variable-attr", "@external\ndef f(x: uint256[2]) -> uint256:\n    for i: uint256 in x:\n        return i.zz\n    return 0\n", None))
    return out


def part_unknown_names(ctx, tmp):
    items = []
    for nm, src, files in unknown_name_programs():
        if files is None:
            items.append({"id": "unk:" + nm, "src": src, "how": "unknown-name", "base": nm})
        else:
            items.append({"id": "unk:" + nm, "files": dict(files, **{"main.vy": src}), "target": "main.vy", "how": "unknown-name", "base": nm})
    strip = lambda it: {k: v for k, v in it.items() if k in ("id", "src", "files", "target")}  # noqa
    rows = run_shard(tmp, 70, [strip(it) for it in items], 5, [[False, "gas"], [True, "gas"]])
    accepted = [r["id"] for r in rows if r["front"]["outcome"] == "output"]
    if accepted:
        ctx.violation("correspondence-broken", "a program that uses a name that is declared nowhere is accepted (the unknown-name family is "
                      "no longer a family of invalid programs)", {"accepted": accepted})
    return classify_rows(ctx, rows, items, "unk")


# statement slots that take an EXPRESSION which is evaluated on the way out (revert reasons) x every kind of call expression:
# a program the front end accepts must be compilable by both generators (fix-C09 side finding: `raise extcall X(a).f()`)
def reason_programs():
    pre = ("interface X:\n    def f() -> String[32]: nonpayable\n    def g() -> String[32]: view\n\n"
           "n: uint256\n\n@internal\ndef _s() -> String[32]:\n    self.n += 1\n    return \"s\"\n\n"
           "@internal\n@view\ndef _v() -> String[32]:\n    return \"v\"\n\n")
    exprs = [("extcall", "extcall X(a).f()"), ("staticcall", "staticcall X(a).g()"), ("internal-modifying", "self._s()"),
             ("internal-view", "self._v()"), ("literal", "\"plain\""), ("concat-of-call", "concat(staticcall X(a).g(), \"!\")")]
    out = []
    for en, e in exprs:
        out.append((f"reason:raise:{en}", pre + f"@external\ndef h(a: address, c: bool):\n    raise {e}\n"))
        out.append((f"reason:assert:{en}", pre + f"@external\ndef h(a: address, c: bool):\n    assert c, {e}\n"))
        out.append((f"reason:raise-in-internal:{en}", pre + f"@internal\ndef _r(a: address):\n    raise {e}\n\n@external\ndef h(a: address, c: bool):\n    self._r(a)\n"))
    return out


def part_reasons(ctx, tmp):
    items = [{"id": "rsn:" + nm, "src": src, "how": "revert-reason-expression", "base": nm} for nm, src in reason_programs()]
    rows = run_shard(tmp, 75, [{"id": it["id"], "src": it["src"]} for it in items], 8, ALL_CONFIGS)
    return classify_rows(ctx, rows, items, "valid", tag="reasons")


def part_env_matrix(ctx, tmp):
    """environment variables / builtins / unbounded types x every EVM target x both pipelines (systematic, fixed list)"""
    items = []
    for i, (t, e) in enumerate(ENV_EXPRS):
        pay = "@payable\n" if "msg.value" in e else ""
        items.append({"id": f"env{i}", "how": "env-matrix", "base": e,
                      "src": f"tr_: transient(uint256)\n\n@external\n{pay}def f_() -> {t}:\n    return {e}\n" if "tr_" in e else
                             f"@external\n{pay}def f_() -> {t}:\n    return {e}\n"})
    for i, t in enumerate(ENV_TYPES):
        items.append({"id": f"envt{i}", "how": "env-matrix", "base": t, "src": f"@external\ndef f_(x: {t}) -> uint256:\n    return 1\n"})
        items.append({"id": f"envs{i}", "how": "env-matrix", "base": "storage " + t, "src": f"x_: {t}\n\n@external\ndef f_() -> uint256:\n    return 1\n"})
    for i, (nm, src) in enumerate(nested_programs(ctx.tier == "quick")):
        items.append({"id": f"envn{i}", "how": "env-matrix", "base": nm, "src": src})
    configs = [[v, "gas", e] for v in (False, True) for e in (("london", "shanghai", "cancun", "prague") if ctx.tier == "quick" else ("london", "paris", "shanghai", "cancun", "prague"))]
    nsh = 3
    shards = [items[k::nsh] for k in range(nsh)]
    with ThreadPoolExecutor(max_workers=nsh) as ex:
        rows = [r for rs in ex.map(lambda k: run_shard(tmp, 20 + k, [{kk: v for kk, v in it.items() if kk in ("id", "src")} for it in shards[k]], 5, configs),
                                   range(nsh)) for r in rs]
    return classify_rows(ctx, rows, items, "env")


MATRIX_CONFIGS = [[False, "none"], [False, "gas"], [False, "codesize"], [True, "none"], [True, "O2"], [True, "O3"], [True, "Os"]]


def part_builtin_matrix(ctx, tmp):
    """builtin x argument-shape matrix (tools/vlib/c20_builtin_matrix.py): outcome classification under 3 legacy and 4 venom
    levels, then execution of every fully accepted program on pyrevm under legacy-gas and venom-O2 with two argument sets."""
    from eth_abi import encode
    from eth_utils import keccak
    from vyper.builtins.functions import DISPATCH_TABLE, STMT_DISPATCH_TABLE

    from vlib import c20_builtin_matrix as M
    from vlib.evm import Chain, log_tuple
    missing = (set(DISPATCH_TABLE) | set(STMT_DISPATCH_TABLE)) - M.covered_builtins()
    if missing:
        ctx.violation("correspondence-broken", "builtins without a template in c20_builtin_matrix.py", {"builtins": sorted(missing)})
    rnd = ctx.rng("matrix")
    built = []
    for tpl, h, sh in M.all_cases():
        b = M.build(tpl, h, sh)
        if b is not None:
            built.append((tpl, h, sh, b))
    n_all = len(built)
    target = 215 if ctx.tier == "quick" else (n_all if os.environ.get("VERIF_C20_FULL_MATRIX") == "1" else 4000)
    if target < n_all:
        # seeded sample, stratified so that every builtin and every shape occurs (thorough: 4000 of the ~20k programs to stay
        # inside the tier budget; VERIF_C20_FULL_MATRIX=1 runs the whole matrix, ~25 min on 3 cores)
        by_b, by_s = collections.defaultdict(list), collections.defaultdict(list)
        for c in built:
            by_b[c[0]["builtin"]].append(c)
            by_s[c[2]].append(c)
        pick = [rnd.choice(v) for _, v in sorted(by_b.items())] + [rnd.choice(v) for _, v in sorted(by_s.items())]
        for tpl, h, sh in M.regression_cases():   # cases that exposed a defect once
            b = M.build(tpl, h, sh)
            if b is not None:
                pick.append((tpl, h, sh, b))
        pick += rnd.sample(built, max(0, target - len(pick)))
        built = pick
    ctx.corr["matrix_programs_total"] = n_all
    items = []
    for i, (tpl, h, sh, b) in enumerate(built):
        items.append({"id": f"bm{i}", "src": b["src"], "how": f"builtin-matrix:{tpl['builtin']}:{sh}", "base": b["call"][:60],
                      "builtin": tpl["builtin"], "shape": sh, "params": b["params"], "payable": b["payable"]})
    nsh = 3
    shards = [items[k::nsh] for k in range(nsh)]
    with ThreadPoolExecutor(max_workers=nsh) as ex:
        rows = [r for rs in ex.map(lambda k: run_shard(tmp, 30 + k, [{"id": it["id"], "src": it["src"]} for it in shards[k]], 8,
                                                       MATRIX_CONFIGS, want_bytecode=True), range(nsh)) for r in rs]
    stats, n = classify_rows(ctx, rows, items, "valid", tag="matrix")
    # ---- execution: legacy-gas vs venom-O2 (and legacy-none vs venom-O3 in the thorough tier)
    by_id = {it["id"]: it for it in items}
    pairs = [("legacy-gas", "venom-O2")] + ([("legacy-none", "venom-O3"), ("legacy-codesize", "venom-Os")] if ctx.tier == "thorough" else [])
    n_exec = n_prog = 0
    reported = set()
    for r in rows:
        runs = r["runs"]
        if r["front"]["outcome"] != "output" or any(o["outcome"] != "output" for o in runs.values()) or len(runs) < len(MATRIX_CONFIGS):
            continue
        it = by_id[r["id"]]
        if ".code" in it["src"] or "codehash" in it["src"] or "codesize" in it["src"] or "msg.gas" in it["src"]:
            continue   # depends on the contract's own bytecode / gas: legitimately differs between the pipelines
        n_prog += 1
        sel = keccak(("f(" + ",".join(M.calldata(it["params"], 0)[0]) + ")").encode())[:4]
        for a, b2 in pairs:
            res = []
            for cfgname in (a, b2):
                ch = Chain("prague")
                addr = ch.deploy(bytes.fromhex(runs[cfgname]["bytecode"][2:]))
                outs = []
                for which in (0, 1):
                    if addr is None:
                        outs.append(("deploy-failed",))
                        continue
                    types, vals = M.calldata(it["params"], which)
                    rr = ch.call(addr, sel + encode(types, vals), value=(3 if it["payable"] and which == 0 else 0))
                    outs.append((rr.ok, rr.out.hex() if rr.ok else "", tuple(log_tuple(l) for l in rr.logs) if rr.ok else ()))
                    n_exec += 1
                res.append(outs)
            if res[0] != res[1]:
                key = f"C20M:disagree:{it['builtin']}:{it['shape']}"
                if key not in reported and len(reported) < 30:
                    reported.add(key)
                    which = 0 if res[0][0] != res[1][0] else 1
                    types, vals = M.calldata(it["params"], which)
                    ctx.violation("failing-input", f"builtin matrix: {a} and {b2} behave differently on {it['base']}",
                                  {"source": it["src"], "calldata_types": types, "calldata_values": [str(v) for v in vals],
                                   "value": 3 if it["payable"] and which == 0 else 0, a: str(res[0][which])[:300], b2: str(res[1][which])[:300]},
                                  key=key)
    ctx.corr["matrix_programs"] = n
    ctx.corr["matrix_programs_executed"] = n_prog
    ctx.corr["matrix_calls"] = n_exec
    ctx.corr["matrix_behaviour_disagreements"] = sorted(reported)
    return stats, n, n_exec


# ------------------------------------------------------------------ fixed families (never sampled, identical for every seed)
SHIFT_AMOUNTS = [("256", 256), ("257", 257), ("2**64", 2 ** 64), ("2**255", 2 ** 255), (str(2 ** 256 - 1), 2 ** 256 - 1)]


def shift_programs():
    """shifts by 256, 257, 2**64, 2**255, 2**256-1 of constants and run-time values: `<<` / `>>` on uint256 and int256 and
    the `shift` builtin, the amount given as literal / folded expression / module constant / local variable (known only
    after constant propagation) / argument of an inlined internal function / max_value."""
    progs = []
    ops = [("shl_c", "uint256", "{v} << {n}", "3"), ("shl_x", "uint256", "x << {n}", None), ("shr_c", "uint256", "{v} >> {n}", "2**255"),
           ("shr_x", "uint256", "x >> {n}", None), ("sar_c", "int256", "{v} >> {n}", "-5"), ("shl_i", "int256", "{v} << {n}", "7")]

    def fn(name, typ, body_lines, ret, argt="uint256"):
        return f"@external\ndef {name}(x: {argt}) -> {typ}:\n" + "".join(f"    {l}\n" for l in body_lines) + f"    return {ret}\n"
    # amount forms which the front end sees as a value <= 256 are legal everywhere; larger syntactic literals are rejected
    # by the front end (a user diagnostic: counted, not reported)
    for form in ("literal", "folded", "constant", "local", "internal", "local_max"):
        decls, helpers, fns = [], [], []
        for ai, (atxt, aval) in enumerate(SHIFT_AMOUNTS):
            if form == "local_max" and aval != 2 ** 256 - 1:
                continue
            for oname, typ, fmt, v in ops:
                if form in ("literal", "folded", "constant") and oname in ("shl_c", "shl_i"):
                    continue    # the front end folds `3 << 256` itself (out of range: a user diagnostic)
                argt = typ
                name = f"{oname}_{ai}"
                if form == "literal":
                    fns.append((aval, fn(name, typ, [], fmt.format(v=v, n=atxt), argt)))
                elif form == "folded":
                    fns.append((aval, fn(name, typ, [], fmt.format(v=v, n=f"({atxt} - 1 + 1)"), argt)))
                elif form == "constant":
                    decls.append(f"N{ai}: constant(uint256) = {atxt}")
                    fns.append((aval, fn(name, typ, [], fmt.format(v=v, n=f"N{ai}"), argt)))
                elif form == "local":
                    fns.append((aval, fn(name, typ, [f"n: uint256 = {atxt}"] + ([f"v: {typ} = {v}"] if v else []),
                                         fmt.format(v="v", n="n"), argt)))
                elif form == "internal":
                    helpers.append(f"@internal\ndef _{name}(a: {typ}, n: uint256) -> {typ}:\n    return " + fmt.format(v="a", n="n").replace("x ", "a ") + "\n")
                    fns.append((aval, fn(name, typ, [], f"self._{name}({v if v else 'x'}, {atxt})", argt)))
                else:
                    fns.append((aval, fn(name, typ, ["n: uint256 = max_value(uint256)"] + ([f"v: {typ} = {v}"] if v else []),
                                         fmt.format(v="v", n="n"), argt)))
        # literal / folded / constant amounts above 256 are rejected by the front end: keep them in a program of their own
        for big in (False, True):
            sel = [f for a, f in fns if (a > 256) == big] if form in ("literal", "folded", "constant") else ([f for _, f in fns] if not big else [])
            if sel:
                d = [x for x in dict.fromkeys(decls)]
                progs.append((f"shift:{form}:{'gt256' if big else 'le256'}" if form in ("literal", "folded", "constant") else f"shift:{form}",
                              "\n".join(d) + ("\n\n" if d else "") + "\n".join(helpers + sel)))
    # the deprecated builtin, amounts through a local (int256 amount: +-256, +-257, min/max)
    b = []
    for i, n in enumerate(["256", "-256", "257", "-257", "2**64", "-2**64", "max_value(int256)", "min_value(int256)"]):
        b.append(f"@external\ndef sb_{i}(x: uint256) -> uint256:\n    n: int256 = {n}\n    return shift(x, n)\n")
        b.append(f"@external\ndef sc_{i}(x: uint256) -> uint256:\n    n: int256 = {n}\n    v: uint256 = 5\n    return shift(v, n)\n")
    progs.append(("shift:builtin", "\n".join(b)))
    return progs


SELECTOR_FAMILIES = [(16, 12, 0), (14, 12, 0), (18, 12, 6), (20, 60, 0), (15, 30, 0), (24, 12, 0), (12, 4, 0), (30, 2, 0), (16, 7, 3), (40, 12, 0)]


def selector_programs():
    """n external functions whose method ids are all = r mod k (names mined deterministically): bucket counts dividing k
    leave empty buckets, so the dense jump table (codesize) needs its exhaustive fallback"""
    from eth_utils import keccak
    out = []
    for n, k, r in SELECTOR_FAMILIES:
        names, i = [], 0
        while len(names) < n:
            nm = f"g{i}"
            if int.from_bytes(keccak(f"{nm}()".encode())[:4], "big") % k == r:
                names.append(nm)
            i += 1
        src = "".join(f"@external\ndef {nm}() -> uint256:\n    return {j}\n\n" for j, nm in enumerate(names))
        out.append((f"selectors:{n}={r}mod{k}", src, [int.from_bytes(keccak(f"{nm}()".encode())[:4], "big") for nm in names]))
    return out


def dense_solvable(ids):
    """independent search: is there a bucket count with no empty bucket in which every bucket has a 16-bit magic?"""
    n = len(ids)
    for nb in range(1, n + 1):
        buckets = {}
        for x in ids:
            buckets.setdefault(x % nb, []).append(x)
        if len(buckets) != nb:
            continue
        ok = True
        for xs in buckets.values():
            L = len(xs)
            if not any(len({((x * m) >> 24) % L for x in xs}) == L for m in range(2 ** 16)):
                ok = False
                break
        if ok:
            return True
    return False


def part_fixed(ctx, tmp):
    """fixed program families, independent of the seed and of any sampling: every optimisation level of both pipelines"""
    items = [{"id": f"fx{i}", "src": p[1], "how": "fixed-family", "base": p[0], "ids": p[2] if len(p) > 2 else None}
             for i, p in enumerate(shift_programs() + selector_programs())]
    nsh = 3
    shards = [items[k::nsh] for k in range(nsh)]
    with ThreadPoolExecutor(max_workers=nsh) as ex:
        rows = [r for rs in ex.map(lambda k: run_shard(tmp, 50 + k, [{"id": it["id"], "src": it["src"]} for it in shards[k]], 20, ALL_CONFIGS),
                                   range(nsh)) for r in rs]
    by_id = {it["id"]: it for it in items}
    # a selector set for which NO bucket count has a perfect hash (independent search) is the known, proved defect
    # (dense_table_refuted); a RuntimeError on a set which has a solution is a new failure and keeps its own key
    for r in rows:
        it = by_id[r["id"]]
        if not it["base"].startswith("selectors:"):
            continue
        hit = [o for o in r["runs"].values() if o.get("exc") == "RuntimeError" and "generate_dense_jumptable_info" in str(o.get("frame"))]
        if hit and not dense_solvable(it["ids"]):
            for o in hit:
                o["outcome"] = "known-unsolvable"
            ctx.violation("failing-input", "generate_dense_jumptable_info raises a raw RuntimeError on a valid program (no bucket count has a 16-bit magic)",
                          {"source": it["src"], "family": it["base"], "config": "-O codesize (both pipelines)", "exception": hit[0].get("msg", "")[:200]},
                          key="C20:dense-jumptable-runtimeerror")
    # the families are only useful while the front end accepts them (except the > 256 literal forms)
    for r in rows:
        nm = by_id[r["id"]]["base"]
        if r["front"]["outcome"] != "output" and "gt256" not in nm:
            ctx.violation("correspondence-broken", "a fixed-family program is no longer accepted by the front end",
                          {"family": nm, "source": by_id[r["id"]]["src"], "outcome": r["front"]})
    return classify_rows(ctx, rows, items, "valid", tag="fixed")


def part_cf_exec(ctx, tmp):
    """seeded control-flow programs (word locals: vlib/c18_corpus.gen_cf_program; memory arrays, ternaries of arrays, internal
    calls with array arguments / results, DynArray append / pop, storage copies: vlib/c20_cf_gen.gen_cf_mem_program), none of
    which can revert: outcome classification under the 7 matrix configurations, then every configuration must return the same
    word as legacy-none on 4 inputs."""
    from eth_abi import encode
    from eth_utils import keccak
    from vlib import c20_cf_gen
    from vlib.c18_corpus import gen_cf_program
    from vlib.evm import Chain
    rnd = ctx.rng("cfexec")
    n_word, n_mem = (3, 7) if ctx.tier == "quick" else (20, 80)
    items = []
    for i in range(n_word):
        items.append({"id": f"cfw{i}", "src": gen_cf_program(rnd), "how": "cf-exec:words", "base": f"cfw{i}"})
    for i in range(n_mem):
        items.append({"id": f"cfm{i}", "src": c20_cf_gen.gen_cf_mem_program(rnd), "how": "cf-exec:memory", "base": f"cfm{i}"})
    nsh = 3
    shards = [items[k::nsh] for k in range(nsh)]
    with ThreadPoolExecutor(max_workers=nsh) as ex:
        rows = [r for rs in ex.map(lambda k: run_shard(tmp, 40 + k, [{"id": it["id"], "src": it["src"]} for it in shards[k]], 20,
                                                       MATRIX_CONFIGS, want_bytecode=True), range(nsh)) for r in rs]
    stats, n = classify_rows(ctx, rows, items, "valid", tag="cfexec")
    by_id = {it["id"]: it for it in items}
    sel = keccak(b"f(uint256,uint256)")[:4]
    inputs = [(0, 0), (1, 2), (5, 2 ** 255 + 3), (2 ** 256 - 1, 7)]
    n_exec = 0
    reported = set()
    for r in rows:
        runs = r["runs"]
        if r["front"]["outcome"] != "output":
            ctx.violation("correspondence-broken", "a generated control-flow program is rejected by the front end",
                          {"source": by_id[r["id"]]["src"], "outcome": r["front"]})
            break
        if any(o["outcome"] != "output" for o in runs.values()) or len(runs) < len(MATRIX_CONFIGS):
            continue
        res = {}
        for cfgname, o in runs.items():
            ch = Chain("prague")
            addr = ch.deploy(bytes.fromhex(o["bytecode"][2:]))
            outs = []
            for x, y in inputs:
                rr = ch.call(addr, sel + encode(["uint256", "uint256"], [x, y])) if addr is not None else None
                outs.append("deploy-failed" if rr is None else (rr.out.hex() if rr.ok else "revert"))
                n_exec += 1
            res[cfgname] = outs
        ref = res["legacy-none"]
        for cfgname, outs in res.items():
            if outs != ref:
                it = by_id[r["id"]]
                kind = it["how"].split(":")[1]
                pipeline = "legacy" if cfgname.startswith("legacy") else "venom"
                key = f"C20M:disagree:cf-{kind}:{pipeline}"
                if key in reported:
                    continue
                reported.add(key)
                k = [i for i in range(len(inputs)) if outs[i] != ref[i]][0]
                ctx.violation("failing-input", f"control-flow program: {cfgname} returns a different word than legacy-none",
                              {"source": it["src"], "input": [str(v) for v in inputs[k]], "legacy-none": ref[k], cfgname: outs[k],
                               "all_results": res}, key=key)
    ctx.corr["cfexec_programs"] = n
    ctx.corr["cfexec_calls"] = n_exec
    ctx.corr["cfexec_disagreements"] = sorted(reported)
    return stats, n, n_exec


def classify_rows(ctx, rows, items, part, tag=None):
    by_id = {it["id"]: it for it in items}
    stats = collections.Counter()
    internal = {}
    examples = {}
    for r in rows:
        it = by_id[r["id"]]
        outs = [r["front"]] + list(r["runs"].values())
        for name, o in [("front", r["front"])] + list(r["runs"].items()):
            stats["compilations"] += 1
            stats["outcome:" + o["outcome"]] += 1
            if o["outcome"] == "user":
                stats["user_with_location" if o.get("loc") else "user_without_location"] += 1
                if not o.get("loc"):
                    stats["noloc:" + o["exc"]] += 1
                stats["diag:" + o["exc"]] += 1
            if o["outcome"] == "INTERNAL":
                f = o.get("frame", "?:?")
                # message class only for the compiler's own internal exception classes (it separates different panics
                # raised in one function); raw Python exceptions are identified by type + frame
                key = f"C20:{o['exc']}:{f}" + (":" + msg_class(o.get("msg")) if o.get("vyper_internal") else "")
                if it["how"].startswith("json-abi:"):
                    # malformed JSON ABI inputs: one family (no schema validation); keyed by frame only
                    key = f"C20:json-abi:{o['exc']}:{f}"
                if it["how"].startswith("layout-override:"):
                    key = f"C20:layout-override:{o['exc']}:{f}"
                internal.setdefault(key, (it, name, o))
                examples.setdefault(key, set()).add(str(it["how"]) + " | " + str(it["base"])[:50])
        if r["id"].startswith("base:") and any(o["outcome"] != "output" for o in outs):
            ctx.violation("correspondence-broken", "an unchanged corpus program does not compile", {"program": it["base"], "outcomes": outs})
        if r["front"]["outcome"] == "output" and part != "env":   # env: the configurations differ in EVM target, rejections are legitimate
            stats["accepted_by_analysis"] += 1
            runs = r["runs"]
            bad = {k: o for k, o in runs.items() if o["outcome"] == "user"}
            good = [k for k, o in runs.items() if o["outcome"] == "output"]
            if bad and not good and part == "valid":
                k0, o0 = sorted(bad.items())[0]
                key = f"C20:backend-reject:{o0['exc']}:{o0.get('frame')}"
                internal.setdefault(key, (it, k0, dict(o0, note="accepted by semantic analysis, rejected by every back-end configuration")))
                examples.setdefault(key, set()).add(str(it["how"]) + " | " + str(it["base"])[:50])
            if bad and good:
                k0, o0 = sorted(bad.items())[0]
                key = f"C20:backend-disagree:{o0['exc']}:{o0.get('frame')}"
                internal.setdefault(key, (it, k0, dict(o0, note=f"accepted by semantic analysis and compiled by {good}, rejected by {sorted(bad)}")))
                examples.setdefault(key, set()).add(str(it["how"]) + " | " + str(it["base"])[:50])
    for key, (it, cfgname, o) in sorted(internal.items()):
        ctx.violation("failing-input", f"internal outcome {o['exc']} at {o.get('frame')} ({it['how']} of {it['base']})",
                      {"source": it.get("src") or {"files": it.get("files") if it["how"] != "example" else "/repo/examples", "target": it.get("target")},
                       "config": cfgname, "outcome": o, "mutation": it["how"], "base_program": it["base"],
                       "replay": "compile_code(source, settings=Settings(experimental_codegen=<venom>, optimize=<level>, enable_decimals=True))"},
                      key=key)
    part = tag or part
    ctx.corr[part + "_examples_per_key"] = {k: sorted(v)[:40] for k, v in examples.items()}
    ctx.corr[part + "_distinct_internal"] = sorted(internal)
    ctx.corr[part] = {k: int(v) for k, v in stats.items() if not k.startswith(("diag:", "noloc:"))}
    ctx.corr[part + "_diagnostics_without_location"] = {k[6:]: int(v) for k, v in stats.items() if k.startswith("noloc:")}
    ctx.corr[part + "_diagnostic_classes"] = {k[5:]: int(v) for k, v in stats.items() if k.startswith("diag:")}
    return stats, len(items)


# ------------------------------------------------------------------ known / targeted probes
def probe_simplify_cfg(ctx):
    from vyper.compiler import compile_code
    from vyper.compiler.settings import OptimizationLevel, Settings, VenomOptimizationFlags
    from vyper.exceptions import VyperException, VyperInternalException
    src = "@external\ndef f() -> uint256:\n    return 1\n"
    try:
        with warnings.catch_warnings():
            warnings.simplefilter("ignore")
            compile_code(src, output_formats=["bytecode"], settings=Settings(
                experimental_codegen=True, optimize=OptimizationLevel.GAS,
                venom_flags=VenomOptimizationFlags(level=OptimizationLevel.GAS, disable_simplify_cfg=True)))
        return "output"
    except VyperInternalException as e:
        ctx.violation("failing-input", "venom flag disable_simplify_cfg ends in an internal compiler error",
                      {"source": src, "settings": "Settings(experimental_codegen=True, venom_flags=VenomOptimizationFlags(disable_simplify_cfg=True))",
                       "exception": f"{type(e).__name__}: {str(e)[:300]}"}, key="C20:disable_simplify_cfg-panics")
        return type(e).__name__
    except VyperException as e:
        return "user:" + type(e).__name__


def probe_arity(ctx):
    from vyper.compiler import compile_code
    from vyper.compiler.settings import Settings
    src = ('@internal\ndef _f(p: uint256) -> uint256:\n    raise "no"\n\n'
           '@external\ndef g(x: uint256) -> uint256:\n    return self._f(x)\n')
    res = {}
    for venom in (False, True):
        try:
            with warnings.catch_warnings():
                warnings.simplefilter("ignore")
                compile_code(src, output_formats=["bytecode"], settings=Settings(experimental_codegen=venom))
            res[venom] = "output"
        except Exception as e:  # noqa
            res[venom] = f"{type(e).__name__}: {str(e)[:120]}"
    if res[False] == "output" and res[True] != "output":
        ctx.violation("failing-input", "venom rejects a call to an always-raising internal function with a return type (legacy compiles)",
                      {"source": src, "legacy": res[False], "venom": res[True],
                       "replay": "compile_code(source, settings=Settings(experimental_codegen=True))"},
                      key="C20:venom-invoke-arity-always-raising-internal")
    return res


def probe_dense(ctx):
    """Coq witness replayed on the real function + model-vs-real differential on random id sets."""
    import vyper.codegen.jumptable_utils as ju
    rnd = ctx.rng("dense")
    witness = [0x10000000 + 60 * k for k in range(5)]
    sets = [witness]
    for _ in range(10 if ctx.tier == "quick" else 60):
        n = rnd.randint(1, 12)
        sets.append(rnd.sample(range(2 ** 32), n))
    for _ in range(4):
        c = rnd.randrange(2 ** 31)
        sets.append([c + rnd.choice([60, 120, 12, 4]) * k for k in range(rnd.randint(2, 6))])
    imports = "From Verif Require Import C20.DenseTable.\n"
    outs = coqrun.eval_zlists(imports, [f"show (generate_dense {coqrun.zlist(s)})" for s in sets], "c20dense", shard=6, timeout=300)
    saved = ju.method_id_int
    ju.method_id_int = lambda x: x
    bad = 0
    reported = False
    try:
        for s, o in zip(sets, outs):
            try:
                r = ju.generate_dense_jumptable_info(list(s))
                real = [0] if r is None else [r[0]] + [z for bid, b in r[1].items() for z in (bid, b.magic)]
                exc = None
            except RuntimeError as e:
                real, exc = [-1], e
            if real != o:
                bad += 1
                ctx.violation("correspondence-broken", "DenseTable.v model differs from jumptable_utils", {"ids": s, "model": o, "real": real})
            if exc is not None and not reported:
                reported = True
                ctx.violation("failing-input", "generate_dense_jumptable_info raises a raw RuntimeError on a valid selector set",
                              {"call": f"vyper.codegen.jumptable_utils.generate_dense_jumptable_info(sigs) with method ids {s} "
                                       "(patch method_id_int to the identity, or mine names with these ids)",
                               "exception": str(exc)[:200]}, key="C20:dense-jumptable-runtimeerror")
    finally:
        ju.method_id_int = saved
    ctx.corr["dense_sets"] = len(sets)
    return len(sets), bad


PROBE_SCRIPT = r"""
import json, sys, warnings
warnings.simplefilter("ignore")
from pathlib import Path
from vyper.compiler import compile_code
from vyper.compiler.input_bundle import JSONInput
src, layout = json.load(open(sys.argv[1]))
p = Path("layout.json")
ji = JSONInput(contents=json.dumps(layout), data=layout, source_id=-2, path=p, resolved_path=p)
try:
    out = compile_code(src, output_formats=["bytecode", "layout"], storage_layout_override=ji)
    print("C20PROBE output")
except Exception as e:
    from vyper.exceptions import VyperException, VyperInternalException
    kind = "INTERNAL" if isinstance(e, VyperInternalException) or not isinstance(e, VyperException) else "user"
    print("C20PROBE", kind, type(e).__name__, str(e)[:200].replace("\n", " "))
"""


def probe_override(ctx, tmp, src, layout, tag):
    f = tmp / f"probe_{tag}.json"
    f.write_text(json.dumps([src, layout]))
    sc = tmp / "probe.py"
    sc.write_text(PROBE_SCRIPT)
    env = dict(os.environ)
    env["PYTHONPATH"] = str(REPO)
    env["PYTHONDONTWRITEBYTECODE"] = "1"
    try:
        p = subprocess.run([sys.executable, str(sc), str(f)], env=env, capture_output=True, text=True, timeout=10, cwd=str(tmp))
    except subprocess.TimeoutExpired:
        return "timeout"
    for line in p.stdout.splitlines():
        if line.startswith("C20PROBE"):
            return line[9:]
    return "crash " + p.stderr[-300:]


def run(ctx):
    b = ctx.coq_build(["C20/DenseTable.v", "C20/PropsC20.v"])
    tmp = Path(tempfile.mkdtemp(prefix="c20_"))
    nv0 = len(ctx.violations) + len(ctx.known_hits)
    try:
        stats, n_items = part_outcomes(ctx, tmp)
        vstats, n_valid = part_valid(ctx, tmp)
        estats, n_env = part_env_matrix(ctx, tmp)
        ustats, n_unk = part_unknown_names(ctx, tmp)
        n_env += n_unk
        rstats, n_rsn = part_reasons(ctx, tmp)
        n_env += n_rsn
        mstats, n_matrix, n_matrix_exec = part_builtin_matrix(ctx, tmp)
        cstats, n_cf, n_cf_exec = part_cf_exec(ctx, tmp)
        fstats, n_fixed = part_fixed(ctx, tmp)
        r_arity = probe_arity(ctx)
        from vlib import c20_pow
        n_pow = c20_pow.run(ctx)
        # proof-level part: the pre-parser state machines (regenerated from /repo, proved total for all token lists)
        from vlib import c20_preparse_part
        n_pow += c20_preparse_part.part_preparse(ctx)
        r_cfg = probe_simplify_cfg(ctx)
        n_dense = 0
        if (coqrun.COQ / "C20" / "DenseTable.vo").exists():
            n_dense, _ = probe_dense(ctx)
        # regression probe (repaired in /repo): huge array + valid override must terminate quickly
        huge_src = "x: uint256[2**200]\n@external\ndef f() -> uint256:\n    return self.x[0]\n"
        huge_t = f"uint256[{2 ** 200}]"
        r_huge = probe_override(ctx, tmp, huge_src, {"x": {"type": huge_t, "slot": 0, "n_slots": 2 ** 200}}, "huge")
        if r_huge == "timeout":
            ctx.violation("failing-input", "huge array + storage layout override: no result within 10 s",
                          {"source": huge_src, "override": {"x": {"type": huge_t, "slot": 0, "n_slots": "2**200"}}},
                          key="C20:override-huge-array-hang")
        elif r_huge.startswith("INTERNAL"):
            ctx.violation("failing-input", "huge array + storage layout override ends in an internal error: " + r_huge,
                          {"source": huge_src, "override": {"x": {"type": huge_t, "slot": 0, "n_slots": "2**200"}}},
                          key="C20:override-huge-array-internal")
        # override whose "type" string differs textually from the computed one
        r_ty = probe_override(ctx, tmp, "x: uint256[2**3]\n@external\ndef f() -> uint256:\n    return self.x[0]\n",
                              {"x": {"type": "uint256[2**3]", "slot": 0, "n_slots": 8}}, "typestr")
        if r_ty.startswith("INTERNAL") or r_ty == "timeout":
            ctx.violation("failing-input", "storage layout override with a textually different type string ends in an internal error: " + r_ty,
                          {"source": "x: uint256[2**3]\n@external\ndef f() -> uint256:\n    return self.x[0]\n",
                           "override": {"x": {"type": "uint256[2**3]", "slot": 0, "n_slots": 8}},
                           "replay": "compile_code(source, storage_layout_override=JSONInput(...override...)) or vyper --storage-layout-file"},
                          key="C20:override-type-string-mismatch-panic")
        ctx.corr["probes"] = {"venom_always_raising_internal": r_arity, "disable_simplify_cfg": r_cfg, "override_huge_array": r_huge, "override_type_string": r_ty}
    finally:
        import shutil
        shutil.rmtree(tmp, ignore_errors=True)
    if not b["ok"] and len(ctx.violations) + len(ctx.known_hits) == nv0:
        ctx.violation("theorem-broken", f"{b.get('failed_lemma')} in {b['file']}",
                      {"theorem": b.get("failed_lemma"), "file": b["file"], "coq_output": b["out"][-1500:]})
    ctx.corr["evaluations"] = int(stats["compilations"]) + int(vstats["compilations"]) + int(estats["compilations"]) + int(mstats["compilations"]) + n_matrix_exec + int(cstats["compilations"]) + n_cf_exec + int(fstats["compilations"]) + n_dense + 4 + n_pow
    ctx.corr["distinct_nontrivial"] = n_items + n_valid + n_dense + 4 + n_pow
    ctx.corr["rule"] = "distinct source texts (unchanged + mutated) each compiled by the front end and up to 4 (quick) / 8 back-end configs; dense id sets; 3 targeted probes"
    ctx.extra["explanation"] = (
        "PROVED (Coq): largest_power_total / largest_base_total on the py2coq translation of calculate_largest_power/base "
        "(vyper/codegen/arithmetic.py, regenerated each run, Decimal/math initial guess abstracted as a parameter): for any guess "
        "in the stated window the adjust loops end without tripping `assert num_iterations < 10000` and return the exact extremal "
        "value; the window hypothesis is checked on the real guess (exhaustively over the whole domain of calculate_largest_base "
        f"in the thorough tier; {ctx.corr.get('pow_base_guess_checked')} + {ctx.corr.get('pow_power_guess_checked')} cases this run). "
        "dense_table_refuted -- a vm_compute witness of 5 valid method ids on which the model of "
        "generate_dense_jumptable_info ends in RuntimeError; the model is tied by running the real function on the witness and on "
        f"{n_dense} id sets. Cited: push_total (C16). NOT proved: whole-compiler totality. EXPLORED: {n_items} source texts "
        f"({int(stats['compilations'])} compilations, 5 s limit, fresh worker processes): {int(stats['outcome:output'])} output, "
        f"{int(stats['outcome:user'])} user-facing diagnostics ({int(stats['user_with_location'])} with a source location, "
        f"{int(stats['user_without_location'])} without), {int(stats['outcome:INTERNAL'])} internal outcomes in "
        f"{len(ctx.corr.get('mut_distinct_internal', []))} distinct (exception, frame, message) classes; {int(stats['accepted_by_analysis'])} mutated texts accepted "
        f"by semantic analysis were compiled by the 4 back-end configurations (disagreements reported). VALID-PROGRAM part: {n_valid} programs "
        f"(corpus incl. multi-module, /repo/examples, ABI-type generator, statement-level feature generator), {int(vstats['accepted_by_analysis'])} accepted by "
        f"semantic analysis, each compiled by both pipelines at all 4 levels ({int(vstats['compilations'])} compilations): "
        f"{len(ctx.corr.get('valid_distinct_internal', []))} distinct failing classes.")
    ctx.extra["exploration_counts"] = {"mutation": {k: int(v) for k, v in stats.items() if ":" not in k or k.startswith("outcome:")},
                                       "valid": {k: int(v) for k, v in vstats.items() if ":" not in k or k.startswith("outcome:")}}
    ctx.trusted += ["Coq 8.16.1 kernel + vm_compute", "hand model coq/C20/DenseTable.v tied by differential each run",
                    "exception taxonomy of vyper/exceptions.py (VyperException = user-facing, VyperInternalException = internal)"]
    ctx.assumptions += ["5 s wall-time limit per compilation stands for 'unbounded time'"]
