"""C02: behaviour invariant under pipeline / level / flags / EVM target."""
import glob
import multiprocessing as mp
import os
import time

from vlib import c01_driver as D
from vlib import c01_harness as H
from vlib import c02_passorder as PO
from vlib import c02_runner as R
from vlib import coqrun
from vlib.common import COQ, REPO
from vlib.configs import configs

LEVEL = "proof"
META = {
    "category": "proof",
    "text": "(1) Theorem pass_pipeline_valid (Coq, exhaustive by vm_compute and lifted to every flag assignment): for each "
            "Venom optimisation level and every combination of --disable-* flags other than disable_simplify_cfg the filtered pass "
            "list satisfies the ordering constraints validate_pass_order enforces, so no such flag combination makes the compiler "
            "panic; the pass lists, PASS_FLAG_MAP and constraints are re-extracted from /repo on every run and the Coq validator "
            "is compared with the real _build_fn_pass_pipeline on every subset. The disable_simplify_cfg case is refuted "
            "(pass_pipeline_simplify_cfg_refuted) and replayed on the real compiler. (2) N-way differential: generated VyCore "
            "programs, a hand-written feature corpus and /repo/examples are compiled under every configuration (both pipelines, "
            "all levels, EVM targets, disable flags, debug) and must agree on status, return/revert data, ordered logs, final "
            "storage and balances. (3) Theorem rds_flow_sound / emitted_skeletons_target_independent (Coq): the returndata-flow "
            "skeletons regenerated on every run from the IR the legacy generator emits for pre-Cancun targets (corpus, dynamic-member "
            "family) never read the returndata buffer between a batch copy through the identity precompile and the next real call, "
            "so they cannot observe whether a copy is lowered to the precompile or to MCOPY; the refuted shape (bound recomputed after "
            "a copy) is unpack_inlined_refuted. (4) A structured family of contracts moving values with >= 2 dynamic members through "
            "interface calls / abi_decode / raw returndata runs under every (generator, EVM target) pair, and every corpus contract of "
            "a quick run does too. (5) Theorems handover_table_covers_reentry / read_after_handover_sound / "
            "store_before_handover_unobserved (Coq): the rows of the Venom effects table for call, delegatecall, staticcall, create, "
            "create2, re-extracted from vyper/venom/effects.py on every run, contain everything foreign code can write / read in "
            "the caller by re-entering it (a constructor is foreign code too), so a cell the table lets a pass carry across a "
            "hand-over is unchanged by any foreign code; create_without_storage_write_refuted is the counter-model. (6) A family "
            "crossing every hand-over builtin (16 forms) x caller state kind (storage, transient, balance) x 7 read/write shapes "
            "with a reactor / library / child constructor that re-enters the caller runs under both generators, all levels, "
            "flags and EVM targets. Partial: optimisation passes are not proved semantics preserving.",
    "level_note": "Trusted: Coq kernel + vm_compute; extraction of the pass tables by introspection of the imported modules; "
                  "pyrevm; the IR -> skeleton abstraction of tools/vlib/c02_rdsflow.py (evaluation order of compile_ir.py, labels "
                  "entered with an unknown buffer state); the re-entry footprint may_write/may_read of coq/C02/Handover.v (one cell per "
                  "effect kind; the specification of part 5). Behavioural invariance is established per program by the differential only.",
    "technique": "Coq finite exhaustive proof over regenerated pass tables + Coq-proved flow analysis over regenerated IR skeletons "
                 "+ N-way differential across compiler configurations",
}


# ---------------------------------------------------------------------------------------------- pass ordering
def part_pass_order(ctx):
    t0 = time.time()
    try:
        data = PO.extract()
        (COQ / "C02" / "GenPassOrder.v").write_text(PO.render(data))
    except Exception as e:
        ctx.violation("translator-rejected", f"cannot extract pass tables: {type(e).__name__}: {e}", {"error": str(e)})
        return 0
    real = PO.real_results(data)
    flags = data["flags"]
    # the known refuted case, replayed on the real implementation (reported before the proof so that it is never masked)
    bad_panics = {lvl: r[frozenset([PO.BAD_FLAG])] for lvl, r in real.items() if r.get(frozenset([PO.BAD_FLAG]))}
    if bad_panics:
        lvl, msg = sorted(bad_panics.items())[0]
        ctx.violation(
            "failing-input", "--venom disable_simplify_cfg makes every level fail its own pass-order validation (CompilerPanic)",
            {"call": f"vyper.venom._build_fn_pass_pipeline(VenomOptimizationFlags(level=OptimizationLevel.{lvl}, disable_simplify_cfg=True))",
             "cli": "vyper --experimental-codegen --disable-simplify-cfg any_contract.vy",
             "observed": msg, "levels_affected": sorted(bad_panics),
             "expected": "behaviour identical to the default configuration (C02), or a user-facing diagnostic",
             "coq": "C02/PropsC02.v: pass_pipeline_simplify_cfg_refuted"},
            key="C02:disable_simplify_cfg-panics")
    b = ctx.coq_build_cached(["C02/PassOrder.v", "C02/PassOrderProofs.v", "C02/GenPassOrder.v", "C02/PropsC02.v"])
    model_ok = (COQ / "C02" / "GenPassOrder.vo").exists() and (b["ok"] or "PropsC02" in b.get("file", ""))
    n = 0
    found = False
    # Search / tie: real implementation vs Coq validator on every subset of all flags, every level
    unexpected = []
    for lvl, r in real.items():
        for sub, msg in r.items():
            if msg is not None and PO.BAD_FLAG not in sub:
                unexpected.append((lvl, sorted(sub), msg))
    for lvl, sub, msg in unexpected[:3]:
        found = True
        ctx.violation("failing-input", f"flag combination {sub} makes the {lvl} pipeline panic",
                      {"call": f"vyper.venom._build_fn_pass_pipeline(VenomOptimizationFlags(level=OptimizationLevel.{lvl}, "
                               + ", ".join(f"{f}=True" for f in sub) + "))", "observed": msg,
                       "expected": "no exception (C02: every --disable flag combination is a supported configuration)"},
                      key=f"C02:pass-order:{lvl}:{'+'.join(sub)}")
    if model_ok:
        subs = PO.subsets_coq_order(flags)
        exprs = [f"map (fun s => if validate constraints (pipeline passes_{lvl} (fun f => mem f s)) then 1 else 0)%Z (subsets all_flags)"
                 for lvl in data["levels"]]
        outs = coqrun.eval_zlists("From Verif Require Import C02.PassOrder C02.GenPassOrder.\n", exprs, "c02po", shard=1)
        for lvl, o in zip(data["levels"], outs):
            if len(o) != len(subs):
                ctx.violation("correspondence-broken", "subset enumeration mismatch", {"coq": len(o), "py": len(subs)})
                break
            for s, v in zip(subs, o):
                n += 1
                rv = real[lvl][frozenset(s)]
                if (rv is None) != (v == 1) and not found:
                    found = True
                    ctx.violation("correspondence-broken", "Coq validate_pass_order model disagrees with the real function",
                                  {"level": lvl, "flags": s, "coq_valid": v == 1, "real": rv})
    if not b["ok"] and not found:
        ctx.violation("theorem-broken", f"{b.get('failed_lemma')} in {b['file']}",
                      {"theorem": b.get("failed_lemma"), "file": b["file"], "coq_output": b["out"][-1500:]})
    ctx.corr["pass_order"] = {"levels": {k: len(v) for k, v in data["levels"].items()}, "flags": flags,
                              "aliases": data["alias"], "subsets_compared": n,
                              "constraint_classes": [k for k, v in data["constraints"].items() if any(v)],
                              "note": "disable_inlining is not in PASS_FLAG_MAP (it gates the global inliner, not the per-function list)",
                              "seconds": round(time.time() - t0, 1)}
    return n


# ---------------------------------------------------------------------------------------------- N-way: generated programs
def group_observations(obs_by_cfg):
    """cfg name -> observation (hashable repr) ; returns list of groups [(repr, [names])]"""
    groups = {}
    for name, o in obs_by_cfg.items():
        groups.setdefault(repr(o), []).append(name)
    return sorted(groups.values(), key=lambda g: -len(g))


def split_class(groups):
    """how the configurations split: 'legacy-vs-venom' when all legacy configurations sit in one group and all venom
    configurations without disable flags in another; else the first configuration of the second group"""
    def where(pred):
        return {k for k, g in enumerate(groups) for n in g if pred(n)}
    leg = where(lambda n: n.startswith("legacy-"))
    ven = where(lambda n: n.startswith("venom-") and "-no_" not in n)
    if len(leg) == 1 and len(ven) == 1 and leg != ven:
        return "legacy-vs-venom"
    # a disable flag shared by every deviating configuration and absent from the majority group (tier independent)
    from vlib.configs import USABLE_FLAGS
    minority = [n for g in groups[1:] for n in g]
    for f in USABLE_FLAGS:
        tag = "-" + f.replace("disable_", "no_")
        if all((tag + "-") in (n + "-") for n in minority) and not any((tag + "-") in (n + "-") for n in groups[0]):
            return "flag:" + f
    # a pipeline+level shared by every deviating configuration and absent from the majority group
    def pl(n):
        return "-".join(n.split("-")[:2])
    pls = {pl(n) for n in minority}
    if len(pls) == 1 and not any(pl(n) in pls for n in groups[0]):
        return "level:" + sorted(pls)[0]
    return groups[1][0]


def split_class2(groups, prefer_era=False):
    """split_class, refined when it can only name the first deviating configuration: '<generator>:<era>' / 'evm:<era>' when
    every deviating configuration shares the code generator and/or the EVM era (pre-cancun: london, paris, shanghai) and no
    configuration of the majority group does (prefer_era: also when only some configurations of that kind deviate, e.g.
    because a level picks another copy primitive, and instead of a 'level:' class)"""
    cls = split_class(groups)
    if cls != groups[1][0] and not (prefer_era and cls.startswith("level:")):
        return cls

    def kind(n):
        parts = n.split("-")
        return parts[0], ("pre-cancun" if parts[2] in R.PRE_CANCUN else "cancun+")
    minority = {kind(n) for g in groups[1:] for n in g}
    major = {kind(n) for n in groups[0]}
    if len(minority) == 1 and (prefer_era or not (minority & major)):
        g, e = next(iter(minority))
        return f"{g}:{e}"
    if len({e for _, e in minority}) == 1 and not ({e for _, e in minority} & {e for _, e in major}):
        return "evm:" + next(iter(minority))[1]
    return cls


def canon_storage(prog, mfin, sto):
    """raw slots of every variable, restricted to what the source semantics determines (slots past the live length of a
    DynArray / Bytes and the tail of a partial last word hold stale data that may legitimately differ)"""
    out = []
    for (name, t), v in zip(prog.sto, mfin):
        exp = H.flat_slots(v, t)
        got = sto.get(name) or []     # None: immutable (no storage slot) / contract not deployed
        row = []
        for e, g in zip(exp, got):
            if e is None:
                row.append(None)
            elif isinstance(e, tuple):
                row.append(g.to_bytes(32, "big")[:len(e[1])].hex())
            else:
                row.append(g)
        out.append((name, tuple(row)))
    return out


def part_generated(ctx, cfgs):
    t0 = time.time()
    n = 12 if ctx.tier == "quick" else 100
    items, stats = D.generate(ctx, "c02gen", n, ncalls=6 if ctx.tier == "thorough" else 4,
                              nprobe=2 if ctx.tier == "quick" else 6)
    if ctx.tier != "quick":
        # 40 minute budget: a random program runs under 36 of the ~110 configurations (rotating; probe-only ones under all)
        D.sample_configs(items, cfgs, 36, salt=ctx.seed)
    obs = D.observe_all(items, cfgs, procs=4)
    n_cmp = 0
    reported = 0
    gen_keys = set()
    crashes = {}
    for i, it in enumerate(items):
        per = {}
        for j, cfg in enumerate(cfgs):
            if not D.cfg_applicable(it["prog"], cfg) or (i, j) not in obs:
                continue
            st, o = obs[(i, j)]
            if st == "exc":
                if o[0] not in D.BENIGN_REJECT:
                    crashes.setdefault(o[0], []).append((i, cfg, o[1], o[2] if len(o) > 2 else ""))
                continue
            res, sto = o
            per[cfg.name] = ([(ok, out.hex(), tuple((tuple(x.hex() for x in t), d.hex()) for t, d in logs)) for ok, out, logs in res],
                             canon_storage(it["prog"], it["model"][1], sto),
                             [(n_, e_ if not isinstance(e_, tuple) else e_[1].hex(), g_ if not isinstance(e_, tuple) else g_.to_bytes(32, "big")[:len(e_[1])].hex())
                              for n_, _s, e_, g_ in sto.get("$maps", [])])
            n_cmp += len(res)
        groups = group_observations(per)
        if len(groups) > 1 and reported < 2:
            reported += 1
            a, bname = groups[0][0], groups[1][0]
            names = [c.name for c in cfgs]
            ja, jb = names.index(a), names.index(bname)
            da = H.compare(it["prog"], it["calls"], it["model"], obs[(i, ja)][1])
            db = H.compare(it["prog"], it["calls"], it["model"], obs[(i, jb)][1])
            prog, calls = it["prog"], it["calls"]
            key = f"C02:gen:{split_class(groups)}"
            shapes = []
            # the reference semantics says which side is wrong: shrink against it and classify the shape (same keys as C01)
            wrong = (cfgs[jb], db) if db is not None else ((cfgs[ja], da) if da is not None else None)
            if wrong is not None:
                try:
                    from vlib.c01_shrink import shrink
                    from checks.c01 import order_tags
                    sp, sc, sd = shrink(prog, calls, wrong[0], wrong[1]["what"], budget_s=25 if ctx.tier == "quick" else 120)
                    if sd is not None:
                        prog, calls = sp, sc
                        shapes = sorted(order_tags(sp))
                        if len(shapes) == 1 and len(sp.exts) <= 2:
                            key = f"C02:gen:{'venom' if wrong[0].venom else 'legacy'}:{shapes[0]}"
                except Exception as e:
                    ctx.log(f"shrink failed: {type(e).__name__}: {e}")
            if key in gen_keys:
                continue
            gen_keys.add(key)
            ctx.violation("failing-input", f"configurations disagree on a generated program: {groups[0][:3]} vs {groups[1][:3]}",
                          {"source": prog.vy(prune=True), "groups": groups, "shapes": shapes,
                           "calls": [{"function": H.fun_of(prog, c).abi_sig(), "calldata": H.calldata(H.fun_of(prog, c), c).hex(),
                                      "sender": c.sender, "value": c.value} for c in calls],
                           "vs_source_semantics": {a: da, bname: db}},
                          key=key)
    for exc, lst in crashes.items():
        i, cfg, msg, site = lst[0]
        prog = items[i]["prog"]
        try:   # shrink the crashing program (statement / expression deletion) while the same exception type persists
            from vlib.c01_shrink import shrink_pred
            from vlib.configs import compile_src
            ncfg, _why = narrow_crash(exc, cfg, prog.vy())

            def still(p):
                try:
                    compile_src(p.vy(), ncfg, formats=("bytecode",))
                    return False
                except Exception as e:
                    return type(e).__name__ == exc
            prog = shrink_pred(prog, still, budget_s=30 if ctx.tier == "quick" else 90)
        except Exception as e:
            ctx.log(f"crash shrinking failed: {e}")
        report_crash(ctx, exc, cfg, msg, prog.vy(prune=True), len(lst), site)
    ctx.corr["generated"] = {"programs": len(items), "calls_compared": n_cmp, "revert": D.revert_stats(items),
                             "config_dependent_crashes": {k: len(v) for k, v in crashes.items()},
                             "seconds": round(time.time() - t0, 1)}
    return n_cmp


def narrow_crash(exc, cfg, src):
    """smallest sub-configuration (single flag / no flag, same level) that still raises the same exception type"""
    from vlib.configs import Config, compile_src

    def crashes(c):
        try:
            compile_src(src, c, formats=("bytecode",))
            return False
        except Exception as e:
            return type(e).__name__ == exc
    base = Config(cfg.venom, cfg.level, "prague" if cfg.evm not in R.PRE_CANCUN else cfg.evm)
    if crashes(base):
        return base, "no-flags"
    for f in cfg.flags:
        c = Config(cfg.venom, cfg.level, base.evm, flags=[f])
        if crashes(c):
            return c, f
    if cfg.inline_threshold is not None:
        c = Config(cfg.venom, cfg.level, base.evm, inline_threshold=cfg.inline_threshold)
        if crashes(c):
            return c, f"inline_threshold={cfg.inline_threshold}"
    return cfg, "+".join(cfg.flags) or cfg.name


_REPORTED = set()


def report_crash(ctx, exc, cfg, msg, src, count, site=""):
    """a program accepted by the reference configuration that crashes the compiler under another configuration"""
    sig = (exc, (msg.strip().splitlines() or [""])[0][:60], cfg.evm if exc == "TargetOpcodeError" else "+".join(cfg.flags))
    if sig in _REPORTED:
        return
    _REPORTED.add(sig)
    import re as _re
    first_line = _re.sub(r"\d+", "N", _re.sub(r"\s+", " ", (msg.strip().splitlines() or [""])[0]))[:70].strip()
    if exc == "TargetOpcodeError":
        ctx.violation("failing-input", f"{msg} under {cfg.name}",
                      {"config": cfg.name, "settings": str(cfg.settings()), "message": msg, "source": src,
                       "how": "compile with output formats asm, asm_runtime and look for the opcode",
                       "expected": "only opcodes that exist on the selected EVM target (C02: every EVM target is a supported configuration)"},
                      key=f"C02:target-opcode:{msg.split()[1]}:{cfg.evm}")
        return
    try:
        cfg, why = narrow_crash(exc, cfg, src)
    except Exception:
        why = "+".join(cfg.flags) or cfg.name
    raw_first = (msg.strip().splitlines() or [""])[0]
    if _re.search(r"[%\d]", raw_first) and site:
        # the message carries SSA names / numbers: key by the raise site instead
        key = f"C02:crash:{exc}:{why}:{site}"
    else:
        key = f"C02:crash:{exc}:{why}:{first_line}"
    if exc == "AssertionError" and why == "disable_sccp":
        key = "C02:disable_sccp-branch-optimization-assert"
    ctx.violation("failing-input", f"{exc} while compiling under {cfg.name} a program the default configuration accepts",
                  {"config": cfg.name, "settings": str(cfg.settings()), "exception": exc, "message": msg, "source": src,
                   "occurrences_this_run": count,
                   "expected": "same observable behaviour as under the default configuration (C02)"}, key=key)


# ---------------------------------------------------------------------------------------------- N-way: effect-order matrix
def part_matrix(ctx, cfgs):
    """the C08 position x effect matrix, compared configuration-against-configuration (no oracle)"""
    from vlib.c08_gen import Builder, build_one, build_group, RVE_POSITIONS, uses_tra
    from vlib.configs import Config, compile_src
    t0 = time.time()
    mk = lambda salt: ctx.rng("matrix:" + salt)
    ref = [Config(False, "gas", "prague"), Config(True, "gas", "prague")]
    # read-vs-effect part of the matrix (left operand reads state the right operand's call changes): one sixth of it per
    # seed in the quick tier (C08 runs a third against the oracle), all of it in the thorough tier
    nr = len(Builder.RVE_READS)
    rve = [q for k, q in enumerate(RVE_POSITIONS) if ctx.tier != "quick" or (k // nr + k % nr + ctx.seed) % 6 == 0]
    accepted = {False: [], True: []}
    for pos in list(Builder.POSITIONS) + rve + list(Builder.RVE_CPLX):
        src = build_one(mk, pos, 0).p.vy(prune=True)
        try:
            for c in ref:
                compile_src(src, c, formats=("bytecode",))
            accepted[uses_tra(pos)].append((pos, 0))
        except Exception:
            pass
    items = []
    for tra in (False, True):
        acc = accepted[tra]
        for k in range(0, len(acc), 10):
            p, unordered, labels = build_group(mk, acc[k:k + 10])
            items.append({"prog": p, "calls": [H.Call(i, [], value=p.c08_values.get(i, 0)) for i in range(len(p.exts))],
                          "labels": labels, "unordered": {i for i, u in unordered.items() if u}, "group": acc[k:k + 10],
                          "applicable": (lambda c, p=p: D.cfg_applicable(p, c))})
    obs = D.observe_all(items, cfgs, procs=4)
    n_cmp = 0
    seen = {}
    for i, it in enumerate(items):
        per = {}
        for j, cfg in enumerate(cfgs):
            if (i, j) not in obs:
                continue
            st, o = obs[(i, j)]
            if st == "exc":
                continue   # crashes are reported by part_generated / part_corpus
            res, sto = o
            canon = []
            for ci, (ok, out, logs) in enumerate(res):
                lg = [(tuple(x.hex() for x in t), d.hex()) for t, d in logs]
                if ci in it["unordered"]:
                    lg = sorted(lg)
                canon.append((ok, out.hex(), tuple(lg)))
            per[cfg.name] = canon
            n_cmp += len(res)
        names = sorted(per)
        if not names:
            continue
        base = per[[c.name for c in cfgs if c.name in per][0]]
        # per test function: which configurations differ from the first configuration
        for ci, lab in enumerate(it["labels"]):
            differing = [n for n in names if per[n][ci] != base[ci]]
            if not differing:
                continue
            cls = lab.split("_", 1)[1]
            cls = "compare-operands" if (cls.startswith("cmp_") or cls == "if_cond") else \
                  "bitwise-operands" if cls in ("binop_BOr", "binop_BAnd", "binop_BXor") else \
                  "augassign-bitwise-value-order" if cls in ("aug_scalar_BXor", "aug_scalar_BOr", "aug_scalar_BAnd") else \
                  "augassign-value-order" if cls.startswith("aug_scalar") else \
                  ("read-vs-effect:" + cls[4:].rsplit("_", 1)[0]) if cls.startswith("rve_") else cls
            key = f"C02:matrix:{cls}"
            if key in seen:
                seen[key] += 1
                continue
            seen[key] = 1
            if len([k for k in seen if not ctx.is_known(k)]) > 6:
                continue    # enough distinct unknown disagreements reported; the rest are counted in the evidence
            pos, rnd = it["group"][ci]
            single = build_one(mk, pos, rnd).p
            agree = [n for n in names if n not in differing]
            ctx.violation("failing-input", f"configurations disagree on {lab}: {agree[:2]} vs {differing[:2]}",
                          {"source": single.vy(prune=True), "call": single.exts[0].abi_sig(),
                           "configs_a": agree, "configs_b": differing,
                           "observed_a": str(base[ci])[:700], "observed_b": str(per[differing[0]][ci])[:700],
                           "note": "observed inside the bundled matrix program (same test function, state from earlier tests may differ "
                                   "from the isolated source shown)"},
                          key=key)
    ctx.corr["matrix"] = {"test_functions": sum(len(it["labels"]) for it in items), "calls_compared": n_cmp,
                          "distinct_disagreements": seen, "seconds": round(time.time() - t0, 1)}
    return n_cmp


# ---------------------------------------------------------------------------------------------- N-way: corpus and examples
_JOBS = None


def _corpus_one(args):
    k, j = args
    job, cfg = _JOBS["jobs"][k], _JOBS["cfgs"][j]
    try:
        return (k, j, "ok", R.observe_contract(job["src"], cfg, job["plan"], job["helper"], job["abi"]))
    except Exception as e:
        return (k, j, "exc", (type(e).__name__, str(e)[:300], D.raise_site(e)))


# minimized past failures (run with the corpus, first)
REGRESS = [
    ("regress/disable_sccp_literal_jnz", """
@external
def f(x: uint256) -> uint256:
    if True:
        return x
    return 0

@external
def g(x: uint256) -> bool:
    return True and x > 1
"""),
    ("regress/call_arg_read_vs_effect", """
arr: uint256[4]

@internal
def wr() -> uint256:
    self.arr[1] = 55
    return 1

@internal
def h(a: uint256, b: uint256) -> uint256:
    return a * 10 + b

@external
def t() -> uint256:
    self.arr[1] = 8
    return self.h(self.arr[1], self.wr())
"""),
    ("regress/disable_branch_optimization_stack_reorder", """
t0: bool

@external
def f0(a0: uint256, a2: bool) -> int256:
    if self.t0:
        self.t0 = a2
    assert (self.t0 or (not (self.t0 and (not self.t0))))
    assert (a2 and self.t0)
    return (convert(a0, int256) ^ 1)
"""),
    ("regress/venom_loop_store_forwarding", """
s1: uint256
s2: int256

@external
def f1(a1: uint256) -> uint256:
    self.s1 = a1
    for v0: uint8 in range(2):
        self.s1 += a1
    return self.s1

@external
def f2(a1: int256) -> int256:
    self.s2 = a1
    for v0: uint8 in range(3):
        self.s2 = (-self.s2) - a1
    return self.s2
"""),
    ("regress/disable_load_elimination_dse_valueerror", """
struct St0:
    m0: uint256
    m1: bool

@external
def f2(a0: uint256) -> uint256:
    v0: St0 = St0(m0=(a0 + a0), m1=(a0 == a0))
    v1: uint256 = min((a0 // 2), v0.m0)
    return 4
"""),
    ("regress/disable_remove_unused_variables_param_write", """
s1: bool
s2: HashMap[address, uint64]
last: public(uint64)

@internal
def g1(a0: uint8, a1: uint256) -> bool:
    if (False if convert(a1, bool) else False):
        a1 = 0
    return False

@external
def f1() -> int16:
    self.g1(23, 1)
    return 0

@external
@payable
def f2() -> int8:
    v0: uint256 = msg.value
    if (False if self.s1 else self.g1(127, v0)):
        pass
    self.s2[0x1111111111111111111111111111111111111111] += (convert(v0, uint64) % 9223372036854775808)
    self.last = self.s2[0x1111111111111111111111111111111111111111]
    return 2
"""),
    ("regress/disable_remove_unused_variables_loop_skipped", """
struct St0:
    m0: bool
    m1: uint256

event Ev0:
    x: uint256

s0: uint256
s1: int64

@internal
def g2() -> bool:
    v0: bool[3] = [False, False, False]
    for v3: bool in v0:
        self.s1 *= (0 if v3 else 0)
    return (0 <= self.s0)

@external
def f0() -> uint256:
    v0: St0[3] = [St0(m0=True, m1=7), St0(m0=False, m1=1), St0(m0=True, m1=41669521475666545528433312542849488504446431018635365436075337482266487065117)]
    self.s0 = v0[2].m1
    self.g2()
    for v1: uint256 in range((self.s0 % 6), bound=5):
        log Ev0(x=v1)
    assert self.g2()
    return self.s0 % 6
"""),
    ("regress/venom_loop_load_forwarding", """
s1: uint64

@external
def f0() -> uint64:
    v2: uint64 = self.s1
    for v1: uint256 in range(3):
        self.s1 ^= 1
    self.s1 *= v2
    return self.s1
"""),
    ("regress/disable_load_elimination+disable_remove_unused_variables_dead_offset", """
struct St0:
    m1: uint256
    m2: int8

s0: St0
s1: immutable(int40)

@deploy
def __init__():
    self.s1 = 1

@external
def f0() -> int40:
    if (self.s1 > self.s1):
        pass
    v2: St0 = self.s0
    return 0
"""),
    ("regress/default_empty_bucket", """
event Fell:
    x: uint256

@external
def f0() -> uint256:
    return 0

@external
def f1() -> uint256:
    return 1

@external
def f2() -> uint256:
    return 2

@external
def f3() -> uint256:
    return 3

@external
def __default__():
    x: uint256 = 0
    if len(msg.data) >= 4:
        x = 1
    log Fell(x=x)
"""),
]


# feature families of the corpus (quick tier: at least one contract of every family runs, under every (generator, EVM target) pair)
FAMILY = {
    "bytestrings": ("bytes_ops", "string_ops", "bytesm_ops"),
    "mappings-structs": ("hashmaps", "structs", "dynarray_structs"),
    "arrays-tuples-loops": ("arrays", "tuples", "loops"),
    "external-calls": ("iface_calls", "raw_calls", "callback_storage", "callback_transient", "nonreentrant"),
    "create-ether": ("create_ops", "ether"),
    "abi-events-defaults": ("abi_codec", "default_args", "events"),
    "arithmetic-conversion": ("math_ops", "converts", "decimals", "flags", "range_narrowing"),
    "environment-immutables": ("immutables", "crypto", "environment", "transient"),
    "control-internal": ("asserts", "internal_many"),
    "selectors": ("fallback_selectors", "fallback_zero_selectors", "zero_selectors_no_default"),
}


def family_of(name):
    n = name.split("/", 1)[-1]
    for fam, members in FAMILY.items():
        if n in members:
            return fam
    return "other:" + n


def load_corpus(ctx):
    jobs = []
    for name, src in REGRESS:
        jobs.append({"name": name, "src": src, "helper": None, "min_evm": None, "regress": True})
    try:
        from vlib import c02_corpus
        for ent in c02_corpus.CORPUS:
            jobs.append({"name": "corpus/" + ent["name"], "src": ent["src"], "helper": c02_corpus.HELPER, "min_evm": ent.get("min_evm")})
    except ImportError:
        ctx.corr["corpus_missing"] = True
    for f in sorted(glob.glob(str(REPO / "examples" / "**" / "*.vy"), recursive=True)):
        try:
            src = open(f).read()
        except OSError:
            continue
        # the snapshot reports version 0.1, so the examples' version pragmas reject it; the pragma is not a language feature
        src = "\n".join(l for l in src.splitlines() if not (l.startswith("#pragma version") or l.startswith("# @version") or l.startswith("# pragma version")))
        jobs.append({"name": "examples/" + os.path.relpath(f, str(REPO / "examples")), "src": src, "helper": None, "min_evm": None})
    return jobs


def part_corpus(ctx, cfgs):
    global _JOBS
    t0 = time.time()
    jobs = load_corpus(ctx)
    ncalls = 8 if ctx.tier == "quick" else 40
    usable = []
    skipped = {}
    if ctx.tier == "quick":
        import zlib
        always = ("regress/", "corpus/range_narrowing", "corpus/callback_storage", "corpus/callback_transient", "corpus/fallback_selectors",
                  "corpus/fallback_zero_selectors", "corpus/zero_selectors_no_default")
        keep = []
        for job in jobs:
            h = zlib.crc32((job["name"] + ":" + str(ctx.seed)).encode())
            if job["name"].startswith(always) or (job["name"].startswith("examples/") and h % 3 == 0) or \
                    (job["name"].startswith("corpus/") and h % 2 == 0):
                keep.append(job)
        # every feature family keeps at least one contract (the first of the family by the seeded hash)
        have = {family_of(j["name"]) for j in keep if j["name"].startswith("corpus/")}
        for job in sorted((j for j in jobs if j["name"].startswith("corpus/") and j not in keep),
                          key=lambda j: zlib.crc32((j["name"] + "#" + str(ctx.seed)).encode())):
            if family_of(job["name"]) not in have:
                have.add(family_of(job["name"]))
                keep.append(job)
        ctx.corr["corpus_sampled_out_this_seed"] = [j["name"] for j in jobs if j not in keep]
        jobs = keep
    for job in jobs:
        try:
            # contracts whose behaviour is decided by argument relations get more calls
            dense = job["name"] in ("corpus/range_narrowing", "corpus/callback_storage", "corpus/callback_transient")
            plan, abi = R.make_plan(job["src"], job["helper"], ctx.rng("plan:" + job["name"]), ncalls * (4 if dense else 1))
        except Exception as e:
            skipped[job["name"]] = type(e).__name__
            continue
        if plan is None:
            skipped[job["name"]] = "deployment reverts"
            continue
        job["plan"] = plan
        job["abi"] = abi
        usable.append(job)
    # minimized past failures additionally run under every single disable flag (they are tiny)
    from vlib.configs import Config, USABLE_FLAGS
    n_base = len(cfgs)
    cfgs = list(cfgs) + [Config(True, "gas", "cancun", flags=[f]) for f in USABLE_FLAGS]
    # a regression that needs a COMBINATION of flags names all of them: it also runs under exactly that combination
    for job in usable:
        named = [f for f in USABLE_FLAGS if f in job["name"]]
        if job.get("regress") and len(named) >= 2 and not any(sorted(c.flags) == sorted(named) for c in cfgs):
            cfgs.append(Config(True, "gas", "cancun", flags=named))
    # (feature, code generator, EVM target) cover: in the quick tier every corpus contract of this run also runs under one
    # configuration for EVERY (generator, EVM target) pair its rotating configurations do not already hit (level sampled per
    # contract and seed), so a change that shows only for one generator on some targets is seen by the feature that uses it
    n_cover0 = len(cfgs)
    from vlib.configs import EVMS
    cover_levels = {False: ["none", "gas", "codesize"], True: ["none", "gas", "codesize", "O3"]}
    cfgs += [Config(v, lvl, evm) for v in (False, True) for evm in EVMS for lvl in cover_levels[v]]
    _JOBS = {"jobs": usable, "cfgs": cfgs}
    # quick tier: the (large) example contracts run under four most-different configurations only, the corpus under seven
    # quick tier: every corpus contract runs under the two default pipelines plus three rotating configurations; the example
    # contracts under the two default pipelines plus one rotating configuration (thorough: everything)
    base_names = ["legacy-gas-prague", "venom-gas-prague"]
    rot = [c.name for c in cfgs[:n_base] if c.name not in base_names]

    def quick_set(job, extra):
        import zlib
        h = zlib.crc32((job["name"] + str(ctx.seed)).encode())
        return set(base_names) | {rot[(h + k * 3) % len(rot)] for k in range(extra)}

    _cover_cache = {}

    def cover_for(job):
        """names of the extra configurations that complete the (generator, EVM target) pairs for a corpus contract"""
        if job["name"] in _cover_cache:
            return _cover_cache[job["name"]]
        import zlib
        res = set()
        if ctx.tier == "quick" and job["name"].startswith("corpus/"):
            if "selectors" in job["name"]:
                mine = [c for c in cfgs[:n_base]]
            else:
                qs = quick_set(job, 2)
                mine = [c for c in cfgs[:n_base] if c.name in qs]
            have = {(c.venom, c.evm) for c in mine}
            for v in (False, True):
                for evm in EVMS:
                    if (v, evm) in have or (job["min_evm"] == "cancun" and evm in R.PRE_CANCUN):
                        continue
                    lv = cover_levels[v]
                    h = zlib.crc32(f"{job['name']}:{v}:{evm}:{ctx.seed}".encode())
                    res.add(Config(v, lv[h % len(lv)], evm).name)
        _cover_cache[job["name"]] = res
        return res

    def wanted(job, j, cfg):
        if job["min_evm"] == "cancun" and cfg.evm in R.PRE_CANCUN:
            return False
        if j >= n_cover0:
            return cfg.name in cover_for(job)
        if j >= n_base:
            if not job.get("regress"):
                return False
            # thorough: every single flag; quick: only the flags the regression is about (named in it)
            return ctx.tier != "quick" or any(f.replace("disable_", "") in job["name"] for f in cfg.flags)
        if job.get("regress"):
            return True
        if ctx.tier == "quick":
            if "selectors" in job["name"]:
                return True       # dispatch tables differ per level/pipeline: the (small) selector contracts run everywhere
            return cfg.name in quick_set(job, 1 if job["name"].startswith("examples/") else 2)
        if job["name"].startswith("examples/"):       # thorough: the (large) examples under 40 rotating configurations
            import zlib
            h = zlib.crc32((job["name"] + str(ctx.seed)).encode())
            return cfg.name in base_names or (j + h) % max(1, n_base // 40) == 0
        return True
    work = [(k, j) for k, job in enumerate(usable) for j, cfg in enumerate(cfgs) if wanted(job, j, cfg)]
    out = {}
    with mp.get_context("fork").Pool(6 if ctx.tier == "quick" else 4) as pool:     # quick: the (generator, EVM) cover adds ~60% work
        for k, j, st, o in pool.imap_unordered(_corpus_one, work, chunksize=2):
            out[(k, j)] = (st, o)
    n_cmp = 0
    ok_calls = 0
    reported = 0
    crashes = {}
    for k, job in enumerate(usable):
        per = {}
        for j, cfg in enumerate(cfgs):
            if (k, j) not in out:
                continue
            st, o = out[(k, j)]
            if st == "exc":
                if o[0] not in D.BENIGN_REJECT:
                    crashes.setdefault((o[0], "+".join(cfg.flags)), []).append((k, cfg, o[1], o[2] if len(o) > 2 else ""))
                continue
            per[cfg.name] = o
            n_cmp += len(o["results"])
            ok_calls += sum(1 for r in o["results"] if r[0])
        names = sorted(per)
        groups = group_observations({n: (per[n]["deployed"], per[n]["results"], per[n]["state"]) for n in names})
        if len(groups) > 1 and reported < 3:
            reported += 1
            a, b = groups[0][0], groups[1][0]
            diff = R.first_difference(per[a], per[b])
            ctx.violation("failing-input", f"configurations disagree on {job['name']}: {groups[0][:2]} vs {groups[1][:2]}",
                          {"contract": job["name"], "source": job["src"], "groups": groups, "first_difference": {"a": a, "b": b, **(diff or {})},
                           "calls": [{"function": c["name"], "calldata": c["data"].hex(), "value": c["value"], "sender": c["sender"],
                                      "args": c.get("args")} for c in job["plan"]],
                           "helper_deployed_first": job["helper"] is not None},
                          key=f"C02:{job['name']}:{split_class2(groups)}")
    for (exc, fl), lst in crashes.items():
        k, cfg, msg, site = lst[0]
        report_crash(ctx, exc, cfg, msg, usable[k]["src"], len(lst), site)
    # measured (feature, generator, EVM target) coverage of this run: observations that compiled, deployed and were compared
    trip = {}
    for (k, j), (st, o) in out.items():
        if st == "ok" and usable[k]["name"].startswith("corpus/"):
            trip.setdefault(usable[k]["name"], set()).add(("venom" if cfgs[j].venom else "legacy", cfgs[j].evm))
    want_pairs = lambda job: 4 if job["min_evm"] == "cancun" else 10
    short = {n: sorted(f"{g}-{e}" for g in ("legacy", "venom") for e in EVMS if (g, e) not in ps
                       and not (e in R.PRE_CANCUN and any(jb["name"] == n and jb["min_evm"] == "cancun" for jb in usable)))
             for n, ps in trip.items()}
    ctx.corr["corpus"] = {"contracts": [j["name"] for j in usable], "skipped": skipped, "calls_compared": n_cmp,
                          "successful_calls": ok_calls, "seconds": round(time.time() - t0, 1),
                          "family_generator_evm_triples": {
                              "families": sorted({family_of(n) for n in trip}),
                              "families_in_corpus": sorted({family_of("corpus/" + m) for ms in FAMILY.values() for m in ms}),
                              "triples_observed": len({(family_of(n), g, e) for n, ps in trip.items() for g, e in ps}),
                              "triples_possible": 10 * len({family_of(n) for n in trip})},
                          "feature_generator_evm_triples": {
                              "features": len(trip), "triples_observed": sum(len(v) for v in trip.values()),
                              "triples_possible": sum(want_pairs(jb) for jb in usable if jb["name"] in trip),
                              "missing": {n: m for n, m in short.items() if m},
                              "rule": "one triple per (corpus contract of this run, code generator, EVM target) with at least one "
                                      "configuration that compiled, deployed and took part in the comparison"}}
    return n_cmp


# ---------------------------------------------------------------------------------------------- N-way: dynamic ABI members
_DJOBS = None


def _dyn_one(args):
    k, j = args
    job, cfg = _DJOBS["jobs"][k], _DJOBS["cfgs"][j]
    try:
        from vlib import c02_dynret as Y
        return (k, j, "ok", Y.observe(job["callee"], job["caller"], cfg, job["plan"]))
    except Exception as e:
        return (k, j, "exc", (type(e).__name__, str(e)[:300], D.raise_site(e)))


def dynret_shapes(ctx, rd):
    """shapes of round rd -> (rng positioned after the draw, shapes, shapes per program)"""
    from vlib import c02_dynret as Y
    rng = ctx.rng(f"dynret:{rd}")
    shapes = Y.shape_classes(rng, f"r{rd}")
    if ctx.tier == "quick":
        # the four classes with >= 2 dynamic members behind one outgoing call always; two of the others per seed
        rest = shapes[4:]
        rng.shuffle(rest)
        shapes = [shapes[0], shapes[1], rest[0], shapes[2], shapes[3], rest[1]]
    return rng, shapes, (3 if ctx.tier == "quick" else 4)


def part_dynret(ctx, cfgs):
    """values with several dynamically sized members crossing the ABI boundary (interface calls, abi_decode, encode/decode
    round trips, raw returndata of a mirror callee; well-formed boundary-biased values and damaged encodings), under EVERY
    (code generator, EVM target) pair: the copy primitives differ per target (MCOPY from cancun, identity precompile
    before, word loops for small members) and per generator, the decoded value must not"""
    global _DJOBS
    from vlib import c02_dynret as Y
    from vlib.configs import Config, EVMS
    t0 = time.time()
    rounds = 1 if ctx.tier == "quick" else 4
    jobs = []
    a_callee, a_mirror, _a_caller = Y.addresses()
    for rd in range(rounds):
        rng, shapes, per = dynret_shapes(ctx, rd)
        for k in range(0, len(shapes), per):
            sh = shapes[k:k + per]
            callee, caller, table = Y.build_program(sh)
            plan = Y.make_plan(sh, table, rng, a_callee, a_mirror, 2 if ctx.tier == "quick" else 6)
            jobs.append({"name": f"dynret/{rd}.{k // per}", "shapes": sh, "callee": callee, "caller": caller, "plan": plan, "table": table})
    levels = {False: ["none", "gas", "codesize"], True: ["none", "gas", "codesize", "O3"]}
    dcfgs = [Config(v, lvl, evm) for v in (False, True) for evm in EVMS for lvl in levels[v]]
    names = [c.name for c in dcfgs]
    work = []
    for k, job in enumerate(jobs):
        rng = ctx.rng("dynret-cfg:" + job["name"])
        for v in (False, True):
            for evm in EVMS:
                lv = levels[v] if ctx.tier != "quick" else [rng.choice(levels[v])]
                work += [(k, names.index(Config(v, lvl, evm).name)) for lvl in lv]
    _DJOBS = {"jobs": jobs, "cfgs": dcfgs}
    out = {}
    with mp.get_context("fork").Pool(6) as pool:
        # the callees once per EVM target (reference generator), handed to the workers of the second pool by fork
        for key, code in pool.imap_unordered(Y.compile_callee, [(job["callee"], evm) for job in jobs for evm in EVMS]):
            Y._callee_cache[key] = code
    with mp.get_context("fork").Pool(6) as pool:
        for k, j, st, o in pool.imap_unordered(_dyn_one, work, chunksize=1):
            out[(k, j)] = (st, o)
    n_cmp = ok_calls = halts = 0
    stats = {}
    pairs = {}
    crashes = {}
    reported = set()
    for k, job in enumerate(jobs):
        per = {}
        for j, cfg in enumerate(dcfgs):
            if (k, j) not in out:
                continue
            st, o = out[(k, j)]
            if st == "exc":
                if o[0] not in D.BENIGN_REJECT:
                    crashes.setdefault(o[0], []).append((k, cfg, o[1], o[2] if len(o) > 2 else ""))
                continue
            # a failed call is a failed call: an exceptional halt (e.g. out of gas on a read at an absurd offset of a damaged
            # encoding) and a REVERT with the same (empty) data differ in the gas consumed only, which is not an observable
            # of this property; counted, not compared
            halts += sum(1 for r in o["results"] if not r[0] and r[2])
            o = {**o, "results": [r if r[0] else (r[0], r[1], ()) for r in o["results"]]}
            per[cfg.name] = o
            n_cmp += len(o["results"])
            for c, r in zip(job["plan"], o["results"]):
                if c["name"] == "n":
                    continue
                i = int("".join(ch for ch in c["name"] if ch.isdigit()))
                kind = c["name"].rstrip("0123456789") + ("/damaged" if "/mutated" in c["args"] else "")
                e = stats.setdefault(job["shapes"][i].cls, {}).setdefault(kind, [0, 0])
                e[0 if r[0] else 1] += 1
                ok_calls += 1 if r[0] else 0
                if r[0]:
                    pairs.setdefault(job["shapes"][i].cls, set()).add(("venom" if cfg.venom else "legacy", cfg.evm))
        groups = group_observations({n: (per[n]["deployed"], per[n]["results"], per[n]["state"]) for n in sorted(per)})
        if len(groups) <= 1:
            continue
        a, b = groups[0][0], groups[1][0]
        diff = R.first_difference(per[a], per[b]) or {}
        call = job["plan"][diff["call"]] if "call" in diff else None
        cls = "state"
        calls = job["plan"]
        if call is not None and call["name"] != "n":
            i = int("".join(ch for ch in call["name"] if ch.isdigit()))
            cls = job["shapes"][i].cls + "/" + call["name"].rstrip("0123456789")
            # minimise: the differing call alone (the contracts keep no state that a decoder reads)
            try:
                ra = Y.observe(job["callee"], job["caller"], parse_cfg_name(a), [call])
                rb = Y.observe(job["callee"], job["caller"], parse_cfg_name(b), [call])
                if [x[:2] for x in ra["results"]] != [x[:2] for x in rb["results"]]:
                    calls = [call]
                    diff = {**diff, "call": 0, "a": ra["results"][0][0], "b": rb["results"][0][0],
                            "a_out": ra["results"][0][1][:400], "b_out": rb["results"][0][1][:400]}
            except Exception as e:
                ctx.log(f"dynret minimisation failed: {type(e).__name__}: {e}")
        key = f"C02:dynret:{cls}:{split_class2(groups, prefer_era=True)}"
        if key in reported or len(reported) >= 3:
            continue
        reported.add(key)
        ctx.violation("failing-input", f"configurations disagree on {job['name']} ({cls}): {groups[0][:2]} vs {groups[1][:2]}",
                      {"family": "dynret", "source": job["caller"], "callee_source": job["callee"],
                       "mirror_runtime_code": Y.MIRROR_CODE.hex(), "groups": groups, "first_difference": {"a": a, "b": b, **diff},
                       "calls": [{"function": c["name"], "calldata": c["data"].hex(), "value": c["value"], "sender": c["sender"],
                                  "args": c.get("args")} for c in calls],
                       "how": "deploy callee_source (compiled legacy -O gas for the same EVM target), the mirror code, then source "
                              "(in this order, from the deployer 0x11..11); send the calls to the third contract",
                       "expected": "the same status, return data and final storage under every configuration (C02)"},
                      key=key)
    for exc, lst in crashes.items():
        k, cfg, msg, site = lst[0]
        report_crash(ctx, exc, cfg, msg, jobs[k]["caller"], len(lst), site)
    want = {"legacy", "venom"}
    ctx.corr["dynret"] = {"programs": len(jobs), "configurations_run": len(work), "calls_compared": n_cmp, "successful_calls": ok_calls,
                          "per_shape_class": {c: {k2: {"ok": v[0], "revert": v[1]} for k2, v in d.items()} for c, d in stats.items()},
                          "generator_evm_pairs_with_successful_calls": {c: len(p) for c, p in pairs.items()},
                          "pairs_possible": 2 * len(EVMS), "failed_calls_ending_in_exceptional_halt_not_revert": halts,
                          "seconds": round(time.time() - t0, 1)}
    return n_cmp


# ---------------------------------------------------------------------------------------------- N-way: hand-over x re-entry
_HJOBS = None


def _ho_one(args):
    k, j = args
    job, cfg = _HJOBS["jobs"][k], _HJOBS["cfgs"][j]
    try:
        from vlib import c02_handover as HO
        return (k, j, "ok", HO.observe(job["src"], cfg, job["plan"], job["tra"]))
    except Exception as e:
        return (k, j, "exc", (type(e).__name__, str(e)[:300], D.raise_site(e)))


def handover_jobs(ctx):
    from vlib import c02_handover as HO
    addrs = HO.addresses()
    jobs = []
    for tra in (True, False):
        rng = ctx.rng(f"handover:{tra}")
        # before Cancun (no transient storage) the quick tier keeps the two deciding shapes per (hand-over, state) pair
        tier = ctx.tier if (tra or ctx.tier != "quick") else "quick-min"
        for i, p in enumerate(HO.build_programs(rng, tier, tra, addrs[:3])):
            p["name"] = f"handover/{'cancun+' if tra else 'pre-cancun'}.{i}"
            p["plan"] = HO.make_plan(p, rng, 2 if ctx.tier == "quick" else 3)
            jobs.append(p)
    return jobs, addrs


def handover_cfgs(ctx, jobs):
    """configurations per program: the code generators side by side on one EVM target, a second Venom level on another
    target, and (Cancun+ programs) one single-flag configuration rotating over the usable flags; thorough: every level on
    every target plus every single flag"""
    from vlib.configs import Config, USABLE_FLAGS
    LV = {False: ["none", "gas", "codesize"], True: ["none", "gas", "codesize", "O3"]}
    cfgs, work, names = [], [], {}

    def add(k, c):
        if c.name not in names:
            names[c.name] = len(cfgs)
            cfgs.append(c)
        if (k, names[c.name]) not in work:
            work.append((k, names[c.name]))
    for k, job in enumerate(jobs):
        evms = ["cancun", "prague"] if job["tra"] else list(R.PRE_CANCUN)
        i = k + ctx.seed
        if ctx.tier == "quick":
            ea, eb = evms[i % len(evms)], evms[(i + 1) % len(evms)]
            add(k, Config(False, LV[False][i % 3], ea))
            add(k, Config(True, LV[True][i % 4], ea))
            add(k, Config(True, LV[True][(i + 1 + i // 4) % 4], eb))
            if job["tra"]:
                add(k, Config(True, "gas", eb, flags=[USABLE_FLAGS[i % len(USABLE_FLAGS)]]))
        else:
            for e in evms:
                for v in (False, True):
                    for lvl in LV[v]:
                        add(k, Config(v, lvl, e))
            for f in USABLE_FLAGS:
                add(k, Config(True, "gas" if k % 2 else "O3", evms[-1], flags=[f]))
    return cfgs, work


def _ho_calls_json(plan):
    return [{kk: (vv.hex() if isinstance(vv, bytes) else vv) for kk, vv in c.items()} for c in plan]


def _ho_calls_from_json(calls):
    out = []
    for c in calls:
        c = dict(c)
        for kk in ("salt", "raw"):
            if kk in c:
                c[kk] = bytes.fromhex(c[kk])
        out.append(c)
    return out


def part_handover(ctx):
    """every hand-over instruction x every kind of caller state the foreign code can reach by re-entering x the shapes in which
    the caller touches that state on both sides of the hand-over (tools/vlib/c02_handover.py)"""
    global _HJOBS
    from vlib import c02_handover as HO
    t0 = time.time()
    jobs, addrs = handover_jobs(ctx)
    cfgs, work = handover_cfgs(ctx, jobs)
    _HJOBS = {"jobs": jobs, "cfgs": cfgs}
    for evm in sorted({c.evm for c in cfgs}):        # auxiliary contracts once per target, inherited by the workers
        for tra in (True, False):
            if tra and evm in R.PRE_CANCUN:
                continue
            HO.aux_code(evm, tra)
    out = {}
    with mp.get_context("fork").Pool(6 if ctx.tier == "quick" else 4) as pool:
        for k, j, st, o in pool.imap_unordered(_ho_one, work, chunksize=1):
            out[(k, j)] = (st, o)
    n_cmp = ok_calls = 0
    crashes = {}
    reported = set()
    disagreeing = {}
    cover = {}
    for k, job in enumerate(jobs):
        per = {}
        for j, cfg in enumerate(cfgs):
            if (k, j) not in out:
                continue
            st, o = out[(k, j)]
            if st == "exc":
                if o[0] not in D.BENIGN_REJECT:
                    crashes.setdefault((o[0], "+".join(cfg.flags)), []).append((k, cfg, o[1], o[2] if len(o) > 2 else ""))
                continue
            per[cfg.name] = o
            n_cmp += len(o["results"])
            for c, r in zip(job["plan"], o["results"]):
                if r[0] and "raw" not in c:
                    ok_calls += 1
        for name, hn, stt, shape, _v, _w in job["fns"]:
            cover.setdefault((hn, stt), set()).add(shape)
        groups = group_observations({n: (per[n]["deployed"], per[n]["results"], per[n]["state"]) for n in sorted(per)})
        if len(groups) <= 1:
            continue
        a, b = groups[0][0], groups[1][0]
        diff = R.first_difference(per[a], per[b]) or {}
        # every test function on which some configuration deviates from the majority group
        bad = []
        for ci, c in enumerate(job["plan"]):
            if "raw" not in c and any(per[n]["results"][ci] != per[a]["results"][ci] or
                                      (per[n]["results"][ci + 1] != per[a]["results"][ci + 1] and
                                       (ci == 0 or per[n]["results"][ci - 1] == per[a]["results"][ci - 1])) for n in per):
                if c["name"] not in bad:
                    bad.append(c["name"])
        fn = job["plan"][diff["call"]]["name"] if "call" in diff else None
        if fn == "s" and diff.get("call", 0) > 0:
            fn = job["plan"][diff["call"] - 1]["name"]
        if fn in (None, "s"):
            fn = bad[0] if bad else None
        ent = next((f for f in job["fns"] if f[0] == fn), None)
        cls = f"{ent[1]}/{ent[2]}/{ent[3]}" if ent else "state"
        for nme in bad:
            e2 = next(f for f in job["fns"] if f[0] == nme)
            disagreeing[f"{e2[1]}/{e2[2]}/{e2[3]}"] = disagreeing.get(f"{e2[1]}/{e2[2]}/{e2[3]}", 0) + 1
        src, plan = job["src"], job["plan"]
        if ent is not None:
            # minimise: a contract with the one test function, called as in the plan
            try:
                single = HO.single_program(job, fn, addrs[:3])
                splan = [c for i, c in enumerate(job["plan"]) if c["name"] == fn or (i and job["plan"][i - 1]["name"] == fn)]
                ra = HO.observe(single["src"], parse_cfg_name(a), splan, job["tra"])
                rb = HO.observe(single["src"], parse_cfg_name(b), splan, job["tra"])
                d2 = R.first_difference(ra, rb)
                if d2 is not None:
                    src, plan, diff = single["src"], splan, d2
            except Exception as e:
                ctx.log(f"handover minimisation failed: {type(e).__name__}: {e}")
        key = f"C02:handover:{cls}:{split_class2(groups)}"
        fam = key.split("/")[0] + ":" + key.rsplit(":", 1)[1] if ent else key
        if fam in reported or len(reported) >= 3:
            continue
        reported.add(fam)
        ctx.violation("failing-input", f"configurations disagree on {job['name']} ({cls}): {groups[0][:2]} vs {groups[1][:2]}",
                      {"family": "handover", "source": src, "transient": job["tra"], "groups": groups,
                       "first_difference": {"a": a, "b": b, **diff}, "calls": _ho_calls_json(plan),
                       "test_functions_disagreeing_in_this_program": bad[:20],
                       "reactor_source": HO.REACTOR, "child_source": HO.CHILD, "library_source": HO.lib_src(job["tra"]),
                       "how": "deploy (from 0x11..11, compiled legacy -O gas for the same EVM target) reactor_source, library_source, the "
                              "blueprint of child_source, then source; give it 10**18+500 wei; send the calls (functions taking "
                              "`initcode` get the init code of child_source); `check.py C02 --replay <this file>` does that",
                       "expected": "the same status, return data, logs and final storage/balances under every configuration (C02): the "
                                   "foreign code re-enters `poke`, so state read after the hand-over is the state it left"},
                      key=key)
    for (exc, fl), lst in crashes.items():
        k, cfg, msg, site = lst[0]
        report_crash(ctx, exc, cfg, msg, jobs[k]["src"], len(lst), site)
    ctx.corr["handover"] = {"programs": len(jobs), "test_functions": sum(len(j["fns"]) for j in jobs),
                            "handover_state_pairs": len(cover), "handover_kinds": len({h for h, _ in cover}),
                            "shapes_per_pair_min": min((len(v) for v in cover.values()), default=0),
                            "configurations": len(cfgs), "program_configuration_runs": len(work),
                            "calls_compared": n_cmp, "successful_test_calls": ok_calls,
                            "disagreeing_cases": disagreeing, "seconds": round(time.time() - t0, 1)}
    return n_cmp


def replay_handover(ctx):
    """replay of a handover record against the real compiler (both recorded groups, first configuration of each)"""
    import json
    if not ctx.replay:
        return False
    try:
        rec = json.load(open(ctx.replay))
    except Exception:
        return False
    d = rec.get("detail", {})
    if d.get("family") != "handover":
        return False
    import atexit
    from vlib.common import EVIDENCE
    from vlib import c02_handover as HO
    ev = EVIDENCE / f"{ctx.pid}.json"
    if ev.exists():
        old = ev.read_bytes()
        atexit.register(lambda: ev.write_bytes(old))
    print(f"[replay] {rec.get('kind')} {rec.get('key')}: {rec.get('name')}")
    plan = _ho_calls_from_json(d["calls"])
    obs = {}
    for g in d["groups"][:2]:
        n = g[0]
        try:
            obs[n] = HO.observe(d["source"], parse_cfg_name(n), plan, d["transient"])
            for c, r in list(zip(plan, obs[n]["results"]))[:8]:
                print(f"[replay] {n}: {c['name']}(k={c.get('k')}) -> {'ok' if r[0] else 'REVERT'} {r[1][:80]} logs={len(r[2])}")
        except Exception as e:
            print(f"[replay] {n}: {type(e).__name__}: {str(e)[:300]}")
    vals = [(o["results"], o["state"]) for o in obs.values()]
    if len(vals) == 2 and vals[0] != vals[1]:
        print("[replay] the two configurations STILL DISAGREE")
        ctx.violation("failing-input", rec.get("name"), d, key=rec.get("key"))
    else:
        print("[replay] the two configurations agree now")
    return True


# ---------------------------------------------------------------------------------------------- hand-over rows of the effects table (Coq)
HO_FILES = ["C02/Handover.v", "C02/HandoverProofs.v", "C02/GenHandoverTbl.v", "C02/PropsC02Handover.v"]


def gen_efftable():
    from vlib import c02_efftable as E
    data = E.extract()
    (COQ / "C02" / "GenHandoverTbl.v").write_text(E.render(data))
    return data, E.missing(data)


def part_efftable(ctx):
    """Coq: handover_table_covers_reentry / read_after_handover_sound / store_before_handover_unobserved over the rows of
    vyper/venom/effects.py re-extracted on this run.  Search when it breaks: the hand-over x re-entry family of this run."""
    t0 = time.time()
    try:
        data, miss = gen_efftable()
    except Exception as e:
        ctx.violation("translator-rejected", f"cannot extract the hand-over rows of the effects table: {type(e).__name__}: {e}",
                      {"error": str(e)[:500]})
        return 0
    b = ctx.coq_build_cached(HO_FILES)
    if not b["ok"] and not miss and not (b.get("out") or "").strip():
        time.sleep(2)
        b = ctx.coq_build_cached(HO_FILES)
    if not b["ok"]:
        prior = [v for v in ctx.violations if v["kind"] == "failing-input" and (v.get("key") or "").startswith("C02:handover:")]
        if not prior:
            ctx.violation("theorem-broken", f"{b.get('failed_lemma') or 'handover_rows_checked'} in {b['file']}: the effects table rows of "
                          "the hand-over instructions do not contain what re-entrant foreign code can read/write",
                          {"theorem": "handover_table_covers_reentry", "file": b["file"], "missing_table_entries": miss,
                           "rows": data, "coq_output": (b.get("out") or "")[-1200:]})
    elif miss:
        ctx.violation("correspondence-broken", "python mirror of the re-entry footprint disagrees with the Coq run",
                      {"coq_ok": True, "python_missing": miss})
    ctx.corr["efftable"] = {"rows": data, "missing": miss, "coq_ok": b["ok"],
                            "failing_input_from_handover_family": (bool([v for v in ctx.violations if (v.get("key") or "").startswith("C02:handover:")])
                                                                   if not b["ok"] else None),
                            "seconds": round(time.time() - t0, 1)}
    return 2 * len(data["writes"])


# ---------------------------------------------------------------------------------------------- returndata flow (Coq)
RDS_FILES = ["C02/RdsFlow.v", "C02/RdsFlowProofs.v", "C02/GenRdsSkel.v", "C02/PropsC02Rds.v"]


def rds_jobs(ctx):
    """programs whose pre-Cancun legacy IR is abstracted to a returndata-flow skeleton: the whole corpus (+ its helper),
    the regression list and the callers/callees of the dynamic-member family of this run"""
    import zlib
    from vlib import c02_dynret as Y
    pre = list(R.PRE_CANCUN)
    lv = ["none", "gas", "codesize"]
    jobs = []
    meta = {}

    def add(name, src, helper, levels):
        for lvl in levels:
            evm = pre[(zlib.crc32(name.encode()) + ctx.seed) % 3]
            n = f"{name}@legacy-{lvl}-{evm}"
            jobs.append((n, src, lvl, evm))
            meta[n] = (src, helper, lvl, evm)
    try:
        from vlib import c02_corpus
        add("corpus-helper", c02_corpus.HELPER, None, ["gas"])
        for ent in c02_corpus.CORPUS:
            if ent.get("min_evm") == "cancun":
                continue
            # quick tier: only contracts that can make a call at all (the returndata buffer is read only after one)
            if ctx.tier == "quick" and not any(w in ent["src"] for w in ("staticcall ", "extcall ", "raw_call(", "create_", "raw_create(", "send(")):
                continue
            levels = lv if ctx.tier != "quick" else [lv[(zlib.crc32(ent["name"].encode()) + ctx.seed) % 3]]
            add("corpus/" + ent["name"], ent["src"], c02_corpus.HELPER, levels)
    except ImportError:
        pass
    if ctx.tier != "quick":
        for name, src in REGRESS:
            add(name, src, None, ["gas"])
    for rd in range(1 if ctx.tier == "quick" else 4):
        _rng, shapes, per = dynret_shapes(ctx, rd)         # the same programs part_dynret runs
        for k in range(0, len(shapes), per):
            callee, caller, _t = Y.build_program(shapes[k:k + per])
            add(f"dynret/{rd}.{k // per}", caller, None, lv)
            add(f"dynret-callee/{rd}.{k // per}", callee, None, ["gas"])
    return jobs, meta


def gen_rds(ctx):
    from vlib import c02_rdsflow as F
    jobs, meta = rds_jobs(ctx)
    res = F.skeletons(jobs, 6)
    named, rejected, stats = [], [], {"rds": 0, "copy": 0, "call": 0, "labels": 0}
    for n, st, k, stt in res:
        if st == "ok":
            named.append((n, k))
            for a, b in stt.items():
                stats[a] = stats.get(a, 0) + b
        elif st == "unknown":
            rejected.append((n, k))
        # "compile": the program does not compile under this configuration; part_corpus reports crashes
    (COQ / "C02" / "GenRdsSkel.v").write_text(F.render_file(named))
    return named, rejected, stats, meta


def part_rdsflow(ctx):
    """Coq: rds_flow_sound / emitted_skeletons_target_independent over the skeletons regenerated from the emitted IR"""
    from vlib import c02_rdsflow as F
    from vlib.configs import Config
    t0 = time.time()
    try:
        named, rejected, stats, meta = gen_rds(ctx)
    except Exception as e:
        ctx.violation("translator-rejected", f"cannot extract returndata-flow skeletons: {type(e).__name__}: {e}", {"error": str(e)[:500]})
        return 0
    for n, msg in rejected[:2]:
        ctx.violation("translator-rejected", f"IR node outside the returndata-flow abstraction in {n}: {msg}", {"program": n, "message": msg})
    unsafe = []
    for n, k in named:
        where = []
        if F.py_chk(k, False, where) is None:
            unsafe.append((n, where[:1]))
    b = ctx.coq_build_cached(RDS_FILES)
    if not b["ok"] and not unsafe and not (b.get("out") or "").strip():
        # coqc died without a message (seen once on a machine at load 100): not a verdict; run it again
        ctx.log(f"coqc produced no output on {b.get('file')}; retrying")
        time.sleep(2)
        b = ctx.coq_build_cached(RDS_FILES)
    found = False
    if unsafe:
        # Search: the dynamic differential of this run (part_dynret / part_corpus) may already hold the failing input; else
        # run the offending program under the same legacy level before and after Cancun with a longer call plan
        prior = [v for v in ctx.violations if v["kind"] == "failing-input" and (v.get("key") or "").startswith(("C02:dynret:", "C02:corpus/"))
                 and "pre-cancun" in (v.get("key") or "")]
        found = bool(prior)
        for n, where in unsafe:
            if found:
                break
            src, helper, lvl, evm = meta[n]
            if n.startswith("dynret"):
                continue
            try:
                plan, abi = R.make_plan(src, helper, ctx.rng("rds-search:" + n), 80)
                if plan is None:
                    continue
                oa = R.observe_contract(src, Config(False, lvl, evm), plan, helper, abi)
                ob = R.observe_contract(src, Config(False, lvl, "cancun"), plan, helper, abi)
                diff = R.first_difference(oa, ob)
                if diff is not None:
                    found = True
                    ctx.violation("failing-input", f"{n}: behaviour differs between {evm} and cancun (legacy -O {lvl})",
                                  {"source": src, "groups": [[f"legacy-{lvl}-{evm}"], [f"legacy-{lvl}-cancun"]], "first_difference": diff,
                                   "calls": [{"function": c["name"], "calldata": c["data"].hex(), "value": c["value"], "sender": c["sender"]}
                                             for c in plan], "helper_deployed_first": helper is not None,
                                   "returndata_read_after_copy": where},
                                  key=f"C02:{n.split('@')[0]}:legacy:pre-cancun")
            except Exception as e:
                ctx.log(f"rds search failed on {n}: {type(e).__name__}: {e}")
        if not found:
            n, where = unsafe[0]
            ctx.violation("theorem-broken", "emitted_skeletons_target_independent (C02/PropsC02Rds.v): the emitted pre-Cancun IR reads the "
                          "returndata buffer after a copy through the identity precompile",
                          {"theorem": "emitted_skeletons_target_independent", "file": "C02/PropsC02Rds.v", "programs": [u[0] for u in unsafe][:8],
                           "source_of_the_read": where, "source": meta[n][0],
                           "coq_output": (b.get("out") or "")[-800:] if not b["ok"] else ""})
    if b["ok"] and unsafe:
        ctx.violation("correspondence-broken", "python mirror of the returndata-flow analysis rejects a skeleton the Coq run accepts",
                      {"coq_ok": True, "python_unsafe": [u[0] for u in unsafe][:5]})
    elif not b["ok"] and not unsafe:
        ctx.violation("theorem-broken", f"{b.get('failed_lemma')} in {b['file']}",
                      {"theorem": b.get("failed_lemma"), "file": b["file"], "coq_output": b["out"][-1500:]})
    ctx.corr["rdsflow"] = {"skeletons": len(named), "rejected": len(rejected), "ir_nodes": stats,
                           "skeletons_with_copy_and_read": sum(1 for _n, k in named if F.count(k, "copy") and F.count(k, "rds")),
                           "unsafe": [u[0] for u in unsafe], "dynamic_failing_input_this_run": found if unsafe else None,
                           "seconds": round(time.time() - t0, 1)}
    return len(named)


def parse_cfg_name(name):
    from vlib.c01_replay import parse_cfg
    return parse_cfg(name)


def replay_dynret(ctx):
    """replay of a dynret record against the real compiler: recompile callee and caller under the first configuration of the
    two recorded groups, deploy callee / mirror / caller, re-send the recorded calldata"""
    import json
    if not ctx.replay:
        return False
    try:
        rec = json.load(open(ctx.replay))
    except Exception:
        return False
    d = rec.get("detail", {})
    if d.get("family") != "dynret":
        return False
    import atexit
    from vlib.common import EVIDENCE
    from vlib import c02_dynret as Y
    ev = EVIDENCE / f"{ctx.pid}.json"
    if ev.exists():
        old = ev.read_bytes()
        atexit.register(lambda: ev.write_bytes(old))
    print(f"[replay] {rec.get('kind')} {rec.get('key')}: {rec.get('name')}")
    plan = [{"name": c["function"], "data": bytes.fromhex(c["calldata"]), "value": c["value"], "sender": c["sender"]} for c in d["calls"]]
    obs = {}
    for g in d["groups"][:2]:
        n = g[0]
        try:
            obs[n] = Y.observe(d["callee_source"], d["source"], parse_cfg_name(n), plan)
            for c, r in list(zip(plan, obs[n]["results"]))[:6]:
                print(f"[replay] {n}: {c['name']} -> {'ok' if r[0] else 'REVERT'} {r[1][:160]}")
        except Exception as e:
            print(f"[replay] {n}: {type(e).__name__}: {str(e)[:300]}")
    vals = [([r if r[0] else (r[0], r[1]) for r in o["results"]], o["state"]) for o in obs.values()]
    if len(vals) == 2 and vals[0] != vals[1]:
        print("[replay] the two configurations STILL DISAGREE")
        ctx.violation("failing-input", rec.get("name"), d, key=rec.get("key"))
    else:
        print("[replay] the two configurations agree now")
    return True


def run(ctx):
    from vlib.c01_replay import replay
    if replay_dynret(ctx):
        return
    if replay_handover(ctx):
        return
    if replay(ctx):
        return
    cfgs = configs(ctx.tier)
    n1 = part_pass_order(ctx)
    n2 = part_generated(ctx, cfgs)
    n3 = part_corpus(ctx, cfgs)
    n3 += part_matrix(ctx, cfgs)
    try:
        n3 += part_dynret(ctx, cfgs)
    except Exception as e:
        ctx.violation("gate", f"dynamic-member family did not run: {type(e).__name__}: {e}", {"error": str(e)[:500]})
    try:
        n3 += part_handover(ctx)
    except Exception as e:
        ctx.violation("gate", f"hand-over x re-entry family did not run: {type(e).__name__}: {e}", {"error": str(e)[:500]})
    n1 += part_efftable(ctx)
    n1 += part_rdsflow(ctx)
    ctx.corr["configs"] = [c.name for c in cfgs]
    ctx.corr["evaluations"] = n1 + n2 + n3
    ctx.corr["distinct_nontrivial"] = n1 + n2 + n3
    ctx.corr["rule"] = ("pass-order: one evaluation per (level, flag subset) compared between Coq validator and real builder; "
                        "N-way: one evaluation per (contract, call, configuration) whose status/data/logs take part in the comparison; "
                        "all are distinct (program, call, configuration) triples")
    ctx.trusted += ["Coq 8.16.1 kernel + vm_compute", "introspection of vyper.venom module data (pass lists, PASS_FLAG_MAP, required_* attributes)",
                    "pyrevm (EVM)"]
    ctx.assumptions += ["optimisation passes are not proved semantics preserving; behavioural invariance holds for the programs run"]


def prebuild(ctx):
    """Called by setup_cmd: extract the pass tables and compile the C02 development once (content-keyed reuse afterwards:
    the check recompiles GenPassOrder.v / PropsC02.v only if the extracted tables changed)."""
    data = PO.extract()
    (COQ / "C02" / "GenPassOrder.v").write_text(PO.render(data))
    ctx.coq_build_cached(["C02/PassOrder.v", "C02/PassOrderProofs.v", "C02/GenPassOrder.v", "C02/PropsC02.v"])
    try:
        gen_rds(ctx)
        ctx.coq_build_cached(RDS_FILES)
    except Exception as e:
        ctx.log(f"prebuild of the returndata-flow part failed: {type(e).__name__}: {e}")
    try:
        gen_efftable()
        ctx.coq_build_cached(HO_FILES)
    except Exception as e:
        ctx.log(f"prebuild of the hand-over table part failed: {type(e).__name__}: {e}")
