#!/usr/bin/env python3
"""setup_cmd: build the static Coq development (full .vo, no -vos) from files on disk."""
import subprocess
import sys
import time
from pathlib import Path

HERE = Path(__file__).resolve().parent
sys.path.insert(0, str(HERE))
from vlib import coqrun  # noqa: E402
from vlib.common import COQ  # noqa: E402


def main():
    t0 = time.time()
    order = [l.strip() for l in (COQ / "STATIC").read_text().splitlines() if l.strip() and not l.startswith("#")]
    with coqrun.BuildLock():
        for f in order:
            r = coqrun.coqc(COQ / f, timeout=900)
            print(f"{f}: {'ok' if r['ok'] else 'FAIL'} {r['secs']:.1f}s", flush=True)
            if not r["ok"]:
                print(r["out"][-3000:])
                return 1
    print(f"setup done in {time.time()-t0:.0f}s")
    return 0


if __name__ == "__main__":
    sys.exit(main())
