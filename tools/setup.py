#!/usr/bin/env python3
"""setup_cmd: build the static Coq development (full .vo, no -vos) from files on disk."""
import subprocess
import sys
import time
from pathlib import Path

HERE = Path(__file__).resolve().parent
sys.path.insert(0, str(HERE))
from vlib import coqrun  # noqa: E402
from vlib.common import COQ  # noqa: E402


def main():
    t0 = time.time()
    order = [l.strip() for l in (COQ / "STATIC").read_text().splitlines() if l.strip() and not l.startswith("#")]
    with coqrun.BuildLock():
        for f in order:
            r = coqrun.coqc(COQ / f, timeout=900)
            print(f"{f}: {'ok' if r['ok'] else 'FAIL'} {r['secs']:.1f}s", flush=True)
            if not r["ok"]:
                print(r["out"][-3000:])
                return 1
    # optional per-check prebuild (generated models + their proofs), in parallel
    ready = (HERE / "READY").read_text().split() if (HERE / "READY").exists() else []
    procs = []
    for pid in ready:
        src = HERE / "checks" / f"{pid.lower()}.py"
        if src.exists() and "def prebuild" in src.read_text():
            procs.append((pid, subprocess.Popen(["timeout", "2400", "python3", str(HERE / "check.py"), pid, "--prebuild"],
                                                cwd=str(HERE.parent))))
    for pid, p in procs:
        rc = p.wait()
        print(f"prebuild {pid}: rc={rc}", flush=True)
    print(f"setup done in {time.time()-t0:.0f}s")
    return 0


if __name__ == "__main__":
    sys.exit(main())
