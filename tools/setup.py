#!/usr/bin/env python3
"""setup_cmd: build the static Coq development (full .vo, no -vos) from files on disk."""
import subprocess
import sys
import time
from pathlib import Path

HERE = Path(__file__).resolve().parent
sys.path.insert(0, str(HERE))
from vlib import coqrun  # noqa: E402
from vlib.common import COQ  # noqa: E402


def main():
    t0 = time.time()
    order = [l.strip() for l in (COQ / "STATIC").read_text().splitlines() if l.strip() and not l.startswith("#")]
    # de-duplicate, keep first occurrence
    seen = set()
    order = [f for f in order if not (f in seen or seen.add(f))]
    missing = [f for f in order if not (COQ / f).exists()]
    if missing:
        print("STATIC lists missing files:", missing)
        return 1
    with coqrun.BuildLock():
        # parallel build with real dependency tracking (full .vo, no -vos): coq_makefile + make -j
        proj = COQ / "_CoqProject.static"
        proj.write_text("-Q . Verif\n-arg -w -arg -notation-overridden,-deprecated-hint-without-locality,-unusable-identifier\n"
                        + "\n".join(order) + "\n")
        r = subprocess.run(["coq_makefile", "-f", proj.name, "-o", "Makefile.static"], cwd=str(COQ), capture_output=True, text=True)
        ok = r.returncode == 0
        if ok:
            r = subprocess.run(["timeout", "3000", "make", "-f", "Makefile.static", "-j", "8"], cwd=str(COQ), capture_output=True, text=True)
            ok = r.returncode == 0
            print((r.stdout + r.stderr)[-1500:], flush=True)
        if not ok:
            print("parallel build failed; falling back to the sequential build", flush=True)
            for f in order:
                r2 = coqrun.coqc(COQ / f, timeout=900)
                print(f"{f}: {'ok' if r2['ok'] else 'FAIL'} {r2['secs']:.1f}s", flush=True)
                if not r2["ok"]:
                    print(r2["out"][-3000:])
                    return 1
    # optional per-check prebuild (generated models + their proofs), in parallel
    ready = (HERE / "READY").read_text().split() if (HERE / "READY").exists() else []
    procs = []
    for pid in ready:
        src = HERE / "checks" / f"{pid.lower()}.py"
        if src.exists() and "def prebuild" in src.read_text():
            procs.append((pid, subprocess.Popen(["timeout", "2400", "python3", str(HERE / "check.py"), pid, "--prebuild"],
                                                cwd=str(HERE.parent))))
    for pid, p in procs:
        rc = p.wait()
        print(f"prebuild {pid}: rc={rc}", flush=True)
    print(f"setup done in {time.time()-t0:.0f}s")
    return 0


if __name__ == "__main__":
    sys.exit(main())
