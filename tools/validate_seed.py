#!/usr/bin/env python3
"""Validate a seeded change and run the matching check against it.
usage: validate_seed.py <PROP> <seed_dir> [--no-tests]
seed_dir holds patch.diff, demo.py, meta.json.  A scratch worktree of /repo HEAD is created under
/tmp/mv, the patch applied, the demo run on /repo (must exit 0) and on the patched tree (must exit 1),
the repository's test-suite run on the patched tree and compared with the clean-tree failure set,
the check run with VERIF_REPO=<patched tree>; the verdicts are merged into meta.json; the worktree is removed."""
import json
import os
import re
import subprocess
import sys
import time
import xml.etree.ElementTree as ET
from pathlib import Path

PY = "/venv/bin/python"


def failing_ids(junit):
    ids = set()
    for tc in ET.parse(junit).getroot().iter("testcase"):
        if any(ch.tag in ("failure", "error") for ch in tc):
            ids.add(tc.get("classname") + "::" + tc.get("name"))
    return ids


def main():
    prop, seed = sys.argv[1], Path(sys.argv[2]).resolve()
    run_tests = "--no-tests" not in sys.argv
    wt = Path("/tmp/mv") / (prop + "_" + seed.name)
    subprocess.run(["git", "-C", "/repo", "worktree", "remove", "--force", str(wt)], capture_output=True)
    wt.parent.mkdir(exist_ok=True)
    subprocess.run(["git", "-C", "/repo", "worktree", "add", "-q", "--detach", str(wt), "HEAD"], check=True)
    res = {"validated_at_repo_commit": subprocess.run(["git", "-C", "/repo", "rev-parse", "--short", "HEAD"], capture_output=True, text=True).stdout.strip()}
    try:
        ap = subprocess.run(["git", "-C", str(wt), "apply", str(seed / "patch.diff")], capture_output=True, text=True)
        res["patch_applies"] = ap.returncode == 0
        if ap.returncode != 0:
            res["apply_error"] = ap.stderr[-500:]
            return res
        env = dict(os.environ, PYTHONHASHSEED="0", PYTHONDONTWRITEBYTECODE="1")
        d0 = subprocess.run(["timeout", "600", PY, str(seed / "demo.py"), "/repo"], capture_output=True, text=True, env=dict(env, PYTHONPATH="/repo"), cwd="/tmp")
        d1 = subprocess.run(["timeout", "600", PY, str(seed / "demo.py"), str(wt)], capture_output=True, text=True, env=dict(env, PYTHONPATH=str(wt)), cwd="/tmp")
        res["demo_clean_exit"] = d0.returncode
        res["demo_patched_exit"] = d1.returncode
        res["demo_patched_output"] = (d1.stdout + d1.stderr)[-600:]
        if run_tests:
            junit = f"/tmp/mv/{prop}_{seed.name}.junit.xml"
            t0 = time.time()
            subprocess.run(["timeout", "2400", PY, "-m", "pytest", "-q", "-p", "no:cacheprovider", "--timeout=900",
                            "--continue-on-collection-errors", "-n", "8", f"--junitxml={junit}"],
                           capture_output=True, text=True, cwd=str(wt), env=dict(env, PYTHONPATH=str(wt)))
            base = failing_ids("/tmp/baseline_fix3.junit.xml")
            now = failing_ids(junit)
            res["tests_new_failures"] = sorted(now - base)[:20]
            res["tests_cmd"] = "pytest -q -p no:cacheprovider --timeout=900 --continue-on-collection-errors -n 8 (full suite, patched worktree)"
            res["tests_secs"] = round(time.time() - t0)
            os.unlink(junit)
        t0 = time.time()
        ck = subprocess.run(["timeout", "1500", "python3", "tools/check.py", prop, "--tier", "quick"], capture_output=True, text=True,
                            cwd=os.environ.get("VERIF_COPY", "/verif"), env=dict(os.environ, VERIF_REPO=str(wt)))
        out = ck.stdout + ck.stderr
        viol = [l for l in out.splitlines() if l.startswith("VIOLATION")]
        res["check_exit"] = ck.returncode
        res["check_violation_lines"] = viol[:5]
        res["check_secs"] = round(time.time() - t0)
        if viol:
            res["check_verdict"] = "caught (no failing input)" if all("no-failing-input-found" in v for v in viol) else "caught with failing input"
            m = re.search(r"replay=(\S+)", viol[0])
            if m and os.path.exists(m.group(1)):
                rp = json.load(open(m.group(1)))
                res["first_replay"] = {"kind": rp.get("kind"), "name": rp.get("name")}
        else:
            res["check_verdict"] = "MISSED"
            res["check_tail"] = out[-400:]
        return res
    finally:
        subprocess.run(["git", "-C", "/repo", "worktree", "remove", "--force", str(wt)], capture_output=True)
        meta = json.load(open(seed / "meta.json")) if (seed / "meta.json").exists() else {}
        meta["validation"] = res
        (seed / "meta.json").write_text(json.dumps(meta, indent=1))
        print(prop, seed.name, res.get("check_verdict"), "demo", res.get("demo_clean_exit"), res.get("demo_patched_exit"),
              "newfail", len(res.get("tests_new_failures", [])))


if __name__ == "__main__":
    main()
