#!/bin/bash
# "Check it as a stranger": build every Coq file of the development from clean with coq_makefile/make (full .vo, no -vos),
# in a scratch copy, then grep the sources for anything that would weaken the trusted base and collect Print Assumptions.
# usage: tools/full_build.sh [jobs]   (run after `python3 tools/setup.py`, which regenerates the Gen*.v files from /repo)
set -u
J=${1:-16}
S=$(mktemp -d /tmp/fullbuild.XXXXXX)
trap 'rm -rf "$S"' EXIT
mkdir -p "$S/coq"
rsync -a --exclude='cases/' --include='*/' --include='*.v' --exclude='*' /verif/coq/ "$S/coq/"
cd "$S/coq"
{ echo "-Q . Verif"; echo "-arg -w -arg -notation-overridden,-deprecated-hint-without-locality,-deprecated-instance-without-locality,-unusable-identifier"; find . -name '*.v' | sed 's#^\./##' | sort; } > _CoqProject
coq_makefile -f _CoqProject -o Makefile > /dev/null
t0=$(date +%s)
timeout 14400 make -j"$J" > build.log 2>&1; rc=$?
t1=$(date +%s)
echo "files: $(grep -c '\.v$' _CoqProject)  make rc=$rc  wall=$((t1-t0))s"
grep -n "Error" build.log | head -20
echo "Print Assumptions lines: closed=$(grep -c 'Closed under the global context' build.log) axioms=$(grep -c '^Axioms:' build.log) section_variables=$(grep -c '^Section Variables:' build.log)"
echo "forbidden tokens (outside comments are checked by coqrun.forbidden_tokens; raw grep here):"
grep -rnE '\b(Admitted|admit|Axiom|Axioms|Parameter|Parameters|Conjecture)\b|Unset Guard|bypass_check|Admit Obligations|Unset Positivity|Unset Universe' --include=*.v . | head -20
exit $rc
