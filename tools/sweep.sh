#!/bin/bash
# seed sweep on the unchanged tree: every READY check x seeds; prints one line per run.
# usage: tools/sweep.sh "<seeds>" [checks...]
cd "$(dirname "$0")/.."
seeds="$1"; shift
checks="$@"
[ -z "$checks" ] && checks=$(cat tools/READY)
python3 tools/setup.py > sweep_setup.log 2>&1 || echo "SETUP FAILED"
for s in $seeds; do
  for c in $checks; do
    t0=$(date +%s)
    out=$(VERIF_SEED=$s timeout 2400 python3 tools/check.py $c --tier quick 2>&1)
    rc=$?
    t1=$(date +%s)
    nv=$(echo "$out" | grep -c "^VIOLATION")
    echo "seed=$s check=$c rc=$rc violations=$nv secs=$((t1-t0))"
    if [ "$nv" != "0" ]; then
      echo "$out" | grep "^VIOLATION" | head -5
      for f in $(echo "$out" | grep "^VIOLATION" | sed -n 's/.*replay=\([^ ]*\).*/\1/p' | head -8); do
        python3 -c "import json,sys; d=json.load(open('$f')); print('   key=',d.get('key'),'| kind=',d.get('kind'),'| name=',str(d.get('name'))[:160])"
      done
    fi
  done
done
echo SWEEP-DONE
