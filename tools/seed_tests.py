#!/usr/bin/env python3
"""Confirm that seeded changes pass the repository's own test suite: for each seed, a scratch worktree of /repo HEAD
under /tmp/mt with the patch applied, the full pinned suite, and the set of failing test ids compared with the clean
tree's (environmental) failure set in /tmp/baseline_fix3.junit.xml (regenerated with --baseline).
Records meta.json["tests"] = {new_failures, passed, secs, repo_commit}.
usage: seed_tests.py [-j WORKERS] [-n XDIST] [--baseline] [seed_name ...]   (default: seeds without a tests record)"""
import json
import os
import queue
import subprocess
import sys
import threading
import time
import xml.etree.ElementTree as ET
from pathlib import Path

V = Path("/verif")
ROOT = Path("/tmp/mt")
PY = "/venv/bin/python"
BASE = "/tmp/baseline_fix3.junit.xml"


def sh(*a, **kw):
    return subprocess.run(list(a), capture_output=True, text=True, **kw)


def outcome(junit):
    bad, n = set(), 0
    for tc in ET.parse(junit).getroot().iter("testcase"):
        n += 1
        if any(ch.tag in ("failure", "error") for ch in tc):
            bad.add(tc.get("classname") + "::" + tc.get("name"))
    return bad, n


def suite(tree, junit, xd):
    env = dict(os.environ, PYTHONHASHSEED="0", PYTHONDONTWRITEBYTECODE="1", PYTHONPATH=str(tree))
    sh("timeout", "3600", PY, "-m", "pytest", "-q", "-p", "no:cacheprovider", "--timeout=900", "--continue-on-collection-errors",
       "-n", str(xd), f"--junitxml={junit}", cwd=str(tree), env=env)


def worker(q, lock, xd, base):
    while True:
        try:
            name = q.get_nowait()
        except queue.Empty:
            return
        sd = V / "seeded" / name
        wt = ROOT / name
        sh("git", "-C", "/repo", "worktree", "remove", "--force", str(wt))
        sh("git", "-C", "/repo", "worktree", "add", "-q", "--detach", str(wt), "HEAD")
        rec = {"repo_commit": sh("git", "-C", "/repo", "rev-parse", "--short", "HEAD").stdout.strip()}
        try:
            ap = sh("git", "-C", str(wt), "apply", str(sd / "patch.diff"))
            if ap.returncode != 0:
                rec["error"] = "patch does not apply: " + ap.stderr[-200:]
            else:
                junit = str(ROOT / (name + ".junit.xml"))
                t0 = time.time()
                suite(wt, junit, xd)
                bad, n = outcome(junit)
                rec.update(new_failures=sorted(bad - base)[:20], n_new_failures=len(bad - base), testcases=n,
                           passed=n - len(bad), secs=round(time.time() - t0),
                           cmd=f"pytest -q -p no:cacheprovider --timeout=900 --continue-on-collection-errors -n {xd} (full suite, patched worktree)")
                os.unlink(junit)
        except Exception as e:  # noqa
            rec["error"] = repr(e)[:300]
        finally:
            sh("git", "-C", "/repo", "worktree", "remove", "--force", str(wt))
        with lock:
            meta = json.loads((sd / "meta.json").read_text())
            meta["tests"] = rec
            (sd / "meta.json").write_text(json.dumps(meta, indent=1))
            print(name, rec.get("n_new_failures"), rec.get("passed"), rec.get("secs"), rec.get("error", ""), flush=True)


def main():
    args = sys.argv[1:]
    j, xd = 2, 6
    while args and args[0] in ("-j", "-n", "--baseline"):
        if args[0] == "-j":
            j = int(args[1]); args = args[2:]
        elif args[0] == "-n":
            xd = int(args[1]); args = args[2:]
        else:
            ROOT.mkdir(parents=True, exist_ok=True)
            suite(Path("/repo"), BASE, 10)
            print("baseline", len(outcome(BASE)[0]), "failing ids")
            args = args[1:]
    ROOT.mkdir(parents=True, exist_ok=True)
    base, _ = outcome(BASE)
    names = args or [p.name for p in sorted((V / "seeded").glob("*_m*"), key=lambda p: (-int(p.name[-1]), p.name))
                     if "tests" not in json.loads((p / "meta.json").read_text())
                     and "tests_new_failures" not in (json.loads((p / "meta.json").read_text()).get("validation") or {})]
    q = queue.Queue()
    for s in names:
        q.put(s)
    print("seeds:", " ".join(names), flush=True)
    lock = threading.Lock()
    ts = [threading.Thread(target=worker, args=(q, lock, xd, base)) for _ in range(j)]
    for t in ts:
        t.start()
    for t in ts:
        t.join()
    sh("git", "-C", "/repo", "worktree", "prune")


if __name__ == "__main__":
    main()
