#!/usr/bin/env python3
"""Regenerate MANIFEST.json from the META dict of each tools/checks/cXX.py."""
import importlib
import json
import sys
from pathlib import Path

HERE = Path(__file__).resolve().parent
sys.path.insert(0, str(HERE))
VERIF = HERE.parent


def main():
    props = [json.loads(l) for l in (VERIF / "properties.jsonl").read_text().splitlines() if l.strip()]
    checks, na = [], []
    ready = set((HERE / "READY").read_text().split())
    for p in props:
        pid = p["id"]
        f = HERE / "checks" / f"{pid.lower()}.py"
        meta = None
        if f.exists():
            src = f.read_text()
            if "META" in src:
                ns = {}
                # META is a literal dict at module level; extract without importing vyper
                start = src.index("META = ")
                depth = 0
                end = None
                for i in range(start + 7, len(src)):
                    if src[i] == "{":
                        depth += 1
                    elif src[i] == "}":
                        depth -= 1
                        if depth == 0:
                            end = i + 1
                            break
                meta = eval(src[start + 7:end], {})
        if meta is not None and pid not in ready and not meta.get("not_applicable"):
            meta = None
        if meta is None or meta.get("not_applicable"):
            na.append({"property_id": pid, "reason": (meta or {}).get("not_applicable", "check not built yet (work in progress)")})
            continue
        checks.append({
            "property_id": pid,
            "quick_cmd": f"python3 tools/check.py {pid} --tier quick",
            "thorough_cmd": f"python3 tools/check.py {pid} --tier thorough",
            "evidence_file": f"/verif/evidence/{pid}.json",
            "replay_cmd_template": f"python3 tools/check.py {pid} --replay {{path}}",
            "engine": "coq-proof",
            "level_claimed": {"category": meta["category"], "text": meta["text"], "design_ref": meta.get("design_ref", f"DESIGN.md {pid}")},
            "level_note": meta["level_note"],
            "technique": meta["technique"],
        })
    man = {
        "version": 1,
        "setup_cmd": "python3 tools/setup.py",
        "hooks": {
            "guard": "VYPER_VERIF",
            "enable": "no source hooks: checks import /repo with PYTHONPATH=/repo and VYPER_VERIF=1 set (unused by /repo)",
            "baseline_off_cmd": "cd /repo && /venv/bin/python -m pytest -ra -q -p no:cacheprovider --timeout=900 --continue-on-collection-errors",
            "source_commits": [],
            "add_only": True,
        },
        "engines": [{
            "name": "coq-proof", "path": "/verif/coq + /verif/tools",
            "serves_properties": [c["property_id"] for c in checks],
            "kind_free_text": "Coq 8.16.1 models (regenerated from /repo by tools/vlib/py2coq.py or hand-written and tied by differential correspondence) + theorems; Python harness tools/check.py",
        }],
        "checks": checks,
        "not_applicable": na,
        "notes": "See DESIGN.md. Every check regenerates its Gen*.v from /repo's working tree, recompiles the dependent proofs with coqc, runs the correspondence, and searches for a failing input when a tie or proof breaks.",
    }
    (VERIF / "MANIFEST.json").write_text(json.dumps(man, indent=1) + "\n")
    print(f"MANIFEST: {len(checks)} checks, {len(na)} not_applicable")


if __name__ == "__main__":
    main()
