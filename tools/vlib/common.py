"""Shared paths, environment pinning, PRNG."""
import os
import random
import sys
from pathlib import Path

VERIF = Path(__file__).resolve().parents[2]
REPO = Path(os.environ.get("VERIF_REPO", "/repo"))
COQ = VERIF / "coq"
EVIDENCE = VERIF / "evidence"
REPLAYS = VERIF / "replays"
BUILD = VERIF / "build"

GUARD = "VYPER_VERIF"


def pin_env():
    """Force the interpreter to see /repo's current working tree."""
    os.environ["PYTHONHASHSEED"] = os.environ.get("PYTHONHASHSEED", "0")
    os.environ[GUARD] = "1"
    rp = str(REPO)
    if rp in sys.path:
        sys.path.remove(rp)
    sys.path.insert(0, rp)
    tp = str(VERIF / "tools")
    if tp not in sys.path:
        sys.path.insert(1, tp)


def seed():
    try:
        return int(os.environ.get("VERIF_SEED", "0"))
    except ValueError:
        return 0


def rng(salt=""):
    return random.Random(f"{seed()}:{salt}")


def ncores():
    return max(1, min(16, os.cpu_count() or 1))
