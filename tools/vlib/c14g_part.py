"""C14G: verified CFG-transformation validator for the control-flow passes of Venom
(SimplifyCFGPass, BranchOptimizationPass, TailMergePass, CFGNormalization).

Every real invocation of these passes -- while corpus contracts are compiled by the real pipeline, and on hand-written /
generated IR families (parse_venom) that put phis where the compiler's own IR rarely has them -- is observed by wrapping
`run_pass` in this process.  The function before and after and a certificate computed HERE (untrusted) are exported as Coq
literals and `cfg_check before after cert` (coq/C14G/CfgCheck.v) is evaluated by vm_compute.  Theorem cfg_check_sound
(coq/C14G/PropsCfg.v): an accepted instance has the same observable traces before and after, for every semantics of the
opaque instructions.  A rejected instance is searched for a concrete input on which the two functions behave
differently (event-trace executor below; parallel phis, i.e. independent of the Coq model's sequential phis).
"""
import hashlib
import time
import warnings

from . import coqrun
from .common import COQ

FOREIGN = 1_000_000
COQ_MODEL = ["C14G/CfgSem.v", "C14G/CfgCheck.v"]
COQ_PROOFS = ["C14G/CfgSemProofs.v", "C14G/ChainProofs.v", "C14G/FlipProofs.v", "C14G/TailProofs.v", "C14G/SplitProofs.v",
              "C14G/PhiProofs.v", "C14G/AsmCfg.v", "C14G/AsmCfgProofs.v", "C14G/PropsCfg.v"]
IMPORTS = ("From Coq Require Import NArith String.\nFrom Verif Require Import C14G.CfgSem C14G.CfgCheck.\n"
           "Open Scope string_scope.\nOpen Scope Z_scope.\n")
PASSES = ("SimplifyCFGPass", "BranchOptimizationPass", "TailMergePass", "CFGNormalization")
KIND = {"SimplifyCFGPass": "chain", "BranchOptimizationPass": "flip", "TailMergePass": "tail", "CFGNormalization": "split"}
JUMPS = ("jmp", "jnz", "djmp")
W256 = 2**256


# ------------------------------------------------------------------ snapshots (plain data, independent of later mutation)
def snap_operand(o):
    from vyper.venom.basicblock import IRLabel, IRLiteral, IRVariable
    if isinstance(o, IRLiteral):
        return ("lit", o.value)
    if isinstance(o, IRVariable):
        return ("var", o.value)
    if isinstance(o, IRLabel):
        return ("lab", o.value)
    raise ValueError(f"operand {o!r}")


def snapshot(fn):
    blocks = []
    bbs = list(fn.get_basic_blocks())
    entry = fn.entry
    if bbs and bbs[0] is not entry:
        bbs.remove(entry)
        bbs.insert(0, entry)
    for bb in bbs:
        insts = [(i.opcode, tuple(snap_operand(o) for o in i.operands), tuple(o.value for o in i.get_outputs()))
                 for i in bb.instructions]
        blocks.append((bb.label.value, insts))
    return {"name": fn.name.value if hasattr(fn.name, "value") else str(fn.name), "blocks": blocks}


def data_labels(fn):
    """labels stored in the data segment of the context (jump tables), in order"""
    from vyper.venom.basicblock import IRLabel
    out = []
    try:
        for sec in fn.ctx.data_segment:
            for item in sec.data_items:
                if isinstance(item.data, IRLabel):
                    out.append(item.data.value)
    except Exception:
        pass
    return out


def snap_text(s):
    def op(o):
        return str(o[1]) if o[0] == "lit" else (o[1] if o[0] == "var" else "@" + o[1])
    out = [f"function {s['name']} {{"]
    for lab, insts in s["blocks"]:
        out.append(f"  {lab}:")
        for opc, args, outs in insts:
            lhs = (", ".join(outs) + " = ") if outs else ""
            out.append(f"    {lhs}{opc} " + ", ".join(op(a) for a in args))
    out.append("}")
    return "\n".join(out)


def ninsts(s):
    return sum(len(i) for _, i in s["blocks"])


# ------------------------------------------------------------------ export with aligned numbering
class Numbering:
    def __init__(self, before, after):
        self.lab = {}
        for lab, _ in before["blocks"]:
            self.lab[lab] = len(self.lab)
        self.nb = len(self.lab)
        self.new = []
        for lab, _ in after["blocks"]:
            if lab not in self.lab:
                self.lab[lab] = len(self.lab)
                self.new.append(lab)
        self.var = {}
        self.foreign = {}

    def v(self, name):
        if name not in self.var:
            self.var[name] = len(self.var)
        return self.var[name]

    def operand(self, o):
        if o[0] == "lit":
            return f"OLit {coqrun.hexlit(o[1])}"
        if o[0] == "var":
            return f"OVar {self.v(o[1])}%N"
        if o[1] in self.lab:
            return f"OLab {self.lab[o[1]]}%N"
        if o[1] not in self.foreign:
            self.foreign[o[1]] = FOREIGN + len(self.foreign)
        return f"OLab {self.foreign[o[1]]}%N"

    def inst(self, i):
        args = "; ".join(self.operand(o) for o in i[1])
        outs = "; ".join(f"{self.v(o)}%N" for o in i[2])
        return f'mkI "{i[0]}" [{args}] [{outs}]'

    def func(self, s):
        table = dict(s["blocks"])
        order = sorted(self.lab.items(), key=lambda t: t[1])
        n = len(order)
        # trailing labels that do not exist in this snapshot are dropped for `before`
        bl = []
        for lab, _ in order:
            insts = table.get(lab)
            bl.append("[" + ";\n    ".join(self.inst(i) for i in insts) + "]" if insts else "[]")
        return bl, n


def local_label_in_body(s):
    labs = {l for l, _ in s["blocks"]}
    for _, insts in s["blocks"]:
        for k, (opc, args, outs) in enumerate(insts):
            if opc == "phi" or (opc in JUMPS and k == len(insts) - 1):
                continue
            if any(a[0] == "lab" and a[1] in labs for a in args):
                return True
    return False


def phis_independent(s):
    for _, insts in s["blocks"]:
        acc = set()
        for opc, args, outs in insts:
            if opc == "phi":
                if any(a[0] == "var" and a[1] in acc for a in args):
                    return False
                acc.update(outs)
    return True


# ------------------------------------------------------------------ certificates (untrusted)
def _uncond(insts):
    """target of a block whose terminator goes to one place whatever the state is"""
    if insts and insts[-1][0] == "jmp" and len(insts[-1][1]) == 1 and insts[-1][1][0][0] == "lab":
        return insts[-1][1][0][1]
    if (insts and insts[-1][0] == "jnz" and len(insts[-1][1]) == 3 and insts[-1][1][1][0] == "lab"
            and insts[-1][1][1] == insts[-1][1][2]):
        return insts[-1][1][1][1]
    return None


def _resolve(B, lab):
    """follow jump-only blocks; the first block that is not jump-only (None on a cycle / missing block)"""
    seen = set()
    while lab in B and lab not in seen:
        seen.add(lab)
        if len(B[lab]) == 1 and _uncond(B[lab]) is not None:
            lab = _uncond(B[lab])
        else:
            return lab
    return None


def _shape(i):
    return (i[0], len(i[1]), len(i[2]))


def _path(B, lab):
    """lab and the blocks reached from it through jump-only blocks (until a block that is not jump-only, or a cycle)"""
    out = []
    while lab in B and lab not in out:
        out.append(lab)
        if len(B[lab]) == 1 and _uncond(B[lab]) is not None:
            lab = _uncond(B[lab])
        else:
            break
    return out


def _chain_search(B, ainsts, cur, total, seen, depth=0):
    """blocks merged behind `cur` so that the lengths and the shape of the terminator fit (small backtracking search)"""
    if not B[cur] or not ainsts:
        return []
    if total == len(ainsts) and _shape(B[cur][-1]) == _shape(ainsts[-1]):
        return []
    last = B[cur][-1]
    if last[0] not in JUMPS or depth > len(B):
        return None
    labs = [a[1] for a in last[1] if a[0] == "lab"]
    if not labs:
        return None
    paths = [_path(B, l) for l in labs]
    common = [x for x in paths[0] if all(x in p for p in paths[1:])]
    for nxt in common:
        if nxt in seen:
            continue
        t2 = total + len(B[nxt]) - 1
        if t2 > len(ainsts):
            continue
        r = _chain_search(B, ainsts, nxt, t2, seen | {nxt}, depth + 1)
        if r is not None:
            return [nxt] + r
    return None


def cert_chain(before, after, num):
    B = dict(before["blocks"])
    ch = {}
    for lab, ainsts in after["blocks"]:
        if lab not in B:
            return None
        ch[lab] = _chain_search(B, ainsts, lab, len(B[lab]), {lab}) or []
    rows = []
    for lab, _ in before["blocks"]:
        rows.append("[" + "; ".join(f"{num.lab[x]}%N" for x in ch.get(lab, [])) + "]")
    return "CChain [" + "; ".join(rows) + "]"


def new_vars(before, after):
    def vs(s):
        out = set()
        for _, insts in s["blocks"]:
            for opc, args, outs in insts:
                out.update(a[1] for a in args if a[0] == "var")
                out.update(outs)
        return out
    return sorted(vs(after) - vs(before))


def _signature(insts):
    m = {}

    def cv(x):
        if x not in m:
            m[x] = len(m)
        return m[x]
    sig = []
    for opc, args, outs in insts:
        o = tuple(cv(x) for x in outs)
        a = tuple(("v", cv(x[1])) if x[0] == "var" else x for x in args)
        sig.append((opc, o, a))
    return tuple(sig)


def cert_tail(before, after, num):
    B = dict(before["blocks"])
    A = dict(after["blocks"])
    alias = {}
    for lab, insts in before["blocks"]:
        if lab in A:
            alias[lab] = lab
    # a removed label: the label that replaced it in some jump of the same block at the same position
    for lab, insts in before["blocks"]:
        if lab not in A or not insts or not A[lab] or len(A[lab]) != len(insts):
            continue
        tb, ta = insts[-1], A[lab][-1]
        if len(tb[1]) != len(ta[1]):
            continue
        for ob, oa in zip(tb[1], ta[1]):
            if ob[0] == "lab" and oa[0] == "lab" and ob[1] in B and ob[1] not in A and ob[1] not in alias:
                alias[ob[1]] = oa[1]
    for lab, insts in before["blocks"]:
        if lab not in alias:
            sig = _signature(insts)
            keep = [k for k, ki in after["blocks"] if k in B and _signature(B[k]) == sig]
            alias[lab] = keep[0] if keep else lab
    return "CTail [" + "; ".join(f"{num.lab[alias[lab]]}%N" for lab, _ in before["blocks"]) + "]"


def make_cert(kind, before, after, num):
    if kind == "chain":
        return cert_chain(before, after, num)
    if kind == "tail":
        return cert_tail(before, after, num)
    F = "[" + "; ".join(f"{num.v(x)}%N" for x in new_vars(before, after)) + "]"
    return ("CFlip " if kind == "flip" else "CSplit ") + F


def export(kind, before, after):
    """-> dict(f, g, cert) as Coq text, or a string naming why the instance is outside the validator's domain"""
    if local_label_in_body(before) or local_label_in_body(after):
        return "a block label is used as data by a non-terminator instruction"
    if kind == "flip":
        # the bypassed iszero must be defined in the block of the jnz (the validator keeps facts per block only)
        A = dict(after["blocks"])
        for lab, insts in before["blocks"]:
            ai = A.get(lab)
            if not insts or not ai or insts[-1][0] != "jnz" or ai[-1][0] != "jnz" or len(ai) != len(insts):
                continue
            if insts[-1] != ai[-1] and insts[-1][1][0][0] == "var":
                x = insts[-1][1][0][1]
                if not any(opc == "iszero" and outs == (x,) for opc, _, outs in insts[:-1]):
                    return "the iszero bypassed by BranchOptimizationPass is defined in another block"
    num = Numbering(before, after)
    if kind != "split" and num.new:
        return "the pass created blocks"
    fb, _ = num.func(before)
    fb = fb[:num.nb]
    ga, _ = num.func(after)
    cert = make_cert(kind, before, after, num)
    if cert is None:
        return "no certificate"
    blabs = {l for l, _ in before["blocks"]}
    db, da = before.get("data") or [], after.get("data") or []
    if len(db) != len(da):
        return "the data segment changed its length"
    idx = [i for i, l in enumerate(db) if l in blabs]

    def dl(name):
        if name in num.lab:
            return f"{num.lab[name]}%N"
        if name not in num.foreign:
            num.foreign[name] = FOREIGN + len(num.foreign)
        return f"{num.foreign[name]}%N"
    return {"f": "[" + ";\n  ".join(fb) + "]", "g": "[" + ";\n  ".join(ga) + "]", "cert": cert,
            "db": "[" + "; ".join(dl(db[i]) for i in idx) + "]", "da": "[" + "; ".join(dl(da[i]) for i in idx) + "]", "ndata": len(idx)}


# ------------------------------------------------------------------ search: event-trace executor (parallel phis)
BOUNDARY = [0, 1, 2, 31, 32, 255, 256, 2**128, 2**255, 2**256 - 1]


def run_trace(s, seed, max_steps=400):
    """Execute a snapshot.  Opaque instructions return words determined by (seed, opcode, operand values, number of
    events so far): both sides of a comparison therefore see the same environment.  Returns the list of events."""
    from vyper.venom.basicblock import IRLiteral
    from vyper.venom.passes.sccp.eval import ARITHMETIC_OPS, eval_arith
    B = dict(s["blocks"])
    if not s["blocks"]:
        return []
    env = {}
    cur = s["blocks"][0][0]
    pred = None
    events = []
    steps = 0

    def oracle(opc, vals, j):
        h = hashlib.sha256(repr((seed, opc, tuple(vals), len(events), j)).encode()).digest()
        r = int.from_bytes(h, "big")
        return BOUNDARY[r % len(BOUNDARY)] if (r >> 8) % 3 else r % W256

    def val(o):
        if o[0] == "lit":
            return o[1] % W256
        if o[0] == "var":
            return env.get(o[1], 0)
        return ("label", o[1])
    while steps < max_steps:
        insts = B.get(cur)
        if insts is None:
            events.append(("jump-to-missing-block", cur))
            return events
        upd = {}
        k = 0
        while k < len(insts) and insts[k][0] == "phi":
            opc, args, outs = insts[k]
            src = [args[j + 1] for j in range(0, len(args) - 1, 2) if args[j] == ("lab", pred)]
            if not src or len(outs) != 1:
                events.append(("phi-without-operand-for-predecessor", cur, pred))
                return events
            upd[outs[0]] = val(src[0])
            k += 1
        env.update(upd)
        nxt = None
        for k2 in range(k, len(insts)):
            opc, args, outs = insts[k2]
            steps += 1
            last = k2 == len(insts) - 1
            if opc == "phi":
                events.append(("phi-after-non-phi", cur))
                return events
            vals = [val(a) for a in args]
            if opc in JUMPS:
                if not last:
                    events.append(("jump-inside-block", cur))
                    return events
                if opc == "jmp":
                    nxt = args[0][1]
                elif opc == "jnz":
                    nxt = args[1][1] if vals[0] != 0 else args[2][1]
                else:
                    labs = [a[1] for a in args if a[0] == "lab"]
                    table = s.get("data") or []
                    if table:
                        # the jump table decides: entry i (same i before and after the pass)
                        ti = oracle("djmp", [v for v in vals if not isinstance(v, tuple)], 0) % len(table)
                        if table[ti] not in labs:
                            events.append(("djmp-table-entry-is-not-a-listed-target", ti))
                            return events
                        nxt = table[ti]
                    else:
                        nxt = labs[oracle("djmp", [v for v in vals if not isinstance(v, tuple)], 0) % len(labs)] if labs else None
                break
            if opc == "assign" and len(vals) == 1 and len(outs) == 1:
                env[outs[0]] = vals[0]
                continue
            if opc == "iszero" and len(vals) == 1 and len(outs) == 1 and not isinstance(vals[0], tuple):
                env[outs[0]] = 1 if vals[0] == 0 else 0
                continue
            if opc in ARITHMETIC_OPS and len(outs) == 1 and all(not isinstance(v, tuple) for v in vals):
                try:
                    res = [eval_arith(opc, [IRLiteral(v) for v in vals]) % W256]
                except Exception:
                    res = [oracle(opc, vals, 0)]
            else:
                res = [oracle(opc, vals, j) for j in range(len(outs))]
            events.append((opc, tuple(vals), tuple(res)))
            for o, r in zip(outs, res):
                env[o] = r
        if nxt is None:
            return events
        pred, cur = cur, nxt
    events.append(("...",))
    return events


def search(before, after, rnd, tries=40):
    for _ in range(tries):
        seed = rnd.getrandbits(64)
        tb, ta = run_trace(before, seed), run_trace(after, seed)
        cut_b, cut_a = bool(tb) and tb[-1] == ("...",), bool(ta) and ta[-1] == ("...",)
        if cut_b or cut_a:
            # a run stopped by the step bound (the two functions need different numbers of silent steps): compare the
            # events both have produced
            tb, ta = (tb[:-1] if cut_b else tb), (ta[:-1] if cut_a else ta)
            n = min(len(tb), len(ta)) if (cut_b and cut_a) else (len(tb) if cut_b else len(ta))
            if (cut_b and not cut_a and len(ta) < len(tb)) or (cut_a and not cut_b and len(tb) < len(ta)):
                n = min(len(tb), len(ta)) + 1       # the complete run is shorter than the truncated one: a real difference
            tb, ta = tb[:n], ta[:n]
        if tb != ta:
            n = 0
            while n < min(len(tb), len(ta)) and tb[n] == ta[n]:
                n += 1
            return {"oracle_seed": seed, "common_prefix_events": n,
                    "before_next": repr(tb[n:n + 3])[:600], "after_next": repr(ta[n:n + 3])[:600]}
    return None


# ------------------------------------------------------------------ observer
class Observer:
    def __init__(self, max_insts=700):
        self.max_insts = max_insts
        self.items = {}
        self.calls = {p: 0 for p in PASSES}
        self.unchanged = {p: 0 for p in PASSES}
        self.too_big = 0
        self.errors = []
        self.crashes = []
        self.origin = None

    def __enter__(self):
        import vyper.venom  # noqa: F401
        from vyper.venom.passes.branch_optimization import BranchOptimizationPass
        from vyper.venom.passes.cfg_normalization import CFGNormalization
        from vyper.venom.passes.simplify_cfg import SimplifyCFGPass
        from vyper.venom.passes.tail_merge import TailMergePass
        self.saved = []
        obs = self
        for cls in (SimplifyCFGPass, BranchOptimizationPass, TailMergePass, CFGNormalization):
            orig = cls.__dict__["run_pass"]

            def run_pass(self_, *a, _orig=orig, _nm=cls.__name__, **k):
                before = None
                try:
                    before = snapshot(self_.function)
                    before["data"] = data_labels(self_.function)
                except Exception as e:  # the observer must never change what the compiler does
                    obs.errors.append(f"snapshot before {_nm}: {type(e).__name__}: {e}")
                try:
                    r = _orig(self_, *a, **k)
                except Exception as e:
                    if before is not None and len(obs.crashes) < 5:
                        obs.crashes.append({"pass": _nm, "error": f"{type(e).__name__}: {e}"[:400], "before": snap_text(before)[:6000],
                                            "origin": obs.origin})
                    raise
                try:
                    if before is not None:
                        after = snapshot(self_.function)
                        after["data"] = data_labels(self_.function)
                        obs.record(_nm, before, after)
                except Exception as e:
                    obs.errors.append(f"record {_nm}: {type(e).__name__}: {e}")
                return r
            self.saved.append((cls, orig))
            cls.run_pass = run_pass
        return self

    def __exit__(self, *a):
        for cls, orig in self.saved:
            cls.run_pass = orig

    def record(self, pname, before, after):
        self.calls[pname] += 1
        if before["blocks"] == after["blocks"] and before.get("data") == after.get("data"):
            self.unchanged[pname] += 1
            return
        if ninsts(before) > self.max_insts:
            self.too_big += 1
            return
        key = hashlib.sha256(repr((pname, before["blocks"], after["blocks"], before.get("data"), after.get("data"))).encode()).hexdigest()[:16]
        if key not in self.items:
            self.items[key] = {"pass": pname, "before": before, "after": after, "origin": self.origin, "ninsts": ninsts(before),
                               "key": key}


def evaluate(items, name="c14g", timeout=600):
    exprs = [f"let f : func := {it['exp']['f']} in let g : func := {it['exp']['g']} in "
             f"[if cfg_check f g ({it['exp']['cert']}) then 1 else 0; if phis_indep f && phis_indep g then 1 else 0; "
             f"if data_check f g {it['exp']['db']} {it['exp']['da']} ({it['exp']['cert']}) then 1 else 0]" for it in items]
    if not exprs:
        return []
    return coqrun.eval_zlists(IMPORTS, exprs, name, shard=max(1, (len(exprs) + 7) // 8), timeout=timeout)


# ------------------------------------------------------------------ hand-written / generated IR families
def families(rnd, n_random):
    from . import c14g_families as FAM
    return FAM.programs(rnd, n_random)


def run_families(obs, rnd, n_random):
    """each program: every one of the four passes alone and the sequence the pipeline uses, on a fresh parse"""
    from vyper.venom.analysis import IRAnalysesCache
    from vyper.venom.parser import parse_venom
    from vyper.venom.passes.branch_optimization import BranchOptimizationPass
    from vyper.venom.passes.cfg_normalization import CFGNormalization
    from vyper.venom.passes.simplify_cfg import SimplifyCFGPass
    from vyper.venom.passes.tail_merge import TailMergePass
    seqs = [[SimplifyCFGPass], [BranchOptimizationPass], [TailMergePass, SimplifyCFGPass], [CFGNormalization],
            [SimplifyCFGPass, BranchOptimizationPass, SimplifyCFGPass, CFGNormalization]]
    n = 0
    for name, text in families(rnd, n_random):
        for seq in seqs:
            try:
                ctx = parse_venom(text)
            except Exception as e:
                obs.errors.append(f"family {name}: parse: {type(e).__name__}: {e}")
                break
            for fn in ctx.functions.values():
                ac = IRAnalysesCache(fn)
                obs.origin = f"family:{name}"
                for cls in seq:
                    try:
                        cls(ac, fn).run_pass()
                        n += 1
                    except Exception:
                        break   # recorded by the observer as a crash
    obs.origin = None
    return n


# ------------------------------------------------------------------ permanent regressions (defects found by this part, repaired in /repo)
def run_regressions(obs):
    """corpus/C14/branchopt_equal_targets.{vy,venom}: `jnz c, @J, @J` produced by SimplifyCFG._merge_jump reached
    BranchOptimizationPass, which raised ValueError (repaired: b8e4400).  Returns a list of failures."""
    from .common import VERIF
    from vyper.compiler import compile_code
    from vyper.compiler.settings import OptimizationLevel, Settings, VenomOptimizationFlags
    from vyper.venom import run_passes_on
    from vyper.venom.parser import parse_venom
    out = []
    d = VERIF / "corpus" / "C14"
    for lvl in (OptimizationLevel.GAS, OptimizationLevel.CODESIZE, OptimizationLevel.NONE, OptimizationLevel.O3):
        obs.origin = f"regression:branchopt_equal_targets.vy:{lvl.name}"
        try:
            compile_code((d / "branchopt_equal_targets.vy").read_text(), output_formats=["bytecode"],
                         settings=Settings(experimental_codegen=True, optimize=lvl))
        except Exception as e:
            out.append({"replay": str(d / "branchopt_equal_targets.vy"), "level": lvl.name, "error": f"{type(e).__name__}: {e}"[:300],
                        "command": f"python -m vyper.cli.vyper_compile --experimental-codegen -O {lvl.name.lower()} -f bytecode corpus/C14/branchopt_equal_targets.vy"})
        obs.origin = f"regression:branchopt_equal_targets.venom:{lvl.name}"
        try:
            run_passes_on(parse_venom((d / "branchopt_equal_targets.venom").read_text()), VenomOptimizationFlags(level=lvl))
        except Exception as e:
            out.append({"replay": str(d / "branchopt_equal_targets.venom"), "level": lvl.name, "error": f"{type(e).__name__}: {e}"[:300],
                        "command": "run_passes_on(parse_venom(text), VenomOptimizationFlags(level=...))"})
    # corpus/C14/normalization_djmp_table.venom (OPEN finding cfgpass:CFGNormalization): CFGNormalization splits the edge of
    # a djmp but the jump table keeps the old label; calldata (x=0, a=1, b=9) must return (9, 0)
    from vyper.compiler.phases import generate_bytecode
    from vyper.compiler.settings import set_global_settings
    from vyper.venom import generate_assembly_experimental
    from .evm import Chain
    set_global_settings(Settings(evm_version="cancun"))
    text = (d / "normalization_djmp_table.venom").read_text()
    for lvl in (OptimizationLevel.NONE, OptimizationLevel.GAS, OptimizationLevel.CODESIZE, OptimizationLevel.O3):
        obs.origin = f"regression:normalization_djmp_table.venom:{lvl.name}"
        try:
            c2 = parse_venom(text)
            run_passes_on(c2, VenomOptimizationFlags(level=lvl))
            code, _ = generate_bytecode(generate_assembly_experimental(c2, OptimizationLevel.O2))
            ch = Chain("cancun")
            addr = ch.set_code(None, code)
            r = ch.call(addr, (0).to_bytes(32, "big") + (1).to_bytes(32, "big") + (9).to_bytes(32, "big"))
            got = (int.from_bytes(r.out[:32], "big"), int.from_bytes(r.out[32:64], "big")) if r.ok else None
            if got != (9, 0):
                out.append({"replay": str(d / "normalization_djmp_table.venom"), "level": lvl.name, "calldata_words": [0, 1, 9],
                            "returned": got, "expected": (9, 0),
                            "error": "CFGNormalization splits a djmp edge, the jump table keeps the old label: wrong value at run time",
                            "command": "PYTHONPATH=/repo:/verif/tools /venv/bin/python corpus/C14/normalization_djmp_table.py"})
                break
        except Exception as e:
            if "of a djmp has another predecessor" not in str(e):     # a refusal of exactly this shape would be a repair
                out.append({"replay": str(d / "normalization_djmp_table.venom"), "level": lvl.name, "error": f"{type(e).__name__}: {e}"[:300],
                            "command": "run_passes_on(parse_venom(text), VenomOptimizationFlags(level=...))", "other": True})
    obs.origin = None
    return out


PHI_SWAP = """function runtime {
  runtime:
    %n = calldataload 0
    %x = calldataload 32
    %y = calldataload 64
    %z = 0
    jmp @head
  head:
    %i = phi @runtime, %z, @body, %i2
    %a = phi @runtime, %x, @body, %b
    %b = phi @runtime, %y, @body, %a
    %c = lt %i, %n
    jnz %c, @body, @exit
  body:
    %i2 = add %i, 1
    jmp @head
  exit:
    %m = alloca 64
    mstore %m, %a
    %m2 = add %m, 32
    mstore %m2, %b
    return %m, 64
}
"""


def backend_phi_semantics():
    """The real back end (all levels) on pyrevm: phis that read each other's outputs (a swap carried around a loop) are
    evaluated IN PARALLEL.  Returns a list of disagreements with the parallel reading."""
    from vyper.compiler.phases import generate_bytecode
    from vyper.compiler.settings import OptimizationLevel, Settings, VenomOptimizationFlags, set_global_settings
    from vyper.venom import generate_assembly_experimental, run_passes_on
    from vyper.venom.parser import parse_venom
    from .evm import Chain
    bad = []
    set_global_settings(Settings(evm_version="cancun"))
    for lvl in (OptimizationLevel.NONE, OptimizationLevel.GAS, OptimizationLevel.CODESIZE, OptimizationLevel.O3):
        ctx = parse_venom(PHI_SWAP)
        run_passes_on(ctx, VenomOptimizationFlags(level=lvl))
        code, _ = generate_bytecode(generate_assembly_experimental(ctx, OptimizationLevel.O2))
        ch = Chain("cancun")
        addr = ch.set_code(None, code)
        for n in range(4):
            r = ch.call(addr, n.to_bytes(32, "big") + (5).to_bytes(32, "big") + (9).to_bytes(32, "big"))
            got = (int.from_bytes(r.out[:32], "big"), int.from_bytes(r.out[32:64], "big")) if r.ok else None
            want = (5, 9) if n % 2 == 0 else (9, 5)
            if got != want:
                bad.append({"level": lvl.name, "iterations": n, "returned": got, "parallel_reading": want, "ir": PHI_SWAP})
    return bad


# ------------------------------------------------------------------ entry points
def prebuild(ctx):
    r = ctx.coq_build_cached(COQ_MODEL + COQ_PROOFS)
    ctx.coq_build_cached(["C14G/AsmCfg.v", "C14G/AsmCfgProofs.v"], deps=COQ_MODEL + ["C14G/CfgSemProofs.v"])
    return r


def part_cfg_passes(ctx):
    import signal
    t0 = time.time()
    bm = ctx.coq_build_cached(COQ_MODEL)
    b = ctx.coq_build_cached(COQ_PROOFS, deps=COQ_MODEL) if bm["ok"] else bm
    ctx.log(f"C14G coq build: {time.time() - t0:.1f}s ok={b['ok']}")
    model_ok = (COQ / "C14G" / "CfgCheck.vo").exists()
    from vlib import c14_pass_corpus as PC
    from vyper.compiler import compile_code
    from vyper.compiler.settings import OptimizationLevel, Settings
    rnd = ctx.rng("c14g")
    quick = ctx.tier == "quick"
    progs = PC.select(ctx.tier, rnd)
    if quick:
        progs = progs[:12]
    levels = [OptimizationLevel.GAS] if quick else [OptimizationLevel.GAS, OptimizationLevel.CODESIZE, OptimizationLevel.O3]
    nfail = 0
    hangs = []

    class Hang(Exception):
        pass

    def on_alarm(*a):
        raise Hang()
    t0 = time.time()
    with warnings.catch_warnings():
        warnings.simplefilter("ignore")
        old = signal.signal(signal.SIGALRM, on_alarm)
        with Observer(max_insts=500 if quick else 1500) as obs:
            regress = []
            try:
                signal.alarm(120)
                regress = run_regressions(obs)
            except Hang:
                hangs.append("regression replays")
            finally:
                signal.alarm(0)
            phi_bad = []
            try:
                signal.alarm(60)
                phi_bad = backend_phi_semantics()
            except Hang:
                hangs.append("phi swap through the back end")
            except Exception as e:  # noqa
                phi_bad = [{"error": f"{type(e).__name__}: {e}"[:300], "ir": PHI_SWAP}]
            finally:
                signal.alarm(0)
            try:
                signal.alarm(120)
                nfam = run_families(obs, rnd, 40 if quick else 400)
            except Hang:
                hangs.append("IR families")
                nfam = 0
            finally:
                signal.alarm(0)
            for ci, c in enumerate(progs):
                for lvl in (levels + [OptimizationLevel.O3] if quick and ci < 5 else levels):
                    obs.origin = f"corpus:{c['name']}:{lvl.name}"
                    try:
                        signal.alarm(40)
                        compile_code(c["src"], output_formats=["bytecode"], settings=Settings(experimental_codegen=True, optimize=lvl))
                    except Hang:
                        hangs.append(c["name"])
                    except Exception:  # noqa
                        nfail += 1
                    finally:
                        signal.alarm(0)
                if len(hangs) >= 2:
                    break
        signal.signal(signal.SIGALRM, old)
    t_compile = time.time() - t0
    if hangs:
        ctx.violation("correspondence-broken", "compilation does not terminate under observation: " + ", ".join(hangs),
                      {"programs": hangs})
    if obs.errors:
        ctx.violation("correspondence-broken", "cannot snapshot a pass invocation: " + obs.errors[0], {"errors": obs.errors[:5]})
    for pb in phi_bad[:1]:
        ctx.violation("failing-input", "the back end does not evaluate the phis of a block in parallel (or fails) on a swap carried around a loop",
                      dict(pb, call="run_passes_on + generate_assembly_experimental + generate_bytecode, pyrevm, calldata = n,5,9"),
                      key="backend-phi-parallel")
    for rg in regress[:3]:
        ctx.violation("failing-input", "regression of a repaired defect of the venom pipeline: " + rg["error"][:120], rg,
                      key=("cfgpass:CFGNormalization" if "normalization_djmp_table" in rg["replay"] and not rg.get("other")
                           else "cfgpass-crash:BranchOptimizationPass" if "branchopt" in rg["replay"] else "cfgpass-regression"))
    for cr in ([] if regress else obs.crashes[:2]):
        ctx.violation("failing-input", f"{cr['pass']} raises {cr['error'][:120]} on a well-formed function",
                      {"pass": cr["pass"], "error": cr["error"], "function_before": cr["before"], "origin": cr["origin"],
                       "call": f"{cr['pass']}(IRAnalysesCache(fn), fn).run_pass() on parse_venom(function_before)"},
                      key="cfgpass-crash:" + cr["pass"])
    items = sorted(obs.items.values(), key=lambda it: (it["pass"], it["origin"] or "", it["key"]))
    cap = 260 if quick else 100000
    fam_items = [it for it in items if (it["origin"] or "").startswith("family:")]
    cor_items = [it for it in items if not (it["origin"] or "").startswith("family:")]
    if len(fam_items) + len(cor_items) > cap:
        room = max(0, cap - len(fam_items))
        cor_items = rnd.sample(cor_items, min(len(cor_items), room))
    items = fam_items + cor_items
    stats = {"programs": len(progs), "family_pass_runs": nfam, "compile_failures": nfail, "compile_seconds": round(t_compile, 1),
             "invocations": dict(obs.calls), "unchanged": dict(obs.unchanged), "too_big_skipped": obs.too_big,
             "distinct_changing_invocations": len(obs.items), "checked": 0,
             "accepted": {p: 0 for p in PASSES}, "rejected": {p: 0 for p in PASSES}, "unsupported": {}}
    todo = []
    for it in items:
        exp = export(KIND[it["pass"]], it["before"], it["after"])
        if isinstance(exp, str):
            stats["unsupported"][exp] = stats["unsupported"].get(exp, 0) + 1
            # outside the validator's domain: still searched dynamically
            w = search(it["before"], it["after"], rnd, tries=10)
            if w is not None:
                it["witness"] = w
                todo.append(it)
                it["exp"] = None
            continue
        it["exp"] = exp
        todo.append(it)
    found = False
    res = None
    ev_items = [it for it in todo if it["exp"] is not None]
    if model_ok:
        t0 = time.time()
        try:
            res = evaluate(ev_items)
        except RuntimeError as e:
            ctx.violation("correspondence-broken", "cfg_check could not be evaluated on the exported pass invocations", {"error": str(e)[-1500:]})
        stats["coq_seconds"] = round(time.time() - t0, 1)
    nrep = 0
    verdicts = []
    if res is not None:
        for it, r in zip(ev_items, res):
            if r[1] != 1:
                # sequential and parallel phis may differ on this function: outside the validator's model
                msg = "a phi reads the output of an earlier phi of the same block (phis_indep = false)"
                stats["unsupported"][msg] = stats["unsupported"].get(msg, 0) + 1
                stats.setdefault("phis_not_independent_samples", [])
                if len(stats["phis_not_independent_samples"]) < 3:
                    stats["phis_not_independent_samples"].append({"pass": it["pass"], "origin": it["origin"],
                                                                  "function": snap_text(it["before"])[:3000]})
                w = search(it["before"], it["after"], rnd, tries=10)
                if w is not None:
                    it["witness"] = w
                    verdicts.append((it, False))
                continue
            if it["exp"].get("ndata"):
                stats["with_jump_table"] = stats.get("with_jump_table", 0) + 1
                stats["jump_table_entries"] = stats.get("jump_table_entries", 0) + it["exp"]["ndata"]
                if r[2] != 1:
                    it["data_rejected"] = True
            verdicts.append((it, r[0] == 1 and r[2] == 1))
    verdicts += [(it, False) for it in todo if it["exp"] is None]
    rejected = []
    for it, ok in verdicts:
        stats["checked"] += 1
        if ok:
            stats["accepted"][it["pass"]] += 1
        else:
            stats["rejected"][it["pass"]] += 1
            rejected.append(it)
    # search every rejected instance (bounded) for a concrete input; report those with one first
    for it in rejected[:24]:
        if it.get("witness") is None:
            it["witness"] = search(it["before"], it["after"], rnd)
    rejected.sort(key=lambda it: it.get("witness") is None)
    per_pass = {}
    for it in rejected:
        if per_pass.get(it["pass"], 0) >= 2:
            continue
        per_pass[it["pass"]] = per_pass.get(it["pass"], 0) + 1
        w = it.get("witness")
        detail = {"pass": it["pass"], "origin": it["origin"], "function_before": snap_text(it["before"])[:6000],
                  "function_after": snap_text(it["after"])[:6000],
                  "call": f"{it['pass']}(IRAnalysesCache(fn), fn).run_pass() on parse_venom(function_before)",
                  "jump_table_before": it["before"].get("data"), "jump_table_after": it["after"].get("data"),
                  "rejected_by": "data_check (jump table)" if it.get("data_rejected") else "cfg_check"}
        if w is not None:
            nrep += 1
            found = True
            ctx.violation("failing-input", f"{it['pass']} changes the behaviour of a function: the event traces before/after differ",
                          dict(detail, **w, oracle="opaque instructions return sha256(seed, opcode, operands, #events); run_trace in tools/vlib/c14g_part.py"),
                          key="cfgpass:" + it["pass"])
        elif it["exp"] is not None and not found:
            nrep += 1
            ctx.violation("theorem-broken", f"cfg_check_sound does not apply: {it['pass']} output rejected by the verified validator", detail)
    if not b["ok"] and not found:
        ctx.violation("theorem-broken", f"{b.get('failed_lemma')} in {b['file']}",
                      {"theorem": b.get("failed_lemma"), "file": b["file"], "coq_output": b["out"][-1500:]})
    stats["backend_parallel_phi_runs"] = 16 - len(phi_bad)
    ctx.corr["cfg_passes"] = stats
    ctx.log(f"C14G: compile {t_compile:.1f}s, coq {stats.get('coq_seconds')}s, invocations {obs.calls}, distinct changing {len(obs.items)}, "
            f"accepted {stats['accepted']}, rejected {stats['rejected']}, unsupported {stats['unsupported']}")
    if items:
        ctx.samples.append({"validated_cfg_pass": items[0]["pass"], "origin": items[0]["origin"], "instructions": items[0]["ninsts"]})
    ctx.trusted += ["C14G: snapshot/export of IRFunction objects to Coq literals and the aligned block numbering (tools/vlib/c14g_part.py); "
                    "the semantics of CfgSem.v (sequential phis; applies to functions whose phis are independent, checked per instance)"]
    return stats["checked"]


def part_asm_cfg(ctx):
    """control-flow side of code generation (tools/vlib/c14g_asm.py)"""
    from . import c14g_asm
    return c14g_asm.part_asm_cfg(ctx)
