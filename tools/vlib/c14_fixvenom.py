"""C14: the two Venom semantics connected (coq/C14/FixVenom.v, PropsFixVenom.v) and their exporters tied.

Theorems (coq/C14/PropsFixVenom.v): `word_op_closed`, `step_conc_total` (the abstract semantics of RangeFix.v never
blocks), `venom_refines_rangefix` (every configuration an execution of the reference semantics Venom.v passes through
is a `reach` configuration of the projected function) and `venom_ranges_sound` (if `check (proj vf) E = true` then the
variable maps `vrun` passes through lie inside the ranges of E).

Per-run tie (`part_fixvenom`): IR snapshots (printed functions on which the real compiler ran VariableRangeAnalysis) are
re-parsed by the real parser, analysed by the real VariableRangeAnalysis, and exported by BOTH exporters
(c14_pass_export -> Venom.v term, c14_fix -> RangeFix.v term + certificate).  In Coq (vm_compute) the numbering of the
two exports is matched, `proj` of the Venom.v term is compared with the RangeFix.v term (exact up to the documented
differences: alloca placement address, resolved `offset`, literals mod 2^256), the hypotheses of venom_ranges_sound
(vf_okb, lab_okb, injective renaming) are evaluated and the validator is run on the projection itself."""
import warnings

from vlib import coqrun

PROOF_FILES = ["C14/WordClosed.v", "C14/VenomWords.v", "C14/FixVenom.v", "C14/PropsFixVenom.v", "C14/FixVenomTie.v"]
DEPS = (["C14/RangeBase.v", "C14/GenRange.v", "C14/RangeSound.v", "C14/RangeLemmas2.v", "C14/GenEval.v", "C14/EvalSound.v"]
        + [f"C14/{f}.v" for f in ("RangeEq", "RangeLt", "RangeGt", "RangeDiv", "RangeSlt", "RangeSgt", "RangeSdiv", "RangeSmod",
                                   "RangeBits", "RangeByte", "RangeSignext")]
        + ["C14/RangeOp.v", "C14/GenRangeClients.v", "C14/RangeClients.v", "C14/RangeRefine.v", "C14/RangeFix.v",
           "C14/RangeFixProofs.v", "C14/Venom.v", "C14/VenomNames.v"])
NO_REVERSE_UNKNOWN = ("dret", "retfmp", "invoke")
IMPORTS = ("From Coq Require Import NArith PArith.\n"
           "From Verif Require Import Base.PyInt C14.RangeBase C14.RangeFix C14.Venom C14.FixVenomTie.\n"
           "Open Scope string_scope.\nOpen Scope Z_scope.\n")
FIELDS = ["similar", "exact_insts", "insts", "vf_ok", "lab_ok", "ren_ok", "check_proj", "check_fix", "code_ok"]


def build(ctx, deps=None):
    return ctx.coq_build_cached(PROOF_FILES, deps=list(deps) if deps is not None else DEPS, timeout=900)


def collect_texts(ctx, max_programs, levels=None, max_insts=400):
    """IR snapshots: the printed form of every function on which the real compiler runs VariableRangeAnalysis."""
    from vlib import c14_fix, c14_pass_corpus as PC
    from vyper.compiler import compile_code
    from vyper.compiler.settings import OptimizationLevel, Settings
    rnd = ctx.rng("fixvenom-corpus")
    progs = PC.select(ctx.tier, rnd)
    if max_programs is not None and len(progs) > max_programs:
        progs = rnd.sample(progs, max_programs)
    levels = levels or [OptimizationLevel.GAS]
    nfail = 0
    with warnings.catch_warnings():
        warnings.simplefilter("ignore")
        with c14_fix.Observer(max_insts=max_insts, rnd=None) as obs:
            for c in progs:
                for lvl in levels:
                    try:
                        compile_code(c["src"], output_formats=["bytecode"], settings=Settings(experimental_codegen=True, optimize=lvl))
                    except Exception:
                        nfail += 1
    obs.samples.pop("__errors__", None)
    samples = sorted(obs.samples.values(), key=lambda s_: (-s_["nblocks"], s_["name"], s_["ninsts"]))
    return [s_["text"] for s_ in samples], {"programs": len(progs), "analysis_runs": obs.calls, "compile_failures": nfail}


def analyse(text):
    """snapshot text -> both exports of the re-parsed function, or (None, reason)"""
    from vlib import c14_fix, c14_pass_export as X
    from vyper.venom.analysis import IRAnalysesCache
    from vyper.venom.analysis.variable_range import VariableRangeAnalysis
    try:
        vctx = X.parse(text)
    except Exception as e:  # noqa
        return None, "parser: " + repr(e)[:200]
    fns = list(vctx.functions.values())
    if len(fns) != 1:
        return None, f"{len(fns)} functions"
    fn = fns[0]
    an = IRAnalysesCache(fn).request_analysis(VariableRangeAnalysis)
    ex = c14_fix.Export(fn, an)
    ftxt = ex.func()
    E = ex.envs(an._entry_state)
    E = [e if e is not None else "[]" for e in E]
    v = X.export_function(fn, vctx.data_segment)
    term = v["term"].lstrip()
    if not term.startswith("func_of "):
        return None, "unexpected Venom.v term"
    return {"name": ex.name, "fix": ftxt, "E": "[" + ";\n ".join(E) + "]", "venom": "func_ord " + term[len("func_of "):],
            "ninsts": ex.ninsts, "nblocks": len(ex.blocks), "text": text, "an": an, "unknown": sorted(v["unknown"]),
            "ops": v["ops"]}, None


def unk_table():
    from vlib import c14_pass_export as X
    return "[" + "; ".join(f'("{n}", {"true" if n in NO_REVERSE_UNKNOWN else "false"})' for n in X.UNKNOWN.names) + "]"


def evaluate(items, name="c14fixvenom", shard=4, timeout=900):
    unk = unk_table()
    import re
    q = re.compile(r"\bO(Lit|Var|Lab)\b")
    exprs = [f"let f : RangeFix.func := {q.sub(lambda m: 'RangeFix.O' + m.group(1), it['fix'])} in let Ec : list aenv := {it['E']} in\n"
             f"tie_result {unk} ({it['venom']}) f Ec" for it in items]
    return coqrun.eval_zlists(IMPORTS, exprs, name, shard=shard, timeout=timeout)


def part_fixvenom(ctx, texts=None, deps=None):
    """-> number of evaluations (functions tied).  texts: IR snapshot texts of single functions (default: collected from
    corpus compilations, see collect_texts)."""
    b = build(ctx, deps)
    stats = {"snapshots": 0, "not_parsed": 0, "tied": 0, "similar": 0, "instructions": 0, "instructions_exactly_equal": 0,
             "hypotheses_hold": 0, "check_proj": 0, "check_fix": 0, "blocks": 0}
    if not b["ok"]:
        ctx.violation("theorem-broken", f"{b.get('failed_lemma')} in {b['file']}",
                      {"theorem": b.get("failed_lemma"), "file": b["file"], "coq_output": b["out"][-1500:]})
        ctx.corr["range_fixvenom"] = stats
        return 0
    if texts is None:
        texts, src = collect_texts(ctx, 10 if ctx.tier == "quick" else None,
                                   max_insts=400 if ctx.tier == "quick" else 1200)
        stats.update(src)
    cap = 60 if ctx.tier == "quick" else 100000
    rnd = ctx.rng("fixvenom")
    if len(texts) > cap:
        texts = texts[:cap // 3] + rnd.sample(texts[cap // 3:], cap - cap // 3)
    items, seen = [], set()
    with warnings.catch_warnings():
        warnings.simplefilter("ignore")
        for t in texts:
            if t in seen:
                continue
            seen.add(t)
            stats["snapshots"] += 1
            it, why = analyse(t)
            if it is None:
                stats["not_parsed"] += 1
                continue
            items.append(it)
    if not items:
        ctx.corr["range_fixvenom"] = stats
        return 0
    try:
        res = evaluate(items, shard=max(1, len(items) // 10))
    except RuntimeError as e:
        ctx.violation("correspondence-broken", "the exporter tie could not be evaluated in Coq", {"error": str(e)[-1500:]})
        ctx.corr["range_fixvenom"] = stats
        return 0
    reported = 0
    for it, r in zip(items, res):
        d = dict(zip(FIELDS, r))
        if len(r) != len(FIELDS):
            ctx.violation("correspondence-broken", "malformed tie result for function " + it["name"], {"result": r})
            continue
        stats["tied"] += 1
        stats["blocks"] += it["nblocks"]
        stats["instructions"] += d["insts"]
        stats["instructions_exactly_equal"] += d["exact_insts"]
        stats["similar"] += d["similar"]
        hyp = d["vf_ok"] and d["lab_ok"] and d["ren_ok"] and d["code_ok"]
        stats["hypotheses_hold"] += 1 if hyp else 0
        stats["check_proj"] += d["check_proj"]
        stats["check_fix"] += d["check_fix"]
        if reported >= 3:
            continue
        if not d["similar"]:
            reported += 1
            ctx.violation("correspondence-broken", "the Venom.v exporter (c14_pass_export) and the RangeFix.v exporter (c14_fix) "
                          "describe different functions for " + it["name"], {"function": it["text"][:5000], "result": d},
                          key="fixvenom:exporters")
        elif not hyp:
            reported += 1
            ctx.violation("correspondence-broken", "venom_ranges_sound does not apply to function " + it["name"] +
                          " (vf_okb / lab_okb / ren_okb / code bytes)", {"function": it["text"][:5000], "result": d},
                          key="fixvenom:hypotheses")
        elif not d["check_proj"]:
            reported += 1
            if d["check_fix"]:
                ctx.violation("correspondence-broken", "the validator accepts the c14_fix export but rejects the projection of the "
                              "Venom.v export of function " + it["name"], {"function": it["text"][:5000], "result": d},
                              key="fixvenom:check-differs")
            else:
                from vlib import c14_fix
                ff = c14_fix.fuzz(it["an"], ctx.rng("fixvenom-fuzz"), 40)
                if ff is not None:
                    ctx.violation("failing-input", "a variable takes a value outside the range VariableRangeAnalysis reports", ff,
                                  key="fixpoint:fuzz:" + ff.get("variable", "?") + ":" + ff.get("instruction", "")[:60])
                else:
                    ctx.violation("theorem-broken", "venom_ranges_sound does not apply: the result of VariableRangeAnalysis on the "
                                  "re-parsed snapshot of " + it["name"] + " is not a post-fixpoint (check = false)",
                                  {"theorem": "venom_ranges_sound (check (proj vf) E = false)", "function": it["text"][:5000]})
    ctx.corr["range_fixvenom"] = stats
    ctx.log("fixvenom " + " ".join(f"{k}={v}" for k, v in stats.items()))
    ctx.trusted.append("coq/C14/FixVenom.v `proj`: tied per run to both exporters (projection of the Venom.v export equals the "
                       "RangeFix.v export up to alloca address / resolved offset / literal reduction)")
    ctx.assumptions.append("venom_ranges_sound: environment, oracle results and initial store hold words/bytes (env_ok, oracle_ok, "
                           "store_ok); out-of-core instructions (invoke, ret, param, dload, ...) stop a Venom.v execution")
    if items:
        ctx.samples.append({"tied_function": items[0]["name"], "blocks": items[0]["nblocks"], "instructions": items[0]["ninsts"],
                            "result": dict(zip(FIELDS, res[0]))})
    return stats["tied"]
